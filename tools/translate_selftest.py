"""Differential self-test of tools/translate.py (DESIGN.md section 1.2: "the translator is in the trusted base; it is itself
validated on every run by evaluating each translated definition (vm_compute) on boundary and random arguments and comparing
with the same C++ expression").

For every kernel of the requested groups whose arguments are all `Z` / `bool` and whose normalised C++ expression (the text
the translator's parser saw: after `wrap`, the atom substitutions and RENAME) is closed over those arguments:

  C++ side   `long long k_<name>(long long a, bool b, ...) { return <expression TEXT>; }` compiled with
             g++ -std=c++17 -O0 -fsanitize=undefined -fno-sanitize-recover=all against <repo>/include (nano/core/numeric.h for
             idiv / iround).  The same text is compiled a second time over a checked integer `ck` (128-bit intermediates):
             a tuple on which a division / remainder by zero, a std::clamp with lo > hi or an intermediate value beyond 2^62
             occurs is SKIPPED (counted): the translator's contract excludes undefined behaviour and wrap-around.
  Coq side   `Eval vm_compute` of the compiled `Src_<group>.<name>` on the same tuples.

Tuples: boundary values (0, +-1, +-2, +-7, +-8, +-100, +-(2^31-1); both booleans) in all combinations up to CAP_B per kernel
(a strided sample of the full product beyond the cap), plus NR pseudo-random tuples from an LCG seeded by VERIF_SEED and the
kernel name.

Speed: Coq 8.16 needs 0.3-1.5 ms to *parse and print* one explicit tuple (number notations are interpreted by reduction), i.e.
30-60 s for the ~50 000 tuples of a large property.  Therefore the tuple list is a deterministic function `tuples(kinds,
cap, nr, seed)` implemented twice -- here (authoritative: these tuples go to the C++ program) and as Gallina in the preamble of
the generated Coq file -- and the first pass compares, per kernel, the number of defined tuples and a checksum (a polynomial
hash mod 2^63 of the results on the defined tuples; the set of skipped tuples is passed as run lengths).  A kernel whose
checksum differs is re-evaluated tuple by tuple with explicit arguments (`Eval vm_compute in (k, i, Src_g.name a b c)`), one
result per line, and compared exactly with the C++ line of the same tuple: that pass names the tuple and both values.  A
checksum difference that the explicit pass cannot reproduce is an inconsistency of the self-test itself (reported under
`errors`, never as a disagreement).

Entry point: run(groups, run=None) -> summary dict (see vlib.coq_check / vlib.proof_coverage).
Cache: <vlib.WORK>/translate-selftest/<sha of (kernel source text + translated definition + tuple list)>.json (agreeing kernels
only: a disagreement is re-established on every run).
"""
import hashlib
import json
import os
import re
import shlex
import shutil
import time

VERSION = "translate-selftest-2"
CAP_B = 200          # boundary tuples per kernel (all combinations when there are at most that many)
NR = 300             # pseudo-random tuples per kernel
MAX_DETAIL = 12      # kernels re-evaluated tuple by tuple when their checksum differs
BND = [0, 1, -1, 2, -2, 7, -7, 8, -8, 100, -100, 2147483647, -2147483647]
M63 = 1 << 63
LCG_A = 6364136223846793005
LCG_C = 1442695040888963407
STRIDE = 1000003     # odd multiplier of the checksum (a polynomial hash mod 2^63)
ALLOWED_CALLS = ("std::min", "std::max", "std::clamp", "idiv", "iround", "nano::idiv", "nano::iround")


# ------------------------------------------------------------------------------------------------
# tuple generator (mirrored in Gallina: COQ_PREAMBLE)
# ------------------------------------------------------------------------------------------------

def lcg(s):
    return (s * LCG_A + LCG_C) % M63


def value_of_word(mode, isbool, w):
    v = w >> 3
    if isbool:
        return v % 2
    c = w & 7
    if mode == 4:
        return BND[v % 13]
    if mode == 2:
        return v % 19 - 9
    if mode == 3:
        return v % 2001 - 1000
    if c < 3:
        return v % 19 - 9
    if c < 5:
        return v % 2001 - 1000
    if c == 5:
        return v % 4294967296 - 2147483648
    if c == 6:
        return BND[v % 13]
    return v % 5 - 2


def gen_random(nr, force, kinds, seed):
    """nr tuples from the stream started at `seed`; force >= 0 fixes the mode (4: boundary values only)"""
    out, s = [], seed
    for _ in range(nr):
        s = lcg(s)
        mode = force if force >= 0 else (s >> 16) & 3
        t = []
        for k in kinds:
            s = lcg(s)
            t.append(value_of_word(mode, k, s >> 16))
        out.append(tuple(t))
    return out


def bnd_total(kinds):
    tot = 1
    for k in kinds:
        tot *= 2 if k else 13
    return tot


def bnd_tuples(kinds, cap, seed):
    """all combinations of the boundary values when there are at most `cap`, else `cap` pseudo-random combinations"""
    tot = bnd_total(kinds)
    if tot > cap:
        return gen_random(cap, 4, kinds, seed)
    out = []
    for i in range(tot):
        c, t = i, []
        for k in kinds:
            if k:
                t.append(c % 2)
                c //= 2
            else:
                t.append(BND[c % 13])
                c //= 13
        out.append(tuple(t))
    return out


def tuples_for(kinds, cap, nr, seed):
    return bnd_tuples(kinds, cap, (seed + 1) % M63) + gen_random(nr, -1, kinds, seed)


def checksum(vals):
    acc = 0
    for r in vals:
        acc = (acc * STRIDE + r % M63 + 7) % M63
    return acc


COQ_PREAMBLE = r"""(* GENERATED by tools/translate_selftest.py -- differential self-test of tools/translate.py *)
From Coq Require Import Uint63.
From Coq Require Import ZArith Bool List.
Import ListNotations.
Local Open Scope Z_scope.
Set Printing Depth 1000000.
Set Printing Width 100000.
(* the tuple generator and the checksum run on primitive 63-bit integers (machine speed under vm_compute); the translated
   definitions themselves are evaluated over Z *)
Notation st_int := PrimInt63.int.
Definition st_BND : list Z := [0; 1; -1; 2; -2; 7; -7; 8; -8; 100; -100; 2147483647; -2147483647].
Definition st_lcg (s : st_int) : st_int :=
  PrimInt63.add (PrimInt63.mul s 6364136223846793005%uint63) 1442695040888963407%uint63.
Definition st_b2z (b : bool) : Z := if b then 1 else 0.
Definition st_nz (z : Z) : bool := negb (z =? 0).
Definition st_bnd (i : Z) : Z := nth (Z.to_nat i) st_BND 0.
Definition st_small (x m : st_int) : Z := Uint63.to_Z (PrimInt63.mod x m).
Definition st_value (mode : st_int) (isbool : bool) (w : st_int) : Z :=
  let v := PrimInt63.lsr w 3%uint63 in
  if isbool then st_small v 2%uint63 else
  let c := PrimInt63.land w 7%uint63 in
  if PrimInt63.eqb mode 4%uint63 then st_bnd (st_small v 13%uint63) else
  if PrimInt63.eqb mode 2%uint63 then st_small v 19%uint63 - 9 else
  if PrimInt63.eqb mode 3%uint63 then st_small v 2001%uint63 - 1000 else
  if PrimInt63.ltb c 3%uint63 then st_small v 19%uint63 - 9 else
  if PrimInt63.ltb c 5%uint63 then st_small v 2001%uint63 - 1000 else
  if PrimInt63.eqb c 5%uint63 then st_small v 4294967296%uint63 - 2147483648 else
  if PrimInt63.eqb c 6%uint63 then st_bnd (st_small v 13%uint63) else st_small v 5%uint63 - 2.
Fixpoint st_gen_tuple (mode : st_int) (kinds : list bool) (s : st_int) : list Z * st_int :=
  match kinds with
  | [] => ([], s)
  | k :: r => let s1 := st_lcg s in
              let (t, s2) := st_gen_tuple mode r s1 in
              (st_value mode k (PrimInt63.lsr s1 16%uint63) :: t, s2)
  end.
(* forced = true: every tuple uses mode `force` *)
Fixpoint st_gen_random (n : nat) (forced : bool) (force : st_int) (kinds : list bool) (s : st_int) : list (list Z) :=
  match n with
  | O => []
  | S m => let s0 := st_lcg s in
           let mode := if forced then force else PrimInt63.land (PrimInt63.lsr s0 16%uint63) 3%uint63 in
           let (t, s1) := st_gen_tuple mode kinds s0 in
           t :: st_gen_random m forced force kinds s1
  end.
Fixpoint st_digits (kinds : list bool) (c : Z) : list Z :=
  match kinds with
  | [] => []
  | true :: r => (c mod 2) :: st_digits r (c / 2)
  | false :: r => st_bnd (c mod 13) :: st_digits r (c / 13)
  end.
Definition st_total (kinds : list bool) : Z := fold_left (fun a (k : bool) => a * (if k then 2 else 13)) kinds 1.
Definition st_bnd_tuples (kinds : list bool) (cap : Z) (seed : st_int) : list (list Z) :=
  let tot := st_total kinds in
  if cap <? tot then st_gen_random (Z.to_nat cap) true 4%uint63 kinds seed
  else map (fun i => st_digits kinds (Z.of_nat i)) (seq 0 (Z.to_nat tot)).
Definition st_tuples (kinds : list bool) (cap nr : Z) (seed : st_int) : list (list Z) :=
  st_bnd_tuples kinds cap (PrimInt63.add seed 1%uint63) ++ st_gen_random (Z.to_nat nr) false 0%uint63 kinds seed.
(* runs: lengths of alternating runs of defined / skipped tuples, starting with a (possibly empty) defined run *)
Fixpoint st_select (keep : bool) (runs : list Z) (l : list Z) : list Z :=
  match runs with
  | [] => []
  | n :: r => let n := Z.to_nat n in
              (if keep then firstn n l else []) ++ st_select (negb keep) r (skipn n l)
  end.
Definition st_hash (acc : st_int) (r : Z) : st_int :=
  PrimInt63.add (PrimInt63.add (PrimInt63.mul acc 1000003%uint63) (Uint63.of_Z r)) 7%uint63.
Definition st_sum (l : list Z) : Z * Z := (Z.of_nat (length l), Uint63.to_Z (fold_left st_hash l 0%uint63)).
Definition st_chk (f : list Z -> Z) (kinds : list bool) (cap nr : Z) (seed : st_int) (runs : list Z) : Z * Z :=
  st_sum (st_select true runs (map f (st_tuples kinds cap nr seed))).
Definition st_bad : Z := -999999999999999999999.
"""

CPP_PREAMBLE = r"""// GENERATED by tools/translate_selftest.py -- differential self-test of tools/translate.py
#include <algorithm>
#include <cstdio>
#include <cstdlib>
#include <cstring>
#include <type_traits>

namespace st
{
static bool        flag = false;
static const char* why  = "";
inline void        raise(const char* w)
{
    if (!flag)
    {
        flag = true;
        why  = w;
    }
}
} // namespace st

// checked integer: 128-bit intermediates; anything outside the modelled domain raises the flag (the tuple is skipped)
struct ck
{
    __int128 v;
    struct raw
    {
    };
    ck(long long x)
        : v(x)
    {
    }
    ck(__int128 x, raw)
        : v(x)
    {
    }
};
static const __int128 ST_LIM = static_cast<__int128>(1) << 62;
inline ck             st_mk(__int128 x)
{
    if (x > ST_LIM || x < -ST_LIM)
    {
        st::raise("overflow");
        return ck(0LL);
    }
    return ck(x, ck::raw{});
}
inline ck operator+(ck a, ck b) { return st_mk(a.v + b.v); }
inline ck operator-(ck a, ck b) { return st_mk(a.v - b.v); }
inline ck operator*(ck a, ck b) { return st_mk(a.v * b.v); }
inline ck operator/(ck a, ck b)
{
    if (b.v == 0)
    {
        st::raise("division-by-zero");
        return ck(0LL);
    }
    return st_mk(a.v / b.v);
}
inline ck operator%(ck a, ck b)
{
    if (b.v == 0)
    {
        st::raise("remainder-by-zero");
        return ck(0LL);
    }
    return st_mk(a.v % b.v);
}
inline ck   operator-(ck a) { return st_mk(-a.v); }
inline ck   operator+(ck a) { return a; }
inline bool operator<(ck a, ck b) { return a.v < b.v; }
inline bool operator<=(ck a, ck b) { return a.v <= b.v; }
inline bool operator>(ck a, ck b) { return a.v > b.v; }
inline bool operator>=(ck a, ck b) { return a.v >= b.v; }
inline bool operator==(ck a, ck b) { return a.v == b.v; }
inline bool operator!=(ck a, ck b) { return a.v != b.v; }

namespace std
{
// so that the real nano::idiv / nano::iround templates (enable_if is_integral) are instantiated with the checked integer
template <>
struct is_integral<ck> : true_type
{
};
// non-template overloads: mixed argument types (a literal next to a 64-bit value) and the checked integer
inline ck min(ck a, ck b) { return b < a ? b : a; }
inline ck max(ck a, ck b) { return a < b ? b : a; }
inline ck clamp(ck v, ck lo, ck hi)
{
    if (hi < lo)
    {
        st::raise("clamp-lo>hi");
        return v;
    }
    return v < lo ? lo : (hi < v ? hi : v);
}
inline long long min(long long a, int b) { return b < a ? b : a; }
inline long long min(int a, long long b) { return b < a ? b : a; }
inline long long max(long long a, int b) { return a < b ? b : a; }
inline long long max(int a, long long b) { return a < b ? b : a; }
} // namespace std

#include <nano/core/numeric.h>

static void st_emit(int k, long long ti, bool isck_flag, const char* why, long long r, __int128 c)
{
    if (isck_flag)
    {
        std::printf("S %d %lld %s\n", k, ti, why);
    }
    else if (static_cast<__int128>(r) != c)
    {
        std::printf("E %d %lld plain=%lld checked=%lld\n", k, ti, r, static_cast<long long>(c));
    }
    else
    {
        std::printf("R %d %lld %lld\n", k, ti, r);
    }
}
"""


# ------------------------------------------------------------------------------------------------
# kernel inspection
# ------------------------------------------------------------------------------------------------

def _sha(s):
    return hashlib.sha256(s.encode()).hexdigest()


def _closed(expr, argnames):
    """independent check that the normalised text only mentions the arguments, literals, true/false and the accepted calls"""
    import translate
    try:
        toks = translate.tokenize(expr)
    except translate.TranslateError as ex:
        return "expression cannot be tokenized: %s" % ex
    for i, (k, v) in enumerate(toks):
        if k != "id":
            continue
        called = i + 1 < len(toks) and toks[i + 1] == ("op", "(")
        if called:
            if v not in ALLOWED_CALLS:
                return "call to %s" % v
        elif v not in argnames and v not in ("true", "false"):
            return "free identifier %s" % v
    return None


def inspect(k, gen_dir, file_cache):
    """returns (info, None) or (None, reason)"""
    import translate
    for a, t in k["args"]:
        if t not in ("Z", "bool"):
            return None, "argument of a type other than Z / bool"
    try:
        raw, expr = translate.extract(k)
        body, ty = translate.emit(translate.parse(expr), dict(k["args"]))
        fresh = translate.translate_kernel(k)
    except translate.TranslateError:
        return None, "translation fails on the current tree (reported by the translator gate of coq_check)"
    why = _closed(expr, [a for a, _ in k["args"]])
    if why:
        return None, "normalised expression is not closed over the arguments (%s)" % why.split(" ")[0]
    g = k["group"]
    if g not in file_cache:
        vf = os.path.join(gen_dir, "Src_%s.v" % g)
        vo = vf + "o"
        try:
            txt = open(vf).read()
        except OSError:
            txt = None
        compiled = txt is not None and os.path.exists(vo) and os.path.getmtime(vo) >= os.path.getmtime(vf)
        file_cache[g] = (txt, compiled)
    txt, compiled = file_cache[g]
    if txt is None or fresh not in txt:
        return None, "generated file is stale (a kernel of the group failed to translate; last good file kept)"
    if not compiled:
        return None, "generated file is not compiled (Coq build failed before it)"
    definition = fresh.split("\n", 1)[1].strip()
    return dict(name=k["name"], group=g, args=list(k["args"]), raw=raw, expr=expr, ty=ty, definition=definition,
                file=k["file"]), None


# ------------------------------------------------------------------------------------------------
# emitters
# ------------------------------------------------------------------------------------------------

def _cpp_kernel(idx, info):
    pa = ", ".join("%s %s" % ("long long" if t == "Z" else "bool", a) for a, t in info["args"])
    ca = ", ".join("%s %s" % ("ck" if t == "Z" else "bool", a) for a, t in info["args"])
    e = info["expr"]
    if info["ty"] == "bool":
        kbody = "return (%s) ? 1 : 0;" % e
        cbody = "return ck((%s) ? 1LL : 0LL);" % e
    else:
        kbody = "return (%s);" % e
        cbody = "return ck(%s);" % e
    call_p = ", ".join("t[%d]" % i if t == "Z" else "t[%d] != 0" % i for i, (a, t) in enumerate(info["args"]))
    call_c = ", ".join("ck(t[%d])" % i if t == "Z" else "t[%d] != 0" % i for i, (a, t) in enumerate(info["args"]))
    ns = "g_%s" % re.sub(r"\W", "_", info["group"])
    n = info["name"]
    return ("namespace %s\n{\nusing namespace nano;\n#line 1 \"KERNEL:%d:\"\n"
            "static long long k_%s(%s) { %s }\n"
            "static ck c_%s(%s) { %s }\n"
            "}\n"
            "static void w_%d(long long ti, const long long* t)\n{\n    (void)t;\n    st::flag = false;\n"
            "    const ck c = %s::c_%s(%s);\n"
            "    if (st::flag) { st_emit(%d, ti, true, st::why, 0, 0); return; }\n"
            "    const long long r = %s::k_%s(%s);\n"
            "    st_emit(%d, ti, false, \"\", r, c.v);\n}\n") % (ns, idx, n, pa, kbody, n, ca, cbody, idx, ns, n, call_c, idx, ns, n, call_p, idx)


def _cpp_main(idxs):
    cases = "\n".join("        case %d: w_%d(ti, t); break;" % (i, i) for i in idxs)
    return ("int main()\n{\n    std::setvbuf(stdout, nullptr, _IOLBF, 0);\n    int k = 0, n = 0;\n    long long ti = 0;\n"
            "    long long t[64];\n"
            "    while (std::scanf(\"%%d %%lld %%d\", &k, &ti, &n) == 3)\n    {\n"
            "        if (n < 0 || n > 64) { std::printf(\"X bad-arity\\n\"); return 2; }\n"
            "        for (int i = 0; i < n; ++i) { if (std::scanf(\"%%lld\", &t[i]) != 1) { std::printf(\"X bad-input\\n\"); return 2; } }\n"
            "        switch (k)\n        {\n%s\n        default: std::printf(\"X unknown-kernel %%d\\n\", k); return 2;\n        }\n    }\n"
            "    std::printf(\"DONE\\n\");\n    return 0;\n}\n") % cases


def _coq_fun(info):
    """Gallina function list Z -> Z applying the translated definition to a tuple"""
    names = ["a%d" % i for i in range(len(info["args"]))]
    actual = " ".join(n if t == "Z" else "(st_nz %s)" % n for n, (_, t) in zip(names, info["args"]))
    call = ("Src_%s.%s %s" % (info["group"], info["name"], actual)).strip()
    if info["ty"] == "bool":
        call = "st_b2z (%s)" % call
    return "(fun t => match t with [%s] => %s | _ => st_bad end)" % ("; ".join(names), call)


def _coq_lit(v):
    return "(%d)" % v if v < 0 else "%d" % v


def _coq_explicit(idx, ti, info, t):
    actual = " ".join(_coq_lit(v) if ty == "Z" else ("true" if v else "false") for v, (_, ty) in zip(t, info["args"]))
    call = ("Src_%s.%s %s" % (info["group"], info["name"], actual)).strip()
    if info["ty"] == "bool":
        call = "st_b2z (%s)" % call
    return "Eval vm_compute in (%d, %d, %s)." % (idx, ti, call)


def _runs(defined):
    """alternating run lengths starting with a defined run"""
    runs, cur, n = [], True, 0
    for d in defined:
        if d == cur:
            n += 1
        else:
            runs.append(n)
            cur, n = d, 1
    runs.append(n)
    return runs


# ------------------------------------------------------------------------------------------------
# the run
# ------------------------------------------------------------------------------------------------

def _seed(run):
    if run is not None and getattr(run, "seed", None) is not None:
        return int(run.seed)
    return int(os.environ.get("VERIF_SEED", "20260926"))


def _coqc(vlib, gen_dir, vfile, timeout, groups, locked=False):
    """compile the generated file against the compiled kernels.  The first pass does not take the `coq` lock (another check's
    `make` may hold it for minutes): the Src_*.vo it loads only change when /repo's kernels change, a half-written file makes
    coqc fail (never compute something else), and a failure or a change of the loaded files during the run is retried."""
    cmd = "timeout %d coqc -q -Q %s LNGen -w -all %s" % (timeout, shlex.quote(gen_dir), shlex.quote(os.path.basename(vfile)))
    if locked:
        with vlib.Lock("coq"):
            return vlib.sh(cmd, cwd=os.path.dirname(vfile), timeout=timeout + 30)

    def stamp():
        out = []
        for g in groups:
            try:
                st = os.stat(os.path.join(gen_dir, "Src_%s.vo" % g))
                out.append((g, st.st_mtime_ns, st.st_size))
            except OSError:
                out.append((g, None, None))
        return out
    rc, out = 1, ""
    for attempt in range(3):
        before = stamp()
        rc, out = vlib.sh(cmd, cwd=os.path.dirname(vfile), timeout=timeout + 30)
        if rc == 0 and stamp() == before:
            break
        time.sleep(1.5 * (attempt + 1))
    return rc, out


def run(groups, run=None):
    """groups: iterable of kernel group names; run: optional vlib.Run (seed). Returns the summary dict:
    kernels_tested, kernels_skipped {reason: n}, skipped {reason: [names]}, tuples_compared, tuples_skipped_undefined,
    disagreements (count), disagreement_list [{group, kernel, args, cpp, coq, expression, definition}], errors [...],
    kernels_cached, seconds, groups"""
    import translate
    import vlib
    t0 = time.time()
    seed = _seed(run)
    groups = sorted(set(groups))
    summ = {"groups": groups, "seed": seed, "kernels_tested": 0, "kernels_skipped": {}, "skipped": {}, "tuples_compared": 0,
            "tuples_skipped_undefined": 0, "disagreements": 0, "disagreement_list": [], "errors": [], "kernels_cached": 0,
            "kernels_with_disagreement": [], "tuples_per_kernel": "<= %d boundary + %d random" % (CAP_B, NR)}

    def skip(name, reason):
        summ["kernels_skipped"][reason] = summ["kernels_skipped"].get(reason, 0) + 1
        summ["skipped"].setdefault(reason, []).append(name)

    if not translate.KERNELS:
        translate.load_kernels()
    gen_dir = os.path.join(vlib.COQ, "generated")
    wdir = os.path.join(vlib.WORK, "translate-selftest")
    os.makedirs(wdir, exist_ok=True)
    file_cache, todo = {}, []
    for k in translate.KERNELS:
        if k["group"] not in groups:
            continue
        info, why = inspect(k, gen_dir, file_cache)
        if info is None:
            skip("%s.%s" % (k["group"], k["name"]), why)
            continue
        kinds = [t == "bool" for _, t in info["args"]]
        nr = NR if kinds else 0
        kseed = int(_sha("%s|%d|%s|%s" % (VERSION, seed, info["group"], info["name"]))[:15], 16)
        tl = tuples_for(kinds, CAP_B, nr, kseed)
        info.update(kinds=kinds, nr=nr, kseed=kseed, tuples=tl)
        info["key"] = _sha(json.dumps([VERSION, info["group"], info["name"], info["args"], info["file"], info["raw"], info["expr"],
                                       info["definition"], CAP_B, nr, kseed, tl]))[:32]
        cpath = os.path.join(wdir, info["key"] + ".json")
        cached = None
        if os.path.exists(cpath):
            try:
                cached = json.load(open(cpath))
            except (OSError, ValueError):
                cached = None
        if cached and cached.get("status") == "agree" and cached.get("kernel") == info["name"]:
            summ["kernels_tested"] += 1
            summ["kernels_cached"] += 1
            summ["tuples_compared"] += cached["tuples_compared"]
            summ["tuples_skipped_undefined"] += cached["tuples_skipped_undefined"]
            continue
        todo.append(info)
    if todo:
        rdir = os.path.join(wdir, "run-%d-%d" % (os.getpid(), int(time.time() * 1000) % 100000000))
        os.makedirs(rdir, exist_ok=True)
        keep = False
        try:
            keep = _evaluate(vlib, translate, todo, rdir, gen_dir, wdir, summ, skip)
        except Exception as ex:  # the self-test must never take a check down: its own failure is listed, not raised
            summ["errors"].append("self-test machinery failed: %r" % (ex,))
            keep = True
        if keep or os.environ.get("VERIF_SELFTEST_KEEP"):
            summ["kept_workdir"] = rdir
        else:
            shutil.rmtree(rdir, ignore_errors=True)
    summ["seconds"] = round(time.time() - t0, 2)
    for r in summ["skipped"]:
        summ["skipped"][r] = sorted(summ["skipped"][r])
    return summ


def _evaluate(vlib, translate, todo, rdir, gen_dir, wdir, summ, skip):
    """C++ and Coq evaluation of the kernels in `todo`; returns True when the work directory should be kept"""
    keep = False
    # ---- C++ -----------------------------------------------------------------------------------------------------------
    active = list(range(len(todo)))
    exe = os.path.join(rdir, "selftest")
    cpp = os.path.join(rdir, "selftest.cpp")
    for attempt in range(4):
        src = CPP_PREAMBLE + "\n".join(_cpp_kernel(i, todo[i]) for i in active) + "\n" + _cpp_main(active)
        open(cpp, "w").write(src)
        cmd = ("g++ -std=c++17 -O0 -fsanitize=undefined -fno-sanitize-recover=all -w -I%s -o %s %s"
               % (shlex.quote(os.path.join(translate.REPO, "include")), shlex.quote(exe), shlex.quote(cpp)))
        rc, out = vlib.sh(cmd, timeout=300)
        if rc == 0:
            break
        bad = sorted(set(int(m.group(1)) for m in re.finditer(r"KERNEL:(\d+):", out)))
        if not bad or attempt == 3:
            summ["errors"].append("C++ side does not compile: " + out[-1500:])
            return True
        for i in bad:
            m = re.search(r"KERNEL:%d:[^\n]*error:([^\n]*)" % i, out)
            skip("%s.%s" % (todo[i]["group"], todo[i]["name"]),
                 "expression text does not compile as a standalone C++ function over long long / bool")
            todo[i]["cpp_error"] = m.group(1).strip() if m else ""
        active = [i for i in active if i not in bad]
    if not active:
        return keep
    inp = []
    for i in active:
        n = len(todo[i]["args"])
        for ti, t in enumerate(todo[i]["tuples"]):
            inp.append("%d %d %d %s" % (i, ti, n, " ".join(str(v) for v in t)))
    rc, out = vlib.sh([exe], input="\n".join(inp) + "\n", timeout=300,
                      env={"UBSAN_OPTIONS": "print_stacktrace=0:halt_on_error=1"})
    res = {i: {} for i in active}      # idx -> {ti: value or None (skipped)}
    why_skipped = {}
    harness_err = {}
    lines = out.split("\n")
    for l in lines:
        p = l.split(" ")
        if p[0] == "R" and len(p) == 4:
            res[int(p[1])][int(p[2])] = int(p[3])
        elif p[0] == "S" and len(p) >= 4:
            res[int(p[1])][int(p[2])] = None
            why_skipped[p[3]] = why_skipped.get(p[3], 0) + 1
        elif p[0] == "E" and len(p) >= 3:
            harness_err.setdefault(int(p[1]), l)
            res[int(p[1])][int(p[2])] = None
    if rc != 0 or "DONE" not in lines:
        summ["errors"].append("C++ side ended abnormally (exit %s): %s" % (rc, " | ".join(x for x in lines[-6:] if x)[-600:]))
        keep = True
    good = []
    for i in active:
        name = "%s.%s" % (todo[i]["group"], todo[i]["name"])
        if i in harness_err:
            summ["errors"].append("%s: plain and checked evaluation differ (%s)" % (name, harness_err[i]))
            skip(name, "self-test harness inconsistency (see errors)")
            keep = True
        elif len(res[i]) != len(todo[i]["tuples"]):
            skip(name, "C++ side incomplete (see errors)")
        else:
            good.append(i)
    for w, n in why_skipped.items():
        summ.setdefault("undefined_by_cause", {})
        summ["undefined_by_cause"][w] = summ["undefined_by_cause"].get(w, 0) + n
    if not good:
        return keep
    # ---- Coq, pass 1: checksums ------------------------------------------------------------------------------------------
    need = sorted(set(todo[i]["group"] for i in good))
    parts = [COQ_PREAMBLE, "From LNGen Require %s.\n" % " ".join("Src_%s" % g for g in need)]
    expect = {}
    for i in good:
        info = todo[i]
        defined = [res[i][ti] is not None for ti in range(len(info["tuples"]))]
        vals = [res[i][ti] for ti in range(len(info["tuples"])) if res[i][ti] is not None]
        expect[i] = (len(vals), checksum(vals))
        parts.append("(* %d: %s.%s  `%s` *)\nEval vm_compute in (%d, st_chk %s [%s] %d %d %s [%s])." % (
            i, info["group"], info["name"], info["expr"].replace("*)", "* )").replace("(*", "( *"), i, _coq_fun(info),
            "; ".join("true" if b else "false" for b in info["kinds"]), CAP_B, info["nr"], "%d%%uint63" % info["kseed"],
            "; ".join(str(n) for n in _runs(defined))))
    v1 = os.path.join(rdir, "SelfTest1.v")
    open(v1, "w").write("\n".join(parts) + "\n")
    rc, out = _coqc(vlib, gen_dir, v1, 600, need)
    got = {}
    for m in re.finditer(r"=\s*\((\d+),\s*\((\d+),\s*(\d+)\)\)", out):
        got[int(m.group(1))] = (int(m.group(2)), int(m.group(3)))
    if rc != 0 and not got:
        summ["errors"].append("Coq side failed (exit %s): %s" % (rc, out[-1200:]))
        for i in good:
            skip("%s.%s" % (todo[i]["group"], todo[i]["name"]), "Coq side of the self-test failed (see errors)")
        return True
    differ = []
    for i in good:
        info = todo[i]
        name = "%s.%s" % (info["group"], info["name"])
        if i not in got:
            summ["errors"].append("%s: no Coq result (exit %s): %s" % (name, rc, out[-600:]))
            skip(name, "Coq side of the self-test failed (see errors)")
            keep = True
        elif got[i] == expect[i]:
            _agree(info, expect[i][0], len(info["tuples"]) - expect[i][0], wdir, summ)
        else:
            differ.append(i)
    # ---- Coq, pass 2: the kernels whose checksum differs, tuple by tuple --------------------------------------------------
    if differ:
        keep = True
        detail = differ[:MAX_DETAIL]
        parts = [COQ_PREAMBLE, "From LNGen Require %s.\n" % " ".join("Src_%s" % g for g in sorted(set(todo[i]["group"] for i in detail)))]
        for i in detail:
            for ti, t in enumerate(todo[i]["tuples"]):
                if res[i][ti] is not None:
                    parts.append(_coq_explicit(i, ti, todo[i], t))
        v2 = os.path.join(rdir, "SelfTest2.v")
        open(v2, "w").write("\n".join(parts) + "\n")
        rc, out = _coqc(vlib, gen_dir, v2, 900, need, locked=True)
        coqv = {}
        for m in re.finditer(r"=\s*\((\d+),\s*(\d+),\s*(-?\d+)\)", out):
            coqv[(int(m.group(1)), int(m.group(2)))] = int(m.group(3))
        for i in differ:
            info = todo[i]
            name = "%s.%s" % (info["group"], info["name"])
            if i not in detail:
                summ["disagreements"] += 1
                summ["kernels_with_disagreement"].append(name)
                summ["disagreement_list"].append(dict(group=info["group"], kernel=info["name"], args=None, cpp=None, coq=None,
                                                      note="checksum over the defined tuples differs (C++ %r, Coq %r); tuple-by-tuple "
                                                           "pass limited to the first %d kernels" % (expect[i], got[i], MAX_DETAIL),
                                                      expression=info["expr"], definition=info["definition"], file=info["file"]))
                continue
            bad, compared, missing = [], 0, 0
            for ti, t in enumerate(info["tuples"]):
                if res[i][ti] is None:
                    continue
                if (i, ti) not in coqv:
                    missing += 1
                    continue
                compared += 1
                if coqv[(i, ti)] != res[i][ti]:
                    bad.append((ti, t, res[i][ti], coqv[(i, ti)]))
            if bad:
                summ["disagreements"] += len(bad)
                summ["kernels_with_disagreement"].append(name)
                summ["tuples_compared"] += compared
                for ti, t, cv, qv in bad[:3]:
                    summ["disagreement_list"].append(dict(
                        group=info["group"], kernel=info["name"],
                        args={a: (v if ty == "Z" else bool(v)) for v, (a, ty) in zip(t, info["args"])},
                        cpp=cv, coq=qv, tuples_disagreeing=len(bad), tuples_compared=compared,
                        expression=info["expr"], source=info["raw"], definition=info["definition"], file=info["file"]))
            elif missing:
                summ["errors"].append("%s: checksum differs and the explicit pass is incomplete (%d tuples without a Coq value, exit %s)"
                                      % (name, missing, rc))
                skip(name, "Coq side of the self-test failed (see errors)")
            else:
                summ["errors"].append("%s: checksum differs (C++ %r, Coq %r) but all %d explicit tuples agree: the two tuple generators "
                                      "of the self-test are out of step" % (name, expect[i], got[i], compared))
                skip(name, "self-test harness inconsistency (see errors)")
    return keep


def _agree(info, compared, skipped, wdir, summ):
    summ["kernels_tested"] += 1
    summ["tuples_compared"] += compared
    summ["tuples_skipped_undefined"] += skipped
    rec = dict(status="agree", kernel=info["name"], group=info["group"], expression=info["expr"], definition=info["definition"],
               tuples_compared=compared, tuples_skipped_undefined=skipped, version=VERSION)
    path = os.path.join(wdir, info["key"] + ".json")
    tmp = path + ".%d.tmp" % os.getpid()
    try:
        json.dump(rec, open(tmp, "w"))
        os.replace(tmp, path)
    except OSError:
        pass


def brief(summ):
    """the part of the summary that goes into the evidence"""
    out = {k: summ.get(k) for k in ("kernels_tested", "kernels_skipped", "tuples_compared", "tuples_skipped_undefined",
                                    "disagreements")}
    out["kernels_cached"] = summ.get("kernels_cached", 0)
    out["groups"] = summ.get("groups", [])
    out["seconds"] = summ.get("seconds")
    out["tuples_per_kernel"] = summ.get("tuples_per_kernel")
    if summ.get("undefined_by_cause"):
        out["undefined_by_cause"] = summ["undefined_by_cause"]
    if summ.get("skipped"):
        out["skipped"] = {r: v[:20] for r, v in summ["skipped"].items()}
    if summ.get("errors"):
        out["errors"] = [e[:600] for e in summ["errors"][:5]]
    if summ.get("disagreement_list"):
        out["disagreement_samples"] = summ["disagreement_list"][:10]
        out["kernels_with_disagreement"] = summ.get("kernels_with_disagreement", [])
    return out


def describe(d):
    """one line naming the kernel, the argument tuple and both values"""
    if d.get("args") is None:
        return "kernel %s.%s: %s" % (d["group"], d["kernel"], d.get("note", "checksum differs"))
    return "kernel %s.%s on (%s): C++ `%s` = %s, Coq `%s` = %s" % (
        d["group"], d["kernel"], ", ".join("%s=%s" % (a, str(v).lower() if isinstance(v, bool) else v) for a, v in d["args"].items()),
        d["expression"], d["cpp"], d["definition"].split(":=", 1)[-1].strip().rstrip("."), d["coq"])


if __name__ == "__main__":
    import sys
    sys.path.insert(0, os.path.dirname(os.path.abspath(__file__)))
    import translate as _t
    _t.load_kernels()
    gs = sys.argv[1:] or sorted(set(k["group"] for k in _t.KERNELS))
    s = run(gs)
    print(json.dumps({k: v for k, v in s.items() if k != "skipped"}, indent=1, default=str))
