"""Common machinery for the /verif checks (stdlib only).

Every check does, in order:
  1. build /repo's *current working tree* (incremental, hooks on: -DNANO_VERIF)
  2. regenerate the translated kernels (tools/translate.py) and re-check the Coq development
     (full .vo build, Print Assumptions gate, forbidden-word gate)
  3. correspondence: extracted model vs implementation on the same cases
  4. direct search for a failing input on the implementation
  5. evidence + exit code
"""
import atexit
import fcntl
import hashlib
import json
import os
import re
import shlex
import subprocess
import sys
import time

ROOT = os.path.dirname(os.path.dirname(os.path.abspath(__file__)))
REPO = os.path.realpath(os.environ.get("VERIF_REPO", "/repo"))
# VERIF_REPO=<scratch copy or worktree of /repo> runs the same checks against another tree (used to try
# breaking changes without touching /repo): everything it writes then goes to _work/alt-<hash>/
ALT = REPO != "/repo"
WORK = os.path.join(ROOT, "_work") if not ALT else os.path.join(ROOT, "_work", "alt-" + hashlib.sha256(REPO.encode()).hexdigest()[:10])
OUTDIR = ROOT if not ALT else WORK       # evidence/ and replays/ live here
COQ = os.path.join(ROOT, "coq") if not ALT else os.path.join(WORK, "coq")   # alt runs get a private copy
GUARD = "NANO_VERIF"
NCPU = os.cpu_count() or 4

BASE_CXXFLAGS = "-O2 -DNDEBUG -Wno-error -D%s" % GUARD
VARIANTS = {
    # name: (extra cxx flags, extra link flags)
    "rel": ("", ""),
    "asan": ("-g -fsanitize=address,undefined -fno-sanitize-recover=all -fno-omit-frame-pointer",
             "-fsanitize=address,undefined"),
    "tsan": ("-g -fsanitize=thread", "-fsanitize=thread"),
}
LIBS = ["linear", "machine", "solver", "program", "function", "core"]  # link order


class CheckError(Exception):
    pass


def log(*a):
    print(*a, file=sys.stderr, flush=True)


def sh(cmd, timeout=1200, cwd=None, env=None, input=None):
    """run a shell command, return (rc, stdout+stderr)"""
    e = dict(os.environ)
    if env:
        e.update(env)
    try:
        p = subprocess.run(cmd, shell=isinstance(cmd, str), cwd=cwd, env=e, input=input,
                           stdout=subprocess.PIPE, stderr=subprocess.STDOUT, timeout=timeout, text=True,
                           errors="replace")
        return p.returncode, p.stdout
    except subprocess.TimeoutExpired as ex:
        out = ex.stdout or ""
        if isinstance(out, bytes):
            out = out.decode(errors="replace")
        return 124, out + "\n[timeout after %ss]" % timeout


class Lock:
    def __init__(self, name):
        os.makedirs(WORK, exist_ok=True)
        self.path = os.path.join(WORK, name + ".lock")

    def __enter__(self):
        self.f = open(self.path, "w")
        fcntl.flock(self.f, fcntl.LOCK_EX)
        return self

    def __exit__(self, *a):
        fcntl.flock(self.f, fcntl.LOCK_UN)
        self.f.close()


# ------------------------------------------------------------------------------------------------
# 1. repo build
# ------------------------------------------------------------------------------------------------

def git_dir():
    rc, out = sh("git -C %s rev-parse --absolute-git-dir" % shlex.quote(REPO))
    return out.strip() if rc == 0 else os.path.join(REPO, ".git")


def build_repo(variant="rel"):
    """incremental library-only build of /repo's working tree with hooks on; returns build dir"""
    bdir = os.path.join(WORK, "build-" + variant)
    xf, lf = VARIANTS[variant]
    with Lock("build-" + variant):
        if not os.path.exists(os.path.join(bdir, "build.ninja")):
            os.makedirs(bdir, exist_ok=True)
            cmd = ("cmake -G Ninja -S %s -B %s -DNANO_BUILD_TESTS=OFF -DNANO_BUILD_CMD_APP=OFF "
                   "-DCMAKE_BUILD_TYPE=None -DBUILD_SHARED_LIBS=OFF -DCMAKE_CXX_FLAGS=%s "
                   "-DCMAKE_EXE_LINKER_FLAGS=%s") % (
                shlex.quote(REPO), shlex.quote(bdir), shlex.quote((BASE_CXXFLAGS + " " + xf).strip()),
                shlex.quote(lf))
            rc, out = sh(cmd, timeout=600, env={"GIT_DIR": git_dir()})
            if rc != 0:
                raise CheckError("cmake configure failed:\n" + out[-3000:])
        rc, out = sh("ninja -C %s -j%d" % (shlex.quote(bdir), NCPU), timeout=3000,
                     env={"GIT_DIR": git_dir()})
        if rc != 0:
            raise CheckError("library build failed (variant %s):\n%s" % (variant, out[-4000:]))
    return bdir


def build_harness(name, variant="rel", need_lib=True, extra="", sources=None):
    """compile harness/<name>.cpp against the current working tree; returns exe path.
    Rebuilt when the source, any included header or the libraries are newer than the binary."""
    bdir = build_repo(variant) if need_lib else None
    xf, lf = VARIANTS[variant]
    odir = os.path.join(WORK, "harness-" + variant)
    os.makedirs(odir, exist_ok=True)
    exe = os.path.join(odir, name)
    dep = exe + ".d"
    srcs = sources or [os.path.join(ROOT, "harness", name + ".cpp")]
    with Lock("harness-%s-%s" % (variant, name)):
        stale = True
        if os.path.exists(exe) and os.path.exists(dep):
            t = os.path.getmtime(exe)
            deps = re.sub(r"\\\n", " ", open(dep).read()).split(":", 1)[-1].split()
            files = deps + srcs
            if need_lib:
                files += [os.path.join(bdir, "src", "lib%s.a" % l) for l in LIBS]
            stale = any((not os.path.exists(f)) or os.path.getmtime(f) > t for f in files)
        if stale:
            inc = "-I%s/include -I%s/src -I%s/harness -isystem /usr/include/eigen3" % (REPO, REPO, ROOT)
            if need_lib:
                inc += " -I%s" % bdir
            libs = ""
            if need_lib:
                libs = " ".join(os.path.join(bdir, "src", "lib%s.a" % l) for l in LIBS)
            cmd = "g++ -std=c++17 %s %s %s %s -MMD -MF %s -o %s %s %s %s -lpthread" % (
                BASE_CXXFLAGS, xf, extra, inc, shlex.quote(dep), shlex.quote(exe),
                " ".join(shlex.quote(s) for s in srcs), libs, lf)
            rc, out = sh(cmd, timeout=900)
            if rc != 0:
                raise CheckError("harness %s failed to compile against the working tree:\n%s" % (name, out[-4000:]))
    return exe


# ------------------------------------------------------------------------------------------------
# 2. Coq
# ------------------------------------------------------------------------------------------------

FORBIDDEN = re.compile(r"\b(Admitted|admit|Axiom|Axioms|Parameter|Parameters|Conjecture|Conjectures|"
                       r"Admit Obligations|bypass_check|Unset Guard Checking|Unset Positivity Checking|"
                       r"Unset Universe Checking|type-in-type|impredicative-set|native_compute)\b")

# axioms that the standard library / installed libraries declare; anything else fails the gate
AXIOM_WHITELIST = [
    r"ClassicalDedekindReals\.sig_forall_dec", r"ClassicalDedekindReals\.sig_not_dec",
    r"FunctionalExtensionality\.functional_extensionality_dep",
    r"Classical_Prop\.classic", r"Eqdep\.Eq_rect_eq\.eq_rect_eq",
    r"ProofIrrelevance\.proof_irrelevance", r"JMeq\.JMeq_eq",
    r"PropExtensionality\.propositional_extensionality",
    r"ClassicalEpsilon\.constructive_indefinite_description",
    r"FloatAxioms\.\w+", r"PrimFloat\.\w+", r"Uint63\.\w+", r"PrimInt63\.\w+", r"FloatOps\.\w+",
    r"Sint63\.\w+", r"Uint63Axioms\.\w+", r"CarryType\.\w+", r"PrimString\.\w+", r"PArray\.\w+",
    r"Rdefinitions\.\w+", r"Raxioms\.\w+", r"Rtrigo1\.\w+",
]
AX_RE = re.compile(r"^(%s)$" % "|".join(AXIOM_WHITELIST))


def strip_coq_comments(s):
    out, depth, i = [], 0, 0
    while i < len(s):
        if s.startswith("(*", i):
            depth += 1
            i += 2
        elif s.startswith("*)", i) and depth:
            depth -= 1
            i += 2
        else:
            if not depth:
                out.append(s[i])
            i += 1
    return "".join(out)


def coq_setup():
    with Lock("coq"):
        if ALT:
            os.makedirs(os.path.join(COQ, "generated"), exist_ok=True)
            # sources only: compiled files of the main tree must not leak into an alternate tree (its generated
            # kernels differ, which would give "inconsistent assumptions" instead of the broken lemma)
            sh("rsync -a --delete --exclude '*.vo' --exclude '*.vok' --exclude '*.vos' --exclude '*.glob' "
               "--exclude '.*.aux' %s/ %s/" % (shlex.quote(os.path.join(ROOT, "coq", "theories")),
                                                shlex.quote(os.path.join(COQ, "theories"))))
        os.makedirs(os.path.join(COQ, "extracted"), exist_ok=True)
        mk = os.path.join(COQ, "Makefile")
        cp = os.path.join(COQ, "_CoqProject")
        vs = sorted(os.path.join("theories", f) for f in os.listdir(os.path.join(COQ, "theories")) if f.endswith(".v"))
        vs += sorted(os.path.join("generated", f) for f in os.listdir(os.path.join(COQ, "generated")) if f.endswith(".v"))
        want = "-Q theories LN\n-Q generated LNGen\n-arg -w -arg -all\n" + "\n".join(vs) + "\n"
        if (not os.path.exists(cp)) or open(cp).read() != want or not os.path.exists(mk):
            open(cp, "w").write(want)
            rc, out = sh("coq_makefile -f _CoqProject -o Makefile", cwd=COQ)
            if rc != 0:
                raise CheckError("coq_makefile failed: " + out)


def coq_check(pid, targets=None, timeout=1500):
    """Translate kernels, build Properties_<pid>.vo with all dependencies (full .vo build), re-run the
    property file to capture Print Assumptions, gate axioms and forbidden words; then the differential self-test of the
    translator (tools/translate_selftest.py) on the kernel groups this property depends on.
    Returns dict(ok, theorems, discharged, axioms, broken (name or None), log, selftest)."""
    res = _coq_check_core(pid, targets, timeout)
    _attach_selftest(res, pid, targets)
    return res


def _coq_check_core(pid, targets=None, timeout=1500):
    """the Coq side proper (see coq_check)"""
    import translate
    res = {"ok": False, "theorems": [], "discharged": 0, "axioms": [], "broken": None, "log": "",
           "kernels": []}
    try:
        res["kernels"] = translate.run(pid)
    except translate.TranslateError as ex:
        res["broken"] = "translator:%s" % ex
        res["log"] = str(ex)
        # fall through: the rest of the development is still checked against the last good kernels
        res["translator_failed"] = True
    coq_setup()
    prop = "theories/Properties_%s" % pid
    tg = targets or [prop + ".vo"]
    src = open(os.path.join(COQ, prop + ".v")).read()
    thms = re.findall(r"^\s*Theorem\s+(\w+)", strip_coq_comments(src), re.M)
    res["theorems"] = thms
    with Lock("coq"):
        rc, out = sh("timeout %d make -k -j%d %s" % (timeout, NCPU, " ".join(tg)), cwd=COQ, timeout=timeout + 30)
        res["log"] += out[-6000:]
        if rc != 0:
            res["broken"] = res["broken"] or _locate_broken(out)
            return res
        # always re-run the property file itself (cheap) to obtain the assumptions of this very run
        rc, out = sh("timeout 600 coqc -q -Q theories LN -Q generated LNGen -w -all %s.v" % prop, cwd=COQ, timeout=630)
        res["log"] += out[-6000:]
        if rc != 0:
            res["broken"] = res["broken"] or _locate_broken(out)
            return res
    axioms = set()
    closed = 0
    for blk in re.split(r"\n(?=Closed under the global context|Axioms:)", "\n" + out):
        if blk.startswith("Closed under"):
            closed += 1
        elif blk.startswith("Axioms:"):
            closed += 1
            for m in re.finditer(r"^([A-Za-z_][\w.']*)\s*(?::|$)", blk[len("Axioms:"):], re.M):
                axioms.add(m.group(1))
    res["axioms"] = sorted(axioms)
    bad = [a for a in axioms if not AX_RE.match(a)]
    if bad:
        res["broken"] = "axiom-gate:" + ",".join(bad)
        return res
    if closed < len(thms):
        res["broken"] = "print-assumptions-missing (%d of %d)" % (closed, len(thms))
        return res
    # forbidden words anywhere in the files this property depends on
    deps = coq_deps(prop + ".v")
    for f in deps:
        txt = strip_coq_comments(open(os.path.join(COQ, f)).read())
        m = FORBIDDEN.search(txt)
        if m:
            res["broken"] = "forbidden:%s in %s" % (m.group(1), f)
            return res
    res["files"] = deps
    res["discharged"] = len(thms)
    res["ok"] = not res.get("translator_failed", False)
    return res


# ---- translator self-test (DESIGN.md 1.2; tools/translate_selftest.py, notes/TRANSLATOR_SELFTEST.md) --------------------
_SELFTESTS = []            # evidence summaries of every self-test of this process (a check may call coq_check several times)
_SELFTEST_DISAGREE = []    # coq_check results whose self-test found a disagreement (reported at the latest by Run.finish)


_FINISHED = []             # (evidence path, number of self-tests merged into it) of every Run.finish of this process


def _selftest_atexit():
    """a check whose later stages call coq_check after Run.finish wrote the evidence (C01 folds its stages into the file
    itself): the self-tests of those stages are merged into coverage["translator_selftest"] of that file at exit"""
    try:
        if not _FINISHED or len(_SELFTESTS) <= _FINISHED[-1][1]:
            return
        path = _FINISHED[-1][0]
        ev = json.load(open(path))
        ev.setdefault("coverage", {})["translator_selftest"] = merge_selftests(_SELFTESTS)
        tmp = path + ".%d.tmp" % os.getpid()
        json.dump(ev, open(tmp, "w"), indent=1, default=str)
        os.replace(tmp, path)
    except Exception:
        pass


atexit.register(_selftest_atexit)


def selftest_groups(pid, targets=None):
    """kernel groups a property's check depends on: the groups of the kernels listed for `pid` and every translated
    Src_<group> that the property file or a build target (transitively) imports"""
    import translate
    if not translate.KERNELS:
        translate.load_kernels()
    known = set(k["group"] for k in translate.KERNELS)
    groups = set(k["group"] for k in translate.KERNELS if pid in k["props"])
    other = set()
    files = ["theories/Properties_%s.v" % pid] + [t[:-1] for t in (targets or []) if t.endswith(".vo")]
    for f in files:
        for d in coq_deps(f):
            m = re.match(r"generated/(Src_(\w+))\.v$", d)
            if m and m.group(2) in known:
                groups.add(m.group(2))
            elif d.startswith("generated/"):
                other.add(d)
    return sorted(groups), sorted(other)


def _attach_selftest(res, pid, targets):
    """run the translator self-test after the translated files were regenerated and compiled; a disagreement makes the Coq
    side `not ok` with `broken` naming the kernel, the argument tuple and both values (so every check's existing handling of
    a broken obligation reports it) and is also reported on its own by report_selftest / Run.finish"""
    if os.environ.get("VERIF_NO_TRANSLATOR_SELFTEST"):
        return
    try:
        import translate_selftest
        groups, other = selftest_groups(pid, targets)
        summ = translate_selftest.run(groups)
        st = translate_selftest.brief(summ)
        if other:
            st["generated_files_not_from_translator"] = other
        res["selftest"] = st
        _SELFTESTS.append(st)
        if summ["disagreements"]:
            lines = [translate_selftest.describe(d) for d in summ["disagreement_list"]]
            more = len(summ["kernels_with_disagreement"]) - 1
            msg = "translator-selftest: " + lines[0] + (" (and %d more kernels)" % more if more > 0 else "")
            res["ok"] = False
            res["broken"] = res.get("broken") or msg
            res["log"] = (res.get("log") or "") + "\ntranslator self-test disagreements:\n" + "\n".join(lines[:20]) + "\n"
            res["selftest_disagreements"] = [dict(d, what=l) for d, l in zip(summ["disagreement_list"], lines)][:20]
            res["selftest_workdir"] = summ.get("kept_workdir")
            _SELFTEST_DISAGREE.append(res)
            log("translator self-test: %d disagreeing tuples in %s" % (summ["disagreements"], ", ".join(summ["kernels_with_disagreement"][:8])))
        for e in summ.get("errors", [])[:3]:
            log("translator self-test (not a verdict): " + e[:400])
    except Exception as ex:   # the self-test never takes the check down
        res["selftest"] = {"kernels_tested": 0, "kernels_skipped": {}, "tuples_compared": 0, "tuples_skipped_undefined": 0,
                           "disagreements": 0, "errors": ["self-test did not run: %r" % (ex,)]}
        _SELFTESTS.append(res["selftest"])
        log("translator self-test did not run: %r" % (ex,))


def report_selftest(run, cres):
    """a disagreement between a translated definition and the C++ expression it was translated from is a defect of the
    translator (or of an atom table): a broken tie, not a failing input of libnano (no_input=True). Idempotent per result."""
    d = cres.get("selftest_disagreements")
    if not d or cres.get("selftest_reported"):
        return
    cres["selftest_reported"] = True
    n = len([1 for p, _ in run.violations if "translator-selftest" in os.path.basename(p)])
    run.violation("translator-selftest" + ("-%d" % n if n else ""),
                  {"kind": "translator self-test disagreement: a definition emitted by tools/translate.py (or an atom table of "
                           "tools/kernels/*.py) does not compute what the C++ expression it was translated from computes; "
                           "the tie between /repo and the Coq model is broken",
                   "disagreements": d, "summary": cres.get("selftest"), "coq_side_broken": cres.get("broken"),
                   "workdir_with_generated_cpp_and_coq": cres.get("selftest_workdir"),
                   "replay_cmd": "python3 tools/translate_selftest.py %s" % " ".join((cres.get("selftest") or {}).get("groups", []))},
                  no_input=True)


def merge_selftests(sts):
    out = {"kernels_tested": 0, "kernels_skipped": {}, "tuples_compared": 0, "tuples_skipped_undefined": 0, "disagreements": 0}
    if len(sts) == 1:
        return dict(sts[0])
    seen = set()
    for st in sts:
        gs = tuple(st.get("groups", []))
        if gs in seen and not st.get("disagreements"):
            continue     # the same groups tested again by a later coq_check of the same run (cached): counted once
        seen.add(gs)
        for k in ("kernels_tested", "tuples_compared", "tuples_skipped_undefined", "disagreements", "kernels_cached"):
            out[k] = out.get(k, 0) + (st.get(k) or 0)
        for r, n in (st.get("kernels_skipped") or {}).items():
            out["kernels_skipped"][r] = out["kernels_skipped"].get(r, 0) + n
        for k in ("groups", "errors", "disagreement_samples", "kernels_with_disagreement", "generated_files_not_from_translator"):
            if st.get(k):
                out[k] = list(out.get(k, [])) + [x for x in st[k] if x not in out.get(k, [])]
        for k in ("skipped", "undefined_by_cause"):
            for r, v in (st.get(k) or {}).items():
                if isinstance(v, list):
                    out.setdefault(k, {})[r] = list(out.get(k, {}).get(r, [])) + v
                else:
                    out.setdefault(k, {})[r] = out.get(k, {}).get(r, 0) + v
        out["seconds"] = round(out.get("seconds", 0) + (st.get("seconds") or 0), 2)
        out["tuples_per_kernel"] = st.get("tuples_per_kernel")
    return out


def coq_deps(vfile):
    """transitive closure of local Require dependencies (file names relative to coq/)"""
    seen, todo = [], [vfile]
    while todo:
        f = todo.pop()
        if f in seen or not os.path.exists(os.path.join(COQ, f)):
            continue
        seen.append(f)
        txt = strip_coq_comments(open(os.path.join(COQ, f)).read())
        for m in re.finditer(r"From\s+(LN|LNGen)\s+Require\s+(?:Import|Export)?\s*([\w\s.]+?)\.\s", txt):
            d = "theories" if m.group(1) == "LN" else "generated"
            for mod in m.group(2).split():
                todo.append("%s/%s.v" % (d, mod))
    return sorted(seen)


def _locate_broken(out):
    m = re.search(r'File "([^"]+)", line (\d+)', out)
    if not m:
        return "coq-build-failed"
    f, line = m.group(1), int(m.group(2))
    path = f if os.path.isabs(f) else os.path.join(COQ, f)
    name = "?"
    try:
        lines = open(path).read().split("\n")
        for i in range(min(line, len(lines)) - 1, -1, -1):
            mm = re.match(r"\s*(?:Theorem|Lemma|Corollary|Example|Definition|Fixpoint|Fact|Remark|Instance)\s+(\w+)", lines[i])
            if mm:
                name = mm.group(1)
                break
    except OSError:
        pass
    return "%s:%d:%s" % (os.path.basename(f), line, name)


def build_ocaml(name, model_ml, driver_ml, floats=False):
    """compile the extracted model + hand-written driver (prefixed by `open <Model>` and the shared
    helpers ocaml/zutil.ml.inc); returns exe path"""
    odir = os.path.join(WORK, "ocaml")
    os.makedirs(odir, exist_ok=True)
    exe = os.path.join(odir, name)
    model = os.path.join(COQ, "extracted", model_ml)
    driver = os.path.join(ROOT, "ocaml", driver_ml)
    inc = os.path.join(ROOT, "ocaml", "zutil.ml.inc")
    with Lock("ocaml-" + name):
        srcs = [model, model + "i", driver, inc]
        if os.path.exists(exe) and all(os.path.getmtime(s) <= os.path.getmtime(exe) for s in srcs):
            return exe
        bd = os.path.join(odir, name + ".build")
        sh("rm -rf %s && mkdir -p %s" % (shlex.quote(bd), shlex.quote(bd)))
        for s in (model, model + "i"):
            sh("cp %s %s/" % (shlex.quote(s), shlex.quote(bd)))
        modname = model_ml[:-3].capitalize()
        with open(os.path.join(bd, "driver_main.ml"), "w") as f:
            f.write("open %s\n" % modname)
            f.write(open(inc).read())
            f.write("\n# 1 \"%s\"\n" % driver_ml)
            f.write(open(driver).read())
        pk = "-package str"
        fl = ""
        if floats:
            pk = "-package str,coq-core.kernel -thread"
            fl = "-rectypes"
        cmd = "ocamlfind ocamlopt -O2 -unboxed-types -w -a %s %s -linkpkg %si %s driver_main.ml -o %s" % (
            fl, pk, model_ml, model_ml, shlex.quote(exe))
        cmd = cmd.replace("-O2 -unboxed-types ", "")
        rc, out = sh(cmd, cwd=bd, timeout=600)
        if rc != 0:
            raise CheckError("ocaml build of %s failed:\n%s" % (name, out[-3000:]))
    return exe


# ------------------------------------------------------------------------------------------------
# 5. evidence, findings, violation lines
# ------------------------------------------------------------------------------------------------

def known_findings():
    p = os.path.join(ROOT, "known_findings.json")
    if not os.path.exists(p):
        return {"findings": [], "fixed": []}
    return json.load(open(p))


class Run:
    """book-keeping for one check run"""

    def __init__(self, pid, tier):
        self.pid = pid
        self.tier = tier
        self.seed = int(os.environ.get("VERIF_SEED", "20260926"))
        self.t0 = time.time()
        self.violations = []          # (replay path, note)
        self.known_hits = []
        self.coverage = {}
        self.assumptions = []
        self.kf = [f for f in known_findings().get("findings", []) if f.get("property") == pid]

    def replay_path(self, tag):
        d = os.path.join(OUTDIR, "replays")
        os.makedirs(d, exist_ok=True)
        return os.path.join(d, "%s-%d-%s.json" % (self.pid, self.seed, tag))

    def violation(self, tag, payload, fingerprint=None, no_input=False):
        """record a violation unless its fingerprint is a listed known finding"""
        if fingerprint is not None:
            for f in self.kf:
                if f.get("fingerprint") == fingerprint:
                    if fingerprint not in [k for k, _ in self.known_hits]:
                        self.known_hits.append((fingerprint, f.get("what", "")))
                    return False
        path = self.replay_path(tag)
        payload = dict(payload)
        payload.setdefault("property", self.pid)
        payload.setdefault("seed", self.seed)
        json.dump(payload, open(path, "w"), indent=1, default=str)
        self.violations.append((path, "no-failing-input-found" if no_input else ""))
        return True

    def finish(self, level="proof"):
        # translator self-test: a disagreement that no stage has reported yet is reported now; its summary goes into the evidence
        for c in _SELFTEST_DISAGREE:
            report_selftest(self, c)
        if _SELFTESTS and "translator_selftest" not in self.coverage:
            self.coverage["translator_selftest"] = merge_selftests(_SELFTESTS)
        wall = time.time() - self.t0
        ev = {"property_id": self.pid, "tier": self.tier, "seed": self.seed, "level": level,
              "coverage": self.coverage, "assumptions": self.assumptions, "wall_s": round(wall, 2),
              "violations": len(self.violations)}
        os.makedirs(os.path.join(OUTDIR, "evidence"), exist_ok=True)
        json.dump(ev, open(os.path.join(OUTDIR, "evidence", self.pid + ".json"), "w"), indent=1, default=str)
        _FINISHED.append((os.path.join(OUTDIR, "evidence", self.pid + ".json"), len(_SELFTESTS)))
        for fp, what in self.known_hits:
            print("KNOWN-FINDING: property=%s %s" % (self.pid, what))
        # one VIOLATION line per distinct replay, at most 5 printed
        for path, note in self.violations[:5]:
            print(("VIOLATION property=%s replay=%s %s" % (self.pid, path, note)).rstrip())
        sys.stdout.flush()
        return 1 if self.violations else 0


def proof_coverage(run, cres, checker_cmd, extra_trusted=()):
    """fill the proof-level keys of the evidence from a coq_check result"""
    cov = run.coverage
    cov["obligations"] = len(cres["theorems"]) + len(cres.get("kernels", []))
    cov["discharged"] = cres["discharged"] + (len(cres.get("kernels", [])) if not cres.get("translator_failed") else 0)
    cov["theorems"] = cres["theorems"]
    cov["translated_kernels"] = cres.get("kernels", [])
    cov["checker_cmd"] = checker_cmd
    cov["trusted_base"] = (["Coq 8.16.1 kernel + vm_compute (no native_compute)"]
                           + ["axiom: " + a for a in cres["axioms"]] + list(extra_trusted))
    cov["coq_files"] = cres.get("files", [])
    if cres.get("selftest") is not None:
        # differential self-test of the translator on the kernel groups this property depends on (all coq_check calls of the run)
        cov["translator_selftest"] = merge_selftests(_SELFTESTS) if len(_SELFTESTS) > 1 else cres["selftest"]
        report_selftest(run, cres)
    if run.tier == "thorough" and cres.get("ok"):
        coqchk_recheck(run)


def coqchk_recheck(run):
    """thorough tier: the compiled property file and everything it depends on are re-checked by Coq's independent checker
    (coqchk); its context summary (axioms of EVERY loaded library, type-in-type, unsafe fixpoints, assumed positivity) goes
    into the evidence; anything but axioms makes the run fail (no failing input: the development itself is unsound)"""
    cmd = "timeout 2400 coqchk -o -silent -Q theories LN -Q generated LNGen LN.Properties_%s" % run.pid
    t0 = time.time()
    # coqchk takes 20-40 minutes: it runs on a private snapshot of the compiled files (taken under the lock, which is
    # released at once) so that it neither blocks nor is disturbed by the other checks' `make`
    snap = os.path.join(WORK, "coqchk-%s-%d" % (run.pid, os.getpid()))
    with Lock("coq"):
        sh("rm -rf %s && mkdir -p %s/theories %s/generated && cp -p theories/*.vo %s/theories/ && cp -p generated/*.vo %s/generated/"
           % ((shlex.quote(snap),) * 5), cwd=COQ, timeout=600)
    try:
        rc, out = sh(cmd, cwd=snap, timeout=2500)
    finally:
        sh("rm -rf %s" % shlex.quote(snap))
    summ = out[out.find("CONTEXT SUMMARY"):] if "CONTEXT SUMMARY" in out else out[-1500:]
    sect = {}
    cur = None
    for line in summ.split("\n"):
        m = re.match(r"^\* (.*?):\s*(.*)$", line.strip())
        if m:
            cur = m.group(1)
            sect[cur] = [m.group(2)] if m.group(2) and m.group(2) != "<none>" else []
        elif cur and line.strip() and not line.startswith("="):
            sect[cur].append(line.strip())
    run.coverage["coqchk"] = {"cmd": cmd, "exit": rc, "seconds": round(time.time() - t0, 1),
                              "axioms_of_all_loaded_libraries": sect.get("Axioms", []),
                              "type_in_type": sect.get("Constants/Inductives relying on type-in-type", []),
                              "unsafe_fixpoints": sect.get("Constants/Inductives relying on unsafe (co)fixpoints", []),
                              "assumed_positivity": sect.get("Inductives whose positivity is assumed", [])}
    c = run.coverage["coqchk"]
    if rc != 0 or c["type_in_type"] or c["unsafe_fixpoints"] or c["assumed_positivity"]:
        run.violation("coqchk", {"kind": "coqchk (independent re-check of the compiled proofs) failed", "exit": rc,
                                 "summary": summ[-3000:]}, no_input=True)


def handle_coq_failure(run, cres):
    """a broken proof obligation / translator: reported as a violation naming the obligation, unless the
    search (done by the caller afterwards) has already produced concrete failing inputs"""
    report_selftest(run, cres)   # no-op unless the translator self-test of this result found a disagreement
    if cres["ok"]:
        return
    if run.violations:
        return
    run.violation("proof", {"kind": "broken-proof-obligation", "obligation": cres["broken"],
                            "log_tail": cres["log"][-3000:]}, no_input=True)


def diff_lines(a, b):
    """index of first differing line or None"""
    la, lb = a.split("\n"), b.split("\n")
    for i in range(max(len(la), len(lb))):
        x = la[i] if i < len(la) else "<missing>"
        y = lb[i] if i < len(lb) else "<missing>"
        if x != y:
            return i, x, y
    return None


def sha(s):
    return hashlib.sha256(s.encode()).hexdigest()[:16]
