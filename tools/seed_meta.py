#!/usr/bin/env python3
"""record the integrator's confirmation in seeded/<id>/<k>/meta.json
usage: seed_meta.py <seed dir> <check result> <caught by> [history]"""
import json
import sys

d = sys.argv[1].rstrip("/")
m = json.load(open(d + "/meta.json"))
pid = m.get("property") or d.split("/")[-2]
m["confirmed_by_integrator"] = {
    "ran": "tools/confirm_seed.sh %s %s: scratch worktree at /repo HEAD, full build, ctest (all pass but the flaky program tests), "
           "demo.sh exit 0 without / non-zero with the patch, then VERIF_REPO=<scratch> ./check %s --tier quick" % (d, pid, pid),
    "check_result": sys.argv[2], "caught_by": sys.argv[3]}
if len(sys.argv) > 4:
    m["confirmed_by_integrator"]["history"] = sys.argv[4]
json.dump(m, open(d + "/meta.json", "w"), indent=1)
