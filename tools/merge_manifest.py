#!/usr/bin/env python3
"""integrator helper: regenerate MANIFEST.json but keep the committed (HEAD) entries of the properties whose
extension is still being built; usage: merge_manifest.py C01 C02 …  (the ids whose NEW entries are taken)"""
import json
import subprocess
import sys
import os

ROOT = os.path.dirname(os.path.dirname(os.path.abspath(__file__)))
take = set(a.upper() for a in sys.argv[1:])
subprocess.check_call([sys.executable, os.path.join(ROOT, "tools", "gen_manifest.py")])
new = json.load(open(os.path.join(ROOT, "MANIFEST.json")))
old = json.loads(subprocess.check_output(["git", "-C", ROOT, "show", "HEAD:MANIFEST.json"]))
oldc = {c["property_id"]: c for c in old["checks"]}
new["checks"] = [c if (c["property_id"] in take or c["property_id"] not in oldc) else oldc[c["property_id"]] for c in new["checks"]]
json.dump(new, open(os.path.join(ROOT, "MANIFEST.json"), "w"), indent=1)
print("took new entries for", sorted(take))
