// C03 harness: proximal bundle / RQB / FPBA / ellipsoid of libnano against (a) the extracted exact-rational model and
// (b) the property's own oracle (analytically known minimiser of sharp piecewise linear objectives).
//
//   c03_bundle <quick|thorough> [small]          every case derives from VERIF_SEED; `small` also draws bundle sizes 2..4
//   c03_bundle replay <S|M|R|E> <case-seed> [small]   re-runs one case (the id printed in its lines)
//   c03_bundle probe-small | probe-far           directed probes of the two known findings (see notes/C03.md)
//
// Lines (doubles as C99 hex floats):
//   B <sid> NEW n=<n> max=<max_size> cap=<m_alphas.size()> cape=<m_bundleE.size()> caps=<rows of m_bundleS> eps0=<hex> | x | gx | fx
//   B <sid> SOLVE miu=<hex> | alpha[0..size)                       (after bundle_t::solve / csearch_t::search)
//   B <sid> CONV eps=<hex> tol=<hex> econv=<0|1> sconv=<0|1> se=<smeared_e> ss=<|smeared_s|_2>
//   B <sid> APP serious=<0|1> keep=<indices|-> | y | gy | fy      (moveto / append; keep = rows surviving delete_largest,
//                                                                   observed on a copy of the bundle)
//   B <sid> STATE size=<m> | x | fx | E | S row;row;...            (after NEW and after every APP)
//   B <sid> GUARD ...                                               (the op would leave size() == capacity(): not applied)
//   B <sid> END
//   D <iter_ok> <converged> <valid> <ret> <status'>                 (solver_t::done observed through the NANO_VERIF hooks)
//   CS <solver> <csearch status> <iter_ok> <converged>              (mirrored loops: what is handed to done())
//   RUN <id> solver=.. kind=.. n=.. eps=.. max=.. maxev=.. status=.. gap=.. bound=.. dist=.. evals=..
//   E1 <id> R=<hex> eps=<hex> macheps=<hex> maxev=<n> | c:f:g c:f:g ... | status fx evals
//   ELL <id> k=<iteration> n=<n> last=<0|1> | f(x) | best f | gHg | x | g | H row;row | x' | H' row;row | x*
//                                                                   (ev_ellipsoid_update of the real ellipsoid solver, sampled)
//   stage LOOP (mirrored RQB / FPBA loops; the curve search, proximity_t and the Nesterov sequence are the REAL objects, observed at
//   every function evaluation / through their private members):
//   LI <id> k=<iteration> solver=<..> maxev= calls0= cost= miu= stale=<m_status before> sfx=<state.fx> eps0= m1= .. m4= ip= ep=
//        | pass;pass;...  (pass = t,finite,fx,fy,e,delta,econv,sconv,gdot,sdot)
//        | status=<m_status returned> t=<m_t> calls=<after search> valid= ret=<done> sstatus=<solver status after done> just=<0|1>
//        | calls=<end of iteration> sfx=<state.fx> miu=<proximity.miu()> mom=<value at the momentum point|nan|->
//   PX0 <id> lo= hi= eps0= | gx | fx | miu0
//   PX <id> kind=<1|2> t= miu= mdn= | xn | xn1 | gn | gn1 | Gn | Gn1 | miu'
//   NS <id> seq=<1|2> lambda= r=<sqrt(1+4 lambda^2)> reset=<0|1> | z | m_x | m_y | lambda' | m_x' | lambda after the iteration
//   stage WHOLE (a complete mirrored run for the composed model of C03_Whole_Defs.v; short runs only):
//   W <id> solver= n= max= maxev= calls0= cost= miu0= eps0= tol= mdn= m1= .. ep= amb=<0|1>
//        | x0 | y:gy:fy;...  (every evaluation in order, the first one at x0) | alphas;... (after every solve of the curve search)
//        | keep;...  (one per append / moveto: surviving rows of delete_largest or -) | r,... (sqrt witnesses of the momentum steps)
//        | exit=<done|budget> sstatus= iters= calls= sfx= size= | bundle.x() | state.x() | centres of the serious steps, newest first
//        | status@miu@pass/pass/..;...  (per outer iteration: status returned by search(), proximity.miu() at its end, the passes as in LI)
//   KSTALE <id> ...                                                 (defect candidate: RQB moved to an unvetted point, see notes/C03.md)
//   FAIL <id> <clause> ...                                          (direct property oracle, independent of the model)
//   KFAIL <id> cancellation <clause> ...                            (certificate / converged-not-optimal failure in a run whose
//                                                                   largest evaluated |f| has ulp * 4 >= the certified tolerance:
//                                                                   known finding, see notes/C03.md)
//   DONE sessions=.. ops=.. runs=.. ...
#include "common.h"
#include <algorithm>
#include <map>
#include <nano/function.h>
#include <nano/logger.h>
#include <nano/program/solver.h>
#include <nano/solver.h>
#include <nano/solver/state.h>
#include <nano/tensor/algorithm.h>
#include <nano/verif.h>
#define private public
#include <nano/solver/bundle.h>
#include <nano/solver/csearch.h>
#include <nano/solver/nesterov.h>
#include <nano/solver/proximity.h>
#undef private
#include <functional>

using namespace nano;

namespace
{
std::string hv(const double* p, tensor_size_t n)
{
    std::string s;
    for (tensor_size_t i = 0; i < n; ++i)
    {
        if (i) s += ",";
        s += vh::hexf(p[i]);
    }
    return s.empty() ? std::string("-") : s;
}
template <class tvec>
std::string hv(const tvec& v)
{
    return hv(v.data(), v.size());
}
double norm2(const std::vector<double>& a, const vector_t& b)
{
    double s = 0;
    for (size_t i = 0; i < a.size(); ++i) s += (a[i] - b(static_cast<tensor_size_t>(i))) * (a[i] - b(static_cast<tensor_size_t>(i)));
    return std::sqrt(s);
}

// ------------------------------------------------------------------------------------------------------------
// sharp convex objectives with a known minimiser:  |A(x-xs)|_1, |A(x-xs)|_inf, their sum, + mu/2 |x-xs|^2.
// A = row-diagonally dominant with margin >= 3 (>= sqrt(8)), integer entries, rows permuted, extra rows appended:
// |Av|_1 >= |Av|_inf >= 3 |v|_inf >= |v|_2 for n <= 9.
// ------------------------------------------------------------------------------------------------------------
// called at the end of every evaluation made through the library: (y, gy, fy)
std::function<void(const double*, const double*, double)> g_eval_hook;

struct eval_t
{
    std::vector<double> x, g;
    double              f;
};

class sharp_function_t final : public function_t
{
public:
    sharp_function_t(int n, int kind, std::vector<double> A, int rows, std::vector<double> xs, double mu)
        : function_t("sharp", n)
        , m_kind(kind)
        , m_rows(rows)
        , m_A(std::move(A))
        , m_xs(std::move(xs))
        , m_mu(mu)
    {
        convex(convexity::yes);
        smooth(smoothness::no);
    }
    rfunction_t clone() const override { return std::make_unique<sharp_function_t>(*this); }

    double value(const double* x, double* g) const
    {
        const int           n = static_cast<int>(size());
        std::vector<double> r(static_cast<size_t>(m_rows));
        for (int i = 0; i < m_rows; ++i)
        {
            double s = 0;
            for (int j = 0; j < n; ++j) s += m_A[static_cast<size_t>(i * n + j)] * (x[j] - m_xs[static_cast<size_t>(j)]);
            r[static_cast<size_t>(i)] = s;
        }
        double f = 0;
        if (g)
            for (int j = 0; j < n; ++j) g[j] = 0;
        if (m_kind == 0 || m_kind == 2)
        {
            for (int i = 0; i < m_rows; ++i)
            {
                f += std::fabs(r[static_cast<size_t>(i)]);
                const double sg = r[static_cast<size_t>(i)] > 0 ? 1.0 : (r[static_cast<size_t>(i)] < 0 ? -1.0 : 0.0);
                if (g)
                    for (int j = 0; j < n; ++j) g[j] += sg * m_A[static_cast<size_t>(i * n + j)];
            }
        }
        if (m_kind == 1 || m_kind == 2)
        {
            int    k  = 0;
            double mx = -1;
            for (int i = 0; i < m_rows; ++i)
                if (std::fabs(r[static_cast<size_t>(i)]) > mx) { mx = std::fabs(r[static_cast<size_t>(i)]); k = i; }
            f += mx;
            const double sg = r[static_cast<size_t>(k)] > 0 ? 1.0 : (r[static_cast<size_t>(k)] < 0 ? -1.0 : 0.0);
            if (g)
                for (int j = 0; j < n; ++j) g[j] += sg * m_A[static_cast<size_t>(k * n + j)];
        }
        if (m_mu != 0.0)
        {
            double q = 0;
            for (int j = 0; j < n; ++j)
            {
                const double d = x[j] - m_xs[static_cast<size_t>(j)];
                q += d * d;
                if (g) g[j] += m_mu * d;
            }
            f += 0.5 * m_mu * q;
        }
        return f;
    }

    scalar_t do_vgrad(vector_cmap_t x, vector_map_t gx) const override
    {
        const bool          wg = gx.size() == size();
        std::vector<double> g(static_cast<size_t>(size()));
        const double        f = value(x.data(), g.data());
        if (wg)
            for (tensor_size_t j = 0; j < size(); ++j) gx(j) = g[static_cast<size_t>(j)];
        ++m_evals;
        if (std::isfinite(f)) m_max_abs_f = std::max(m_max_abs_f, std::fabs(f));
        // sharpness of the construction (a harness self-check, not a property of the library)
        double d = 0;
        for (tensor_size_t j = 0; j < size(); ++j) d += (x(j) - m_xs[static_cast<size_t>(j)]) * (x(j) - m_xs[static_cast<size_t>(j)]);
        if (std::isfinite(f) && f < std::sqrt(d) * (1.0 - 1e-12)) { std::printf("HARNESS-BUG not sharp f=%a d=%a\n", f, std::sqrt(d)); }
        if (m_record) m_trace.push_back(eval_t{std::vector<double>(x.data(), x.data() + x.size()), g, f});
        if (g_eval_hook) g_eval_hook(x.data(), g.data(), f);
        return f;
    }
    double fstar() const { return 0.0; }

    int                         m_kind;
    int                         m_rows;
    std::vector<double>         m_A;
    std::vector<double>         m_xs;
    double                      m_mu;
    mutable int64_t             m_evals{0};
    mutable double              m_max_abs_f{0}; // largest |f| over all evaluations made through the library
    mutable bool                m_record{false};
    mutable std::vector<eval_t> m_trace;
};

const char* kind_name(int k, double mu)
{
    static const char* a[] = {"l1", "linf", "l1+linf"};
    static const char* b[] = {"l1+quad", "linf+quad", "l1+linf+quad"};
    return mu != 0.0 ? b[k] : a[k];
}

struct problem_t
{
    std::unique_ptr<sharp_function_t> f;
    vector_t                          x0;
    int                               n, kind;
    double                            mu;
};

problem_t make_problem(vh::rng_t& r, int n_fixed = 0)
{
    problem_t p;
    const int n    = n_fixed ? n_fixed : static_cast<int>(r.range(1, 8));
    const int kind = static_cast<int>(r.range(0, 2));
    const int xtra = r.range(0, 3) == 0 ? static_cast<int>(r.range(1, 3)) : 0;
    const int rows = n + xtra;
    std::vector<double> A(static_cast<size_t>(rows * n), 0.0);
    std::vector<int>    perm(static_cast<size_t>(n));
    for (int i = 0; i < n; ++i) perm[static_cast<size_t>(i)] = i;
    for (int i = n - 1; i > 0; --i) std::swap(perm[static_cast<size_t>(i)], perm[static_cast<size_t>(r.range(0, i))]);
    const double scale = n == 1 ? 1.0 : static_cast<double>(1 << r.range(0, 2));
    for (int i = 0; i < n; ++i)
    {
        const int row = perm[static_cast<size_t>(i)];
        double    off = 0;
        for (int j = 0; j < n; ++j)
        {
            if (j == i) continue;
            if (r.range(0, 2) == 0)
            {
                const double v = static_cast<double>(r.range(-2, 2));
                A[static_cast<size_t>(row * n + j)] = v * scale;
                off += std::fabs(v);
            }
        }
        const double margin = n == 1 ? static_cast<double>(r.range(1, 5)) : static_cast<double>(r.range(3, 6));
        A[static_cast<size_t>(row * n + i)] = (r.range(0, 1) ? 1.0 : -1.0) * (off + margin) * scale;
    }
    for (int i = n; i < rows; ++i)
        for (int j = 0; j < n; ++j) A[static_cast<size_t>(i * n + j)] = static_cast<double>(r.range(-3, 3));
    std::vector<double> xs(static_cast<size_t>(n));
    for (auto& v : xs) v = static_cast<double>(r.range(-48, 48)) / 16.0;
    const double mu = r.range(0, 2) == 0 ? static_cast<double>(r.range(1, 16)) / 4.0 : 0.0;
    p.x0            = vector_t(n);
    // |x0 - xs|_2 <= 4: every coordinate offset <= 4/sqrt(n), multiples of 1/16
    const int lim = static_cast<int>(std::floor(64.0 / std::sqrt(static_cast<double>(n))));
    for (int j = 0; j < n; ++j) p.x0(j) = xs[static_cast<size_t>(j)] + static_cast<double>(r.range(-lim, lim)) / 16.0;
    if (r.range(0, 15) == 0)
        for (int j = 0; j < n; ++j) p.x0(j) = xs[static_cast<size_t>(j)]; // start at the minimiser
    p.f    = std::make_unique<sharp_function_t>(n, kind, A, rows, xs, mu);
    p.n    = n;
    p.kind = kind;
    p.mu   = mu;
    return p;
}

// ------------------------------------------------------------------------------------------------------------
// bundle sessions
// ------------------------------------------------------------------------------------------------------------
struct counters_t
{
    int64_t sessions{0}, ops{0}, serious{0}, nulls{0}, aggregations{0}, inactive_deleted{0}, guards{0}, convs{0}, conv_true{0},
        oracle_checks{0}, runs{0}, converged{0}, fails{0}, kfails{0}, e1{0}, mirrors{0}, mirror_ops{0}, ell_events{0}, ell_printed{0},
        loop_iters{0}, loop_lines{0}, loop_passes{0}, stale_exits{0}, stale_moves{0}, stale_increase{0}, px_lines{0}, ns_lines{0}, loop_oracles{0};
    double  ell_max_m{0};
    std::map<std::string, int64_t> hist;
} C;

const double kEps0 = epsilon0<scalar_t>();
bool         g_quiet = false; // mirror runs that only look for the capacity guard: no B lines

void print_state(const std::string& sid, const bundle_t& b)
{
    if (g_quiet) return;
    std::string S;
    for (tensor_size_t i = 0; i < b.m_size; ++i)
    {
        if (i) S += ";";
        S += hv(b.m_bundleS.data() + i * b.dims(), b.dims());
    }
    std::printf("B %s STATE size=%d | %s | %s | %s | %s\n", sid.c_str(), static_cast<int>(b.m_size), hv(b.m_x).c_str(),
                vh::hexf(b.m_fx).c_str(), hv(b.m_bundleE.data(), b.m_size).c_str(), S.empty() ? "-" : S.c_str());
}

void print_solve(const std::string& sid, const bundle_t& b, double miu)
{
    if (g_quiet) return;
    std::printf("B %s SOLVE miu=%s | %s\n", sid.c_str(), vh::hexf(miu).c_str(), hv(b.m_alphas.data(), b.m_size).c_str());
}

void print_conv(const std::string& sid, const bundle_t& b, double eps)
{
    if (g_quiet) return;
    const double tol = eps * std::sqrt(static_cast<scalar_t>(b.m_x.size()));
    const bool   ec  = b.econverged(eps);
    const bool   sc  = b.sconverged(eps);
    const double se  = b.smeared_e();
    const vector_t s = b.smeared_s();
    std::printf("B %s CONV eps=%s tol=%s econv=%d sconv=%d se=%s ss=%s\n", sid.c_str(), vh::hexf(eps).c_str(), vh::hexf(tol).c_str(),
                ec ? 1 : 0, sc ? 1 : 0, vh::hexf(se).c_str(), vh::hexf(s.lpNorm<2>()).c_str());
    ++C.convs;
    if (ec && sc) ++C.conv_true;
}

// magnitude history of a bundle: FPBA's momentum points can take the centre to values of 1e7 and back to 1; the rounding
// of the re-centring formula at that magnitude (2^-52 * 1e7 per step) stays in the rows for ever, so the tolerance of the
// lower-bound oracle has to know the largest magnitude the rows went through, not only the current one
std::map<std::string, double> g_maxmag;
double note_mag(const std::string& sid, const bundle_t& b)
{
    double m = std::fabs(b.m_fx);
    for (tensor_size_t i = 0; i < b.m_size; ++i) m = std::max(m, std::fabs(b.m_bundleE(i)));
    auto& h = g_maxmag[sid];
    if (std::isfinite(m)) h = std::max(h, m);
    return h;
}

// direct oracle: every row is an affine minorant of f at the probe points, errors >= 0, centre value = f(centre)
void oracle_rows(const std::string& sid, const bundle_t& b, const sharp_function_t& f, const std::vector<std::vector<double>>& probes)
{
    const auto   n    = b.dims();
    const double hist = note_mag(sid, b);
    for (tensor_size_t i = 0; i < b.m_size; ++i)
    {
        const double e = b.m_bundleE(i);
        double       smag = 0;
        for (tensor_size_t j = 0; j < n; ++j) smag += std::fabs(b.m_bundleS(i, j));
        if (e < -1e-9 * (1.0 + std::fabs(b.m_fx)) - 1e-12 * hist)
        {
            std::printf("FAIL %s negative-error row=%d e=%s\n", sid.c_str(), static_cast<int>(i), vh::hexf(e).c_str());
            ++C.fails;
        }
        for (const auto& z : probes)
        {
            double lin = b.m_fx - e, mag = std::fabs(b.m_fx) + std::fabs(e);
            for (tensor_size_t j = 0; j < n; ++j)
            {
                const double t = b.m_bundleS(i, j) * (z[static_cast<size_t>(j)] - b.m_x(j));
                lin += t;
                mag += std::fabs(t);
            }
            const double fz = f.value(z.data(), nullptr);
            ++C.oracle_checks;
            if (lin > fz + 1e-9 * (mag + std::fabs(fz) + 1.0) + 1e-12 * hist)
            {
                std::printf("FAIL %s lower-bound row=%d of %d cut=%s > f(z)=%s z=%s e=%s fx=%s\n", sid.c_str(), static_cast<int>(i),
                            static_cast<int>(b.m_size), vh::hexf(lin).c_str(), vh::hexf(fz).c_str(), hv(z.data(), n).c_str(),
                            vh::hexf(e).c_str(), vh::hexf(b.m_fx).c_str());
                ++C.fails;
                return;
            }
        }
    }
    const double fc = f.value(b.m_x.data(), nullptr);
    if (fc != b.m_fx)
    {
        std::printf("FAIL %s centre-value fx=%s f(x)=%s\n", sid.c_str(), vh::hexf(b.m_fx).c_str(), vh::hexf(fc).c_str());
        ++C.fails;
    }
}

// known finding `C03-false-convergence-by-cancellation-at-far-trial-point`: the curve search may evaluate trial points so far
// away that |fy| ~ 2^56; the null-step error  fx - (fy + gy.(x - y))  then carries an absolute rounding error of ulp(fy), the cut
// stops being a lower bound and the stopping test certifies a wrong point.  Narrow classification: the rounding of ONE
// linearisation error at the largest magnitude evaluated in this run already exceeds the tolerance being certified.
double ulp_of(double v)
{
    v = std::fabs(v);
    return std::nextafter(v, std::numeric_limits<double>::infinity()) - v;
}
bool cancellation_explains(const sharp_function_t& f, double tol)
{
    return f.m_max_abs_f > 0.0 && ulp_of(f.m_max_abs_f) * 4.0 >= tol;
}
std::string cancellation_str(const sharp_function_t& f, double tol)
{
    return "max_abs_f=" + vh::hexf(f.m_max_abs_f) + " ulp=" + vh::hexf(ulp_of(f.m_max_abs_f)) + " tol=" + vh::hexf(tol);
}

// certificate oracle: both tests true => fx - f* <= tol + tol |x - x*|
void oracle_certificate(const std::string& sid, const bundle_t& b, const sharp_function_t& f, double eps)
{
    if (!(b.econverged(eps) && b.sconverged(eps))) return;
    const double tol = eps * std::sqrt(static_cast<scalar_t>(b.m_x.size()));
    const double d   = norm2(f.m_xs, b.m_x);
    if (b.m_fx - f.fstar() > (tol + tol * d) * (1.0 + 1e-6) + 1e-12)
    {
        const bool known = cancellation_explains(f, tol);
        std::printf("%s %s %scertificate fx-f*=%s > tol+tol*d=%s tol=%s d=%s %s\n", known ? "KFAIL" : "FAIL", sid.c_str(),
                    known ? "cancellation " : "", vh::hexf(b.m_fx - f.fstar()).c_str(), vh::hexf(tol + tol * d).c_str(),
                    vh::hexf(tol).c_str(), vh::hexf(d).c_str(), cancellation_str(f, tol).c_str());
        ++(known ? C.kfails : C.fails);
    }
}

bool same_row(const bundle_t& a, tensor_size_t i, const bundle_t& b, tensor_size_t k)
{
    if (std::memcmp(&a.m_bundleE(i), &b.m_bundleE(k), sizeof(double)) != 0) return false;
    return std::memcmp(a.m_bundleS.data() + i * a.dims(), b.m_bundleS.data() + k * b.dims(), sizeof(double) * static_cast<size_t>(a.dims())) == 0;
}

// applies moveto/append to the real bundle after observing, on a copy, which rows survive delete_largest.
// returns false (and applies nothing) when the operation would leave size() == capacity() (the library's own
// assert(m_size < capacity()) would fail and the next append would write behind the buffers).
std::string g_last_keep; // stage WHOLE: the surviving rows observed by the last apply_append ("-": delete_largest did not fire)
int         g_whole_lines = 0, g_whole_cap = 60; // per family (first letter of the case id)
std::map<char, int> g_whole_count;
bool apply_append(const std::string& sid, bundle_t& b, bool serious, const vector_t& y, const vector_t& gy, double fy)
{
    bundle_t c1 = b;
    c1.delete_inactive(kEps0);
    bundle_t c2 = c1;
    c2.delete_largest(2);
    const bool   fired = c1.size() + 1 == c1.capacity();
    std::string  keep;
    tensor_size_t kept = 0;
    if (fired)
    {
        // rows of c2 except the last (the aggregate) are a subsequence of the rows of c1 (remove_if is stable)
        tensor_size_t i = 0;
        for (tensor_size_t k = 0; k + 1 < c2.size(); ++k)
        {
            while (i < c1.size() && !same_row(c1, i, c2, k)) ++i;
            if (i >= c1.size()) { keep += "?"; break; }
            if (!keep.empty()) keep += ",";
            keep += std::to_string(i);
            ++i;
            ++kept;
        }
        ++C.aggregations;
        C.hist["removed_by_delete_largest=" + std::to_string(std::min<tensor_size_t>(c1.size() - kept, 9))]++;
    }
    C.inactive_deleted += b.size() - c1.size();
    g_last_keep = fired ? (keep.empty() ? std::string("e") : keep) : std::string("-");
    if (c2.size() + 1 >= b.capacity())
    {
        std::printf("B %s GUARD size=%d inactive_kept=%d after_delete_largest=%d capacity=%d fired=%d E=%s\n", sid.c_str(),
                    static_cast<int>(b.size()), static_cast<int>(c1.size()), static_cast<int>(c2.size()), static_cast<int>(b.capacity()),
                    fired ? 1 : 0, hv(c1.m_bundleE.data(), c1.m_size).c_str());
        ++C.guards;
        return false;
    }
    if (!g_quiet)
        std::printf("B %s APP serious=%d keep=%s | %s | %s | %s\n", sid.c_str(), serious ? 1 : 0, keep.empty() ? "-" : keep.c_str(),
                    hv(y).c_str(), hv(gy).c_str(), vh::hexf(fy).c_str());
    if (serious)
        b.moveto(y, gy, fy);
    else
        b.append(y, gy, fy);
    print_state(sid, b);
    note_mag(sid, b);
    // the new row's error is fx - fy - gy.(x - y) computed in doubles: a curve-search trial point 1e15 away (fy ~ 1e16)
    // leaves an absolute rounding error of ulp(fy) in it
    if (std::isfinite(fy)) g_maxmag[sid] = std::max(g_maxmag[sid], std::fabs(fy));
    ++C.ops;
    (serious ? C.serious : C.nulls)++;
    return true;
}

void print_new(const std::string& sid, const bundle_t& b, int max_size, const solver_state_t& state)
{
    if (g_quiet) return;
    std::printf("B %s NEW n=%d max=%d cap=%d cape=%d caps=%d eps0=%s | %s | %s | %s\n", sid.c_str(), static_cast<int>(b.dims()), max_size,
                static_cast<int>(b.m_alphas.size()), static_cast<int>(b.m_bundleE.size()), static_cast<int>(b.m_bundleS.size<0>()),
                vh::hexf(kEps0).c_str(), hv(state.x()).c_str(), hv(state.gx()).c_str(), vh::hexf(state.fx()).c_str());
    print_state(sid, b);
}

int g_force_max = 0; // probe-small: 3 or 4 (with 2 the threshold is an uninitialised value: copy and original may differ)
int draw_max_size(vh::rng_t& r, bool small, bool sessions)
{
    if (g_force_max) return g_force_max;
    const int lo = small ? 2 : 5;
    switch (r.range(0, sessions ? 3 : 5))
    {
    case 0: return lo;
    case 1:
    case 2: return static_cast<int>(r.range(lo, 12));
    case 3: return static_cast<int>(r.range(lo, 30));
    case 4: return 100;
    default: return static_cast<int>(r.range(lo, 100));
    }
}

std::vector<std::vector<double>> make_probes(vh::rng_t& r, const sharp_function_t& f, const bundle_t& b, const vector_t* y)
{
    const auto                       n = static_cast<size_t>(f.size());
    std::vector<std::vector<double>> P;
    P.push_back(f.m_xs);
    P.emplace_back(b.m_x.data(), b.m_x.data() + n);
    if (y) P.emplace_back(y->data(), y->data() + n);
    for (int k = 0; k < 3; ++k)
    {
        std::vector<double> z(n);
        for (size_t j = 0; j < n; ++j) z[j] = f.m_xs[j] + static_cast<double>(r.range(-96, 96)) / 16.0 * (k == 0 ? 0.0625 : 1.0);
        P.push_back(z);
    }
    return P;
}

// Part A: random operation sequences on the real bundle_t
void session(uint64_t case_seed, bool small)
{
    vh::rng_t         r(case_seed);
    const std::string sid = "S" + std::to_string(case_seed);
    auto              p   = make_problem(r);
    const auto&       f   = *p.f;
    const int         max_size = draw_max_size(r, small, true);
    auto              state    = solver_state_t{f, p.x0};
    bundle_t          b(state, max_size);
    const auto        logger = make_null_logger();
    print_new(sid, b, max_size, state);
    ++C.sessions;
    C.hist["session_n=" + std::to_string(p.n)]++;
    C.hist[std::string("session_kind=") + kind_name(p.kind, p.mu)]++;
    const int nops = static_cast<int>(r.range(3, small ? 30 : 60));
    vector_t  y(p.n), gy(p.n);
    for (int k = 0; k < nops; ++k)
    {
        const double miu = std::ldexp(1.0, static_cast<int>(r.range(-4, 8))) * static_cast<double>(r.range(1, 3));
        b.solve(miu, logger);
        print_solve(sid, b, miu);
        if (r.range(0, 2) == 0)
        {
            // a tolerance around the smeared quantities so that both outcomes of both tests occur
            const double se = b.smeared_e(), ss = vector_t{b.smeared_s()}.lpNorm<2>();
            double       eps;
            switch (r.range(0, 3))
            {
            case 0: eps = std::max(se, ss) * 2.0 / std::sqrt(static_cast<double>(p.n)) + 1e-9; break;
            case 1: eps = std::min(se, ss) * 0.5 / std::sqrt(static_cast<double>(p.n)) + 1e-12; break;
            case 2: eps = 0.5 * (se + ss) / std::sqrt(static_cast<double>(p.n)) + 1e-10; break;
            default: eps = std::pow(10.0, -8.0 + 5.0 * r.unit()); break;
            }
            print_conv(sid, b, eps);
            oracle_certificate(sid, b, f, eps);
        }
        // the trial point
        switch (r.range(0, 5))
        {
        case 0:
        case 1:
        case 2: y = b.proximal(miu); break; // what the curve search evaluates
        case 3:
            for (int j = 0; j < p.n; ++j) y(j) = f.m_xs[static_cast<size_t>(j)] + static_cast<double>(r.range(-32, 32)) / 16.0;
            break;
        case 4:
            for (int j = 0; j < p.n; ++j) y(j) = b.m_x(j) + static_cast<double>(r.range(-16, 16)) / 64.0;
            break;
        default:
            for (int j = 0; j < p.n; ++j) y(j) = f.m_xs[static_cast<size_t>(j)] + (r.range(0, 3) == 0 ? static_cast<double>(r.range(-2, 2)) / 1024.0 : 0.0);
            break;
        }
        const double fy = f.vgrad(y, gy);
        bool         serious = fy < b.m_fx ? r.range(0, 3) != 0 : r.range(0, 5) == 0; // FPBA's momentum point may be worse
        if (!apply_append(sid, b, serious, y, gy, fy)) break;
        oracle_rows(sid, b, f, make_probes(r, f, b, &y));
    }
    std::printf("B %s END\n", sid.c_str());
}

// ------------------------------------------------------------------------------------------------------------
// hooks: every solver_t::done entry/exit
// ------------------------------------------------------------------------------------------------------------
struct done_event_t
{
    bool   iter_ok, converged, valid, ret;
    int    status_after;
    double fx;
};
std::vector<done_event_t> g_events;
void event_hook(int kind, const void* object, std::uint64_t a, std::uint64_t b)
{
    const auto* st = static_cast<const solver_state_t*>(object);
    if (kind == verif::ev_solver_done)
    {
        g_events.push_back(done_event_t{a != 0U, b != 0U, st->valid(), false, -1, st->fx()});
    }
    else if (kind == verif::ev_solver_exit && !g_events.empty())
    {
        g_events.back().ret          = a != 0U;
        g_events.back().status_after = static_cast<int>(st->status());
    }
}


// ------------------------------------------------------------------------------------------------------------
// hook ev_ellipsoid_update: values = n, f(x), best f, gHg, x[n], g[n], H[n*n], x'[n], H'[n*n] of every iteration
// ------------------------------------------------------------------------------------------------------------
struct ell_event_t
{
    int                 k{-1};
    std::vector<double> v;
};
std::vector<ell_event_t>   g_ell;       // the sampled iterations of the current run
ell_event_t                g_ell_last;  // the last iteration of the current run
int                        g_ell_k = 0;
const std::vector<double>* g_ell_xs = nullptr; // the known minimiser of the current run
double                     g_ell_R  = 0;       // its initial radius
int                        g_ell_bad_k = -1;   // first iteration after which x* is outside the ellipsoid (direct oracle)
double                     g_ell_bad_m = 0, g_ell_max_m = 0;
int                        g_ell_notpd_k = -1;
const double               kEllTol = 1e-6;

// (x* - x)' H^{-1} (x* - x) by a Cholesky factorisation in long double; < 0 if H is not positive definite.
// n = 1: the bisection branch keeps |x* - x| <= 2 H (H = quarter of the bracket): returns ((x* - x) / (2H))^2
long double ell_membership(int n, const double* x, const double* H, const std::vector<double>& xs)
{
    if (n == 1)
    {
        const long double w = static_cast<long double>(xs[0]) - x[0], h = 2.0L * H[0];
        if (w == 0.0L) return 0.0L;
        if (!(h > 0.0L)) return -1.0L;
        return (w / h) * (w / h);
    }
    std::vector<long double> L(static_cast<size_t>(n * n), 0.0L), z(static_cast<size_t>(n));
    for (int i = 0; i < n; ++i)
    {
        for (int j = 0; j <= i; ++j)
        {
            long double s = 0.5L * (static_cast<long double>(H[i * n + j]) + H[j * n + i]);
            for (int t = 0; t < j; ++t) s -= L[static_cast<size_t>(i * n + t)] * L[static_cast<size_t>(j * n + t)];
            if (i == j)
            {
                if (!(s > 0.0L)) return -1.0L;
                L[static_cast<size_t>(i * n + i)] = std::sqrt(s);
            }
            else
            {
                L[static_cast<size_t>(i * n + j)] = s / L[static_cast<size_t>(j * n + j)];
            }
        }
    }
    long double m = 0.0L;
    for (int i = 0; i < n; ++i)
    {
        long double s = static_cast<long double>(xs[static_cast<size_t>(i)]) - x[i];
        for (int t = 0; t < i; ++t) s -= L[static_cast<size_t>(i * n + t)] * z[static_cast<size_t>(t)];
        z[static_cast<size_t>(i)] = s / L[static_cast<size_t>(i * n + i)];
        m += z[static_cast<size_t>(i)] * z[static_cast<size_t>(i)];
    }
    return m;
}

bool ell_sampled(int k)
{
    return k < 16 || (k < 400 && k % 8 == 0) || k % 64 == 0;
}

void values_hook(int kind, const void*, const double* values, int count)
{
    if (kind != verif::ev_ellipsoid_update || count < 1) return;
    const int n = static_cast<int>(values[0]);
    if (count != 4 + 3 * n + 2 * n * n) return;
    const int k = g_ell_k++;
    ++C.ell_events;
    bool keep = ell_sampled(k) && g_ell.size() < 160;
    if (g_ell_xs != nullptr && g_ell_bad_k < 0)
    {
        // direct oracle on EVERY iteration: the minimiser is inside the updated ellipsoid
        const double*     xa = values + 4 + 2 * n + n * n;
        const double*     Ha = xa + n;
        const long double m  = ell_membership(n, xa, Ha, *g_ell_xs);
        if (m < 0.0L)
        {
            if (g_ell_notpd_k < 0) g_ell_notpd_k = k;
        }
        else
        {
            g_ell_max_m = std::max(g_ell_max_m, static_cast<double>(m));
            if (m > 1.0L + kEllTol)
            {
                g_ell_bad_k = k;
                g_ell_bad_m = static_cast<double>(m);
                keep        = true; // the driver re-checks this very iteration exactly
            }
        }
    }
    if (keep)
    {
        g_ell.push_back(ell_event_t{k, std::vector<double>(values, values + count)});
    }
    g_ell_last.k = k;
    g_ell_last.v.assign(values, values + count);
}

void ell_begin(const std::vector<double>& xs, double R)
{
    g_ell.clear();
    g_ell_last.k = -1;
    g_ell_k      = 0;
    g_ell_xs     = &xs;
    g_ell_R      = R;
    g_ell_bad_k = g_ell_notpd_k = -1;
    g_ell_bad_m = g_ell_max_m = 0;
    verif::g_values_hook.store(&values_hook);
}

std::string hm(const double* H, int n)
{
    std::string s;
    for (int i = 0; i < n; ++i)
    {
        if (i) s += ";";
        s += hv(H + i * n, n);
    }
    return s;
}

void ell_print(const std::string& id, const ell_event_t& e, bool last)
{
    const int     n = static_cast<int>(e.v[0]);
    const double* p = e.v.data() + 4;
    std::printf("ELL %s k=%d n=%d last=%d | %s | %s | %s | %s | %s | %s | %s | %s | %s\n", id.c_str(), e.k, n, last ? 1 : 0, vh::hexf(e.v[1]).c_str(),
                vh::hexf(e.v[2]).c_str(), vh::hexf(e.v[3]).c_str(), hv(p, n).c_str(), hv(p + n, n).c_str(), hm(p + 2 * n, n).c_str(),
                hv(p + 2 * n + n * n, n).c_str(), hm(p + 3 * n + n * n, n).c_str(), hv(g_ell_xs->data(), n).c_str());
    ++C.ell_printed;
}

// after the run: the sampled iterations for the model driver + the verdict of the direct oracle
void ell_end(const std::string& id, bool inside_initially)
{
    verif::g_values_hook.store(nullptr);
    bool last_done = false;
    for (const auto& e : g_ell)
    {
        const bool last = e.k == g_ell_last.k;
        ell_print(id, e, last);
        last_done = last_done || last;
    }
    if (!last_done && g_ell_last.k >= 0) ell_print(id, g_ell_last, true);
    if (g_ell_k > 0)
    {
        C.hist["ell_steps_bucket=" + std::to_string(g_ell_k < 10 ? 0 : g_ell_k < 100 ? 1 : g_ell_k < 1000 ? 2 : 3)]++;
        C.ell_max_m = std::max(C.ell_max_m, g_ell_max_m);
    }
    if (g_ell_notpd_k >= 0) C.hist["ell_runs_shape_not_pd_in_long_double"]++;
    if (inside_initially && g_ell_bad_k >= 0)
    {
        std::printf("FAIL %s ellipsoid-membership k=%d (x*-x)'H^-1(x*-x)=%.17g > 1 after the update of iteration k (n=%d)\n", id.c_str(), g_ell_bad_k,
                    g_ell_bad_m, static_cast<int>(g_ell_xs->size()));
        ++C.fails;
    }
    g_ell_xs = nullptr;
}

struct config_t
{
    std::string id;
    double      eps;
    int         max_size, max_evals;
    double      m1, m2, m3, m4, interpol, extrapol, miu_lo, miu_hi, min_dot_nuv, R;
};

config_t draw_config(vh::rng_t& r, const std::string& id, bool small)
{
    config_t c;
    c.id        = id;
    c.eps       = std::pow(10.0, -8.0 + 5.0 * r.unit());
    if (r.range(0, 7) == 0) c.eps = r.range(0, 1) ? 1e-8 : 1e-3;
    c.max_size  = draw_max_size(r, small, false);
    c.max_evals = r.range(0, 2) == 0 ? static_cast<int>(r.range(100, 20000)) : 20000;
    c.m1 = 0.5, c.m2 = 0.9, c.m3 = 1.0, c.m4 = 1.0, c.interpol = 0.3, c.extrapol = 5.0, c.miu_lo = 1e2, c.miu_hi = 1e4, c.min_dot_nuv = kEps0;
    c.R = 10.0;
    if (r.range(0, 1) == 0)
    {
        // parameters anywhere in their domains (log-uniform where the domain spans decades)
        c.m1          = 0.05 + 0.9 * r.unit();
        c.m2          = c.m1 + (0.999 - c.m1) * (0.05 + 0.9 * r.unit());
        c.m3          = std::pow(10.0, -2.0 + 4.0 * r.unit());
        c.m4          = std::pow(10.0, -2.0 + 4.0 * r.unit());
        c.interpol    = 0.05 + 0.9 * r.unit();
        c.extrapol    = 1.1 + std::pow(10.0, 1.9 * r.unit());
        c.miu_lo      = std::pow(10.0, -3.0 + 6.0 * r.unit());
        c.miu_hi      = c.miu_lo * std::pow(10.0, 0.1 + 2.0 * r.unit());
        c.min_dot_nuv = std::pow(10.0, -15.0 + 12.0 * r.unit());
    }
    return c;
}

rsolver_t make_solver(const config_t& c)
{
    auto solver                            = solver_t::all().get(c.id);
    solver->parameter("solver::epsilon")   = c.eps;
    solver->parameter("solver::max_evals") = c.max_evals;
    if (c.id == "ellipsoid")
    {
        solver->parameter("solver::ellipsoid::R") = c.R;
    }
    else
    {
        const auto prefix = std::string("solver::") + c.id;
        solver->parameter(prefix + "::bundle::max_size")   = c.max_size;
        solver->parameter(prefix + "::csearch::m1m2")      = std::make_tuple(c.m1, c.m2);
        solver->parameter(prefix + "::csearch::m3")        = c.m3;
        solver->parameter(prefix + "::csearch::m4")        = c.m4;
        solver->parameter(prefix + "::csearch::interpol")  = c.interpol;
        solver->parameter(prefix + "::csearch::extrapol")  = c.extrapol;
        solver->parameter(prefix + "::prox::miu0_range")   = std::make_tuple(c.miu_lo, c.miu_hi);
        solver->parameter(prefix + "::prox::min_dot_nuv")  = c.min_dot_nuv;
    }
    // every other configuration is run through a CLONE of the configured object (what the model-fitting code does with
    // its solver): the clone must carry the configuration (seeded change C03/5: a clone() that loses `*this`)
    if ((c.max_evals & 1) != 0)
    {
        return solver->clone();
    }
    return solver;
}

std::string config_str(const config_t& c)
{
    char buf[512];
    std::snprintf(buf, sizeof(buf), "eps=%.3e max=%d maxev=%d m1=%.3g m2=%.3g m3=%.3g m4=%.3g interpol=%.3g extrapol=%.3g miu0=%.3g:%.3g mdn=%.3g R=%.4g",
                  c.eps, c.max_size, c.max_evals, c.m1, c.m2, c.m3, c.m4, c.interpol, c.extrapol, c.miu_lo, c.miu_hi, c.min_dot_nuv, c.R);
    return buf;
}

// ---- stage LOOP: observation of the real csearch_t / proximity_t / nesterov objects inside the mirrored outer loops -------------
struct pass_t
{
    double t, fx, fy, e, delta, gdot, sdot;
    bool   finite, econv, sconv;
};
struct loop_flags_t
{
    bool budget_exit{false}; // some search call was ended by its loop guard (no status assigned by a pass: max_iters since repo 31bf93f)
};
bool loop_sampled(long k)
{
    return k < 48 || k % 16 == 0;
}
// a >= b up to the rounding of the two sides (the operands gdot / sdot are recomputed here, outside the library)
bool ge_slack(double a, double b, bool want)
{
    const double sl = 1e-12 * (std::fabs(a) + std::fabs(b)) + 1e-300;
    return want ? a >= b - sl : !(a >= b + sl);
}
// direct oracle, independent of the model: the status returned by csearch_t::search() is the one the operands of the LAST pass of
// THIS call lead to (i.e. it was assigned in this call)
bool status_justified(const csearch_t& cs, csearch_status st, const pass_t& p)
{
    const bool conv = p.econv && p.sconv;
    switch (st)
    {
    case csearch_status::failed: return !p.finite;
    case csearch_status::converged: return p.finite && conv;
    case csearch_status::null_step:
        return p.finite && !conv && ge_slack(p.fx - p.fy, cs.m_m1 * p.delta, false) && ge_slack(cs.m_m3 * p.delta, p.e, true);
    case csearch_status::descent_step:
        return p.finite && !conv && ge_slack(p.fx - p.fy, cs.m_m1 * p.delta, true) && ge_slack(p.gdot, -cs.m_m2 * p.delta, true);
    case csearch_status::cutting_plane_step:
        return p.finite && !conv && ge_slack(p.fx - p.fy, cs.m_m1 * p.delta, true) && ge_slack(p.gdot, -cs.m_m2 * p.delta, false) &&
               (p.sconv || ge_slack(p.sdot, -cs.m_m4 * p.delta, true));
    default: return false;
    }
}
std::string pass_str(const pass_t& p)
{
    return vh::hexf(p.t) + "," + (p.finite ? "1" : "0") + "," + vh::hexf(p.fx) + "," + vh::hexf(p.fy) + "," + vh::hexf(p.e) + "," + vh::hexf(p.delta) + "," +
           (p.econv ? "1" : "0") + "," + (p.sconv ? "1" : "0") + "," + vh::hexf(p.gdot) + "," + vh::hexf(p.sdot);
}
void loop_fail(const std::string& sid, const char* clause, const std::string& detail)
{
    std::printf("FAIL %s %s %s\n", sid.c_str(), clause, detail.c_str());
    ++C.fails;
}

// Part B: RQB / FPBA loops mirrored on the public bundle_t / csearch_t / proximity_t with the bundle dumped at every
// step, and compared with the real solver on the same problem (same bits expected: same library code, same inputs)
template <class tsequence>
solver_state_t mirror_loop(const std::string& sid, const std::string& sname, const sharp_function_t& function, const vector_t& x0,
                           const solver_t& solver, const config_t& c, vh::rng_t& r, bool& guarded, loop_flags_t& flags)
{
    const auto prefix    = std::string("solver::") + sname;
    const auto max_evals = static_cast<tensor_size_t>(c.max_evals);
    const auto epsilon   = c.eps;
    const auto logger    = make_null_logger();
    const bool is_rqb    = sname == "rqb";
    const int  seqid     = sname == "fpba2" ? 2 : 1;

    auto state     = solver_state_t{function, x0};
    auto bundle    = bundle_t::make(state, solver, prefix);
    auto csearch   = csearch_t::make(function, solver, prefix);
    auto proximity = proximity_t::make(state, solver, prefix);
    print_new(sid, bundle, c.max_size, state);

    auto Gn  = state.gx();
    auto Gn1 = state.gx();
    auto gx       = vector_t{x0.size()};
    auto sequence = tsequence{state};
    struct probe_t final : public solver_t
    {
        probe_t() : solver_t("probe") {}
        using solver_t::done;
        rsolver_t      clone() const override { return std::make_unique<probe_t>(*this); }
        solver_state_t do_minimize(const function_t&, const vector_t&, const logger_t&) const override { return {}; }
    } probe;

    // proximity_t's constructor: miu0 = clamp(5 |g|^2 / (|f| + eps0), miu0_range)
    std::printf("PX0 %s lo=%s hi=%s eps0=%s | %s | %s | %s\n", sid.c_str(), vh::hexf(c.miu_lo).c_str(), vh::hexf(c.miu_hi).c_str(), vh::hexf(kEps0).c_str(),
                hv(state.gx()).c_str(), vh::hexf(state.fx()).c_str(), vh::hexf(proximity.m_miu).c_str());
    ++C.px_lines;
    ++C.loop_oracles;
    if (!(proximity.m_miu >= c.miu_lo && proximity.m_miu <= c.miu_hi))
        loop_fail(sid, "proximity-miu0-range", "miu0=" + vh::hexf(proximity.m_miu) + " range=" + vh::hexf(c.miu_lo) + ":" + vh::hexf(c.miu_hi));

    // every evaluation made by csearch_t::search is one pass of its loop: the operands of its tests, read from the real bundle
    std::vector<pass_t> passes;
    bool                in_search = false;
    const auto          n         = x0.size();
    // ---- stage WHOLE: everything the composed model needs to replay this run from its oracle answers ----
    std::vector<std::string> w_evs, w_qps, w_kps, w_sqs, w_log, w_its;
    bool                     w_amb = false, w_bad = false;
    double                   h_tL = 0.0, h_tR = 0.0;
    const double             w_tol = epsilon * std::sqrt(static_cast<double>(n));
    const auto w_ev = [&](const vector_t& yy, const vector_t& gg, double ff)
    {
        if (!std::isfinite(ff)) w_bad = true;
        w_evs.push_back(hv(yy) + ":" + hv(gg) + ":" + vh::hexf(ff));
    };
    const auto w_near = [&](double a, double b, double mag) { return std::fabs(a - b) <= 1e-7 * mag + 1e-300; };
    w_ev(state.x(), state.gx(), state.fx());
    g_eval_hook = [&](const double* yp, const double* gp, double fy)
    {
        if (!in_search) return;
        vector_t y(n), gy(n);
        for (tensor_size_t i = 0; i < n; ++i) { y(i) = yp[i]; gy(i) = gp[i]; }
        const auto&    x   = bundle.x();
        const auto     t   = csearch.m_point.m_t;
        const auto     miu = proximity.miu();
        const vector_t s   = bundle.smeared_s();
        pass_t         p;
        p.t      = t;
        p.fx     = bundle.fx();
        p.fy     = fy;
        p.e      = bundle.smeared_e();
        p.delta  = bundle.delta(miu / t);
        p.econv  = bundle.econverged(epsilon);
        p.sconv  = bundle.sconverged(epsilon);
        p.finite = std::isfinite(fy);
        p.gdot   = gy.dot(y - x);
        p.sdot   = s.dot(y - x);
        passes.push_back(p);
        if (w_evs.size() <= 90)
        {
            w_ev(y, gy, fy);
            w_qps.push_back(hv(bundle.m_alphas.data(), bundle.m_size));
            // a decision taken by this pass within 1e-7 (relative) of its threshold: the exact-rational replay may take the other side
            const double ss = s.lpNorm<2>();
            if (passes.size() == 1) { h_tL = 0.0; h_tR = std::numeric_limits<double>::infinity(); }
            if (p.finite)
            {
                if (w_near(p.e, w_tol, w_tol) || w_near(ss, w_tol, w_tol)) w_amb = true;
                if (!(p.econv && p.sconv))
                {
                    const double m1d = csearch.m_m1 * p.delta;
                    if (w_near(p.fx - p.fy, m1d, std::fabs(p.fx) + std::fabs(p.fy) + std::fabs(m1d))) w_amb = true;
                    if (p.fx - p.fy >= m1d)
                    {
                        h_tL = p.t;
                        if (w_near(p.gdot, -csearch.m_m2 * p.delta, std::fabs(p.gdot) + std::fabs(csearch.m_m2 * p.delta))) w_amb = true;
                        if (!(p.gdot >= -csearch.m_m2 * p.delta) && !std::isfinite(h_tR) && !p.sconv &&
                            w_near(p.sdot, -csearch.m_m4 * p.delta, std::fabs(p.sdot) + std::fabs(csearch.m_m4 * p.delta)))
                            w_amb = true;
                    }
                    else
                    {
                        h_tR = p.t;
                        if (h_tL < kEps0 && w_near(p.e, csearch.m_m3 * p.delta, std::fabs(p.e) + std::fabs(csearch.m_m3 * p.delta))) w_amb = true;
                    }
                }
            }
            for (tensor_size_t i = 0; i < bundle.m_size; ++i)
                if (bundle.m_alphas(i) != 0.0 && std::fabs(bundle.m_alphas(i)) < 1e-9) w_amb = true; // delete_inactive: alpha < epsilon0
        }
    };
    const auto calls_now = [&]() { return static_cast<long>(function.fcalls() + function.gcalls()); };
    const long calls_init = calls_now();
    const long cost       = 2; // vgrad with a gradient buffer: fcalls + 1, gcalls + 1

    guarded = false;
    long local_ops = 0;
    long k         = 0;
    long w_iters   = 0;
    bool w_done    = false;
    int  w_sstat   = 0;
    const double w_miu0 = proximity.m_miu;
    double       best_seen = state.fx();
    const double f_start   = state.fx();
    while (function.fcalls() + function.gcalls() < max_evals)
    {
        const bool   trace  = loop_sampled(k);
        const long   calls0 = calls_now();
        const double miu0   = proximity.miu();
        const int    stale  = static_cast<int>(csearch.m_point.m_status);
        const double sfx0   = state.fx();
        passes.clear();
        ++w_iters;
        in_search = true;
        const auto&     point  = csearch.search(bundle, proximity.miu(), max_evals, epsilon, logger);
        const double    t      = point.m_t;
        const auto      status = point.m_status;
        const vector_t& y      = point.m_y;
        const vector_t& gy     = point.m_gy;
        const double    fy     = point.m_fy;
        in_search = false;
        const long calls1 = calls_now();
        // when the budget ran out inside the curve search t may have been changed after the last solve: miu unknown
        print_solve(sid, bundle, function.fcalls() + function.gcalls() < max_evals ? proximity.miu() / t : std::nan(""));
        print_conv(sid, bundle, epsilon);
        oracle_certificate(sid, bundle, function, epsilon);

        // ---- direct oracles of the curve search (model independent) ----
        ++C.loop_iters;
        C.loop_passes += static_cast<int64_t>(passes.size());
        C.loop_oracles += 3;
        if (passes.empty()) loop_fail(sid, "search-without-evaluation", "k=" + std::to_string(k));
        if (calls1 != calls0 + cost * static_cast<long>(passes.size()))
            loop_fail(sid, "search-calls", "k=" + std::to_string(k) + " calls0=" + std::to_string(calls0) + " calls1=" + std::to_string(calls1) + " passes=" + std::to_string(passes.size()));
        if (calls1 - cost >= static_cast<long>(max_evals) && !passes.empty())
            loop_fail(sid, "search-evaluates-beyond-budget", "k=" + std::to_string(k) + " calls=" + std::to_string(calls1) + " max_evals=" + std::to_string(c.max_evals));
        // direct oracle of the bracket (model independent): the side of the m1 test decides which end moves onto t, the next trial is
        // strictly inside the new bracket (interpolation) or beyond t (extrapolation)
        {
            double tL = 0.0, tR = std::numeric_limits<double>::infinity();
            for (size_t i = 0; i + 1 < passes.size(); ++i)
            {
                const auto& p  = passes[i];
                const bool  up = ge_slack(p.fx - p.fy, csearch.m_m1 * p.delta, true), dn = ge_slack(p.fx - p.fy, csearch.m_m1 * p.delta, false);
                if (up == dn) break; // within rounding of the threshold: the side is not known here
                if (up) tL = p.t; else tR = p.t;
                const double tn = passes[i + 1].t;
                const double te = std::isfinite(tR) ? (1.0 - csearch.m_interpol) * tL + csearch.m_interpol * tR : p.t * csearch.m_extrapol;
                ++C.loop_oracles;
                // (binary64: strictly inside until the bracket collapses onto adjacent doubles / denormals -- counted, see notes/C03.md)
                if (tn == tL || tn == tR) C.hist["loop_bracket_collapsed_in_binary64"]++;
                if (!(tn >= tL) || !(tn <= tR) || std::fabs(tn - te) > 1e-12 * std::fabs(te))
                {
                    loop_fail(sid, "trial-outside-bracket", "k=" + std::to_string(k) + " pass=" + std::to_string(i) + " t=" + vh::hexf(p.t) + " next=" + vh::hexf(tn) + " expected=" + vh::hexf(te) +
                                                               " bracket=[" + vh::hexf(tL) + "," + vh::hexf(tR) + "]");
                    break;
                }
            }
        }
        const bool justified = !passes.empty() && status_justified(csearch, status, passes.back());
        if (!justified)
        {
            // no pass of this call assigned the returned status: only the loop guard may have ended the call, and then the status is
            // the reset value max_iters (repo 31bf93f) -- never the status of a previous call
            C.loop_oracles += 1;
            if (calls1 >= static_cast<long>(max_evals) && status == csearch_status::max_iters) { flags.budget_exit = true; ++C.stale_exits; }
            else
                loop_fail(sid, "status-not-assigned-in-this-call",
                          "k=" + std::to_string(k) + " returned status=" + std::to_string(static_cast<int>(status)) + " previous call's status=" + std::to_string(stale) +
                              " calls=" + std::to_string(calls1) + " max_evals=" + std::to_string(c.max_evals) + " last pass=" + (passes.empty() ? std::string("-") : pass_str(passes.back())));
        }
        if (!passes.empty() && passes.back().t != t)
        {
            // t is the trial of the last pass, or (budget exit) the next trial that was not evaluated
            if (calls1 < static_cast<long>(max_evals)) loop_fail(sid, "search-returns-other-t", "k=" + std::to_string(k));
        }

        const auto iter_ok   = status != csearch_status::failed;
        const auto converged = status == csearch_status::converged;
        if (!g_quiet) std::printf("CS %s %d %d %d\n", is_rqb ? "rqb" : "fpba", static_cast<int>(status), iter_ok ? 1 : 0, converged ? 1 : 0);
        const bool   valid = state.valid();
        const bool   ret   = probe.done(state, iter_ok, converged, logger);
        const int    sstat = static_cast<int>(state.status());
        std::string  mom   = "-";
        const auto emit_li = [&]()
        {
            if (!trace) return;
            std::string ps;
            for (const auto& p : passes) { if (!ps.empty()) ps += ";"; ps += pass_str(p); }
            std::printf("LI %s k=%ld solver=%s maxev=%d calls0=%ld cost=%ld miu=%s stale=%d sfx=%s eps0=%s m1=%s m2=%s m3=%s m4=%s ip=%s ep=%s | %s | "
                        "status=%d t=%s calls=%ld valid=%d ret=%d sstatus=%d just=%d | calls=%ld sfx=%s miu=%s mom=%s\n",
                        sid.c_str(), k, sname.c_str(), c.max_evals, calls0, cost, vh::hexf(miu0).c_str(), stale, vh::hexf(sfx0).c_str(), vh::hexf(kEps0).c_str(),
                        vh::hexf(csearch.m_m1).c_str(), vh::hexf(csearch.m_m2).c_str(), vh::hexf(csearch.m_m3).c_str(), vh::hexf(csearch.m_m4).c_str(),
                        vh::hexf(csearch.m_interpol).c_str(), vh::hexf(csearch.m_extrapol).c_str(), ps.empty() ? "-" : ps.c_str(),
                        static_cast<int>(status), vh::hexf(t).c_str(), calls1, valid ? 1 : 0, ret ? 1 : 0, sstat, justified ? 1 : 0,
                        calls_now(), vh::hexf(state.fx()).c_str(), vh::hexf(proximity.m_miu).c_str(), mom.c_str());
            ++C.loop_lines;
        };
        // stage WHOLE: the recorded decisions of this iteration (status returned, operands of every pass as the library saw them)
        const auto w_rec = [&]()
        {
            std::string ps;
            for (const auto& p : passes) { if (!ps.empty()) ps += "/"; ps += pass_str(p); }
            w_its.push_back(std::to_string(static_cast<int>(status)) + "@" + vh::hexf(proximity.m_miu) + "@" + (ps.empty() ? "-" : ps));
        };
        if (ret) { w_done = true; w_sstat = sstat; w_rec(); emit_li(); break; }

        const auto px_line = [&](int kind, double miu_before)
        {
            ++C.loop_oracles;
            if (!(proximity.m_miu > 0.0) || !std::isfinite(proximity.m_miu))
                loop_fail(sid, "proximity-miu-not-positive", "k=" + std::to_string(k) + " miu=" + vh::hexf(proximity.m_miu));
            if (!trace) return;
            std::printf("PX %s kind=%d t=%s miu=%s mdn=%s | %s | %s | %s | %s | %s | %s | %s\n", sid.c_str(), kind, vh::hexf(t).c_str(), vh::hexf(miu_before).c_str(),
                        vh::hexf(proximity.m_min_dot_nuv).c_str(), hv(bundle.x()).c_str(), hv(y).c_str(), hv(bundle.gx()).c_str(), hv(gy).c_str(),
                        kind == 2 ? hv(Gn).c_str() : "-", kind == 2 ? hv(Gn1).c_str() : "-", vh::hexf(proximity.m_miu).c_str());
            ++C.px_lines;
        };
        bool stop = false;
        if (status == csearch_status::descent_step || status == csearch_status::cutting_plane_step)
        {
            if (!justified) ++C.stale_moves; // (reported above as status-not-assigned-in-this-call)
            if (is_rqb)
            {
                if (status == csearch_status::descent_step)
                {
                    const double miu_before = proximity.m_miu;
                    Gn1 = bundle.smeared_s();
                    proximity.update(t, bundle.x(), y, bundle.gx(), gy, Gn, Gn1);
                    px_line(2, miu_before); // NB: printed before Gn = Gn1
                    Gn = Gn1;
                }
                else
                {
                    Gn = bundle.smeared_s();
                }
                if (!apply_append(sid, bundle, true, y, gy, fy)) { guarded = true; stop = true; }
                else
                {
                    w_kps.push_back(g_last_keep);
                    w_log.push_back(hv(y));
                    state.update(y, gy, fy);
                    // direct oracle: the centre value of RQB never increases (convex objective)
                    ++C.loop_oracles;
                    if (state.fx() > sfx0 + 1e-12 * (1.0 + std::fabs(sfx0)))
                    {
                        if (!justified) ++C.stale_increase;
                        loop_fail(sid, "rqb-centre-increased", "k=" + std::to_string(k) + " status=" + std::to_string(static_cast<int>(status)) + (justified ? "" : " (not assigned by this call)") +
                                                                   " f: " + vh::hexf(sfx0) + " -> " + vh::hexf(state.fx()) + " f(x0)=" + vh::hexf(f_start));
                    }
                }
            }
            else
            {
                if (status == csearch_status::descent_step)
                {
                    const double miu_before = proximity.m_miu;
                    proximity.update(t, bundle.x(), y, bundle.gx(), gy);
                    px_line(1, miu_before);
                }
                state.update_if_better(y, gy, fy);
                const double   lam0 = sequence.m_lambda;
                const vector_t mx0 = sequence.m_x, my0 = sequence.m_y;
                const double   rw   = std::sqrt(1.0 + 4.0 * lam0 * lam0);
                const auto& x  = sequence.update(y);
                const double   lam1 = sequence.m_lambda;
                const vector_t mx1  = x;
                const auto  fx = function.vgrad(x, gx);
                mom = vh::hexf(fx);
                w_ev(x, gx, fx);
                w_sqs.push_back(vh::hexf(rw));
                if (!apply_append(sid, bundle, true, x, gx, fx)) { guarded = true; stop = true; }
                else
                {
                    w_kps.push_back(g_last_keep);
                    w_log.push_back(hv(x));
                    const bool better = state.update_if_better(x, gx, fx);
                    if (!better) sequence.reset();
                    // direct oracles: lambda >= 1 and growing, m_y = z, reset <=> no improvement, state = best of (previous, z, momentum point)
                    C.loop_oracles += 3;
                    if (!(lam1 >= 1.0) || !(lam1 > lam0) || hv(sequence.m_y) != hv(y) || (sequence.m_lambda != (better ? lam1 : 1.0)))
                        loop_fail(sid, "nesterov-sequence", "k=" + std::to_string(k) + " lambda " + vh::hexf(lam0) + " -> " + vh::hexf(lam1) + " -> " + vh::hexf(sequence.m_lambda));
                    double want = sfx0;
                    if (std::isfinite(fy) && fy < want) want = fy;
                    if (std::isfinite(fx) && fx < want) want = fx;
                    if (state.fx() != want)
                        loop_fail(sid, "fpba-state-not-best", "k=" + std::to_string(k) + " state=" + vh::hexf(state.fx()) + " best=" + vh::hexf(want));
                    if (trace)
                    {
                        std::printf("NS %s seq=%d lambda=%s r=%s reset=%d | %s | %s | %s | %s | %s | %s\n", sid.c_str(), seqid, vh::hexf(lam0).c_str(), vh::hexf(rw).c_str(),
                                    better ? 0 : 1, hv(y).c_str(), hv(mx0).c_str(), hv(my0).c_str(), vh::hexf(lam1).c_str(), hv(mx1).c_str(), vh::hexf(sequence.m_lambda).c_str());
                        ++C.ns_lines;
                    }
                }
            }
        }
        else if (status == csearch_status::null_step)
        {
            if (!apply_append(sid, bundle, false, y, gy, fy)) { guarded = true; stop = true; }
            else w_kps.push_back(g_last_keep);
        }
        if (stop) break;
        if (status == csearch_status::max_iters)
        {
            // the budget ran out inside the curve search: state, bundle and proximity parameter are left as they were
            ++C.loop_oracles;
            if (state.fx() != sfx0 || proximity.m_miu != miu0 || calls_now() != calls1)
                loop_fail(sid, "budget-exit-touched-state", "k=" + std::to_string(k) + " f: " + vh::hexf(sfx0) + " -> " + vh::hexf(state.fx()));
        }
        w_rec();
        emit_li();
        best_seen = std::min(best_seen, state.fx());
        ++C.mirror_ops;
        // the phase is per run (not per batch), so that `replay` of one case re-runs exactly the same oracle calls
        if (++local_ops % 4 == 0) oracle_rows(sid, bundle, function, make_probes(r, function, bundle, nullptr));
        ++k;
    }
    g_eval_hook = nullptr;
    if (!guarded && !w_bad && w_evs.size() <= 90 && g_whole_count[sid[0]] < g_whole_cap)
    {
        const auto joinv = [](const std::vector<std::string>& v, const char* sep)
        {
            std::string o;
            for (const auto& e : v) { if (!o.empty()) o += sep; o += e; }
            return o.empty() ? std::string("-") : o;
        };
        std::reverse(w_log.begin(), w_log.end());
        std::printf("W %s solver=%s n=%d max=%d maxev=%d calls0=%ld cost=%ld miu0=%s eps0=%s tol=%s mdn=%s m1=%s m2=%s m3=%s m4=%s ip=%s ep=%s amb=%d | %s | %s | %s | %s | %s | "
                    "exit=%s sstatus=%d iters=%ld calls=%ld sfx=%s size=%d | %s | %s | %s | %s\n",
                    sid.c_str(), sname.c_str(), static_cast<int>(n), c.max_size, c.max_evals, calls_init, cost, vh::hexf(w_miu0).c_str(), vh::hexf(kEps0).c_str(),
                    vh::hexf(w_tol).c_str(), vh::hexf(proximity.m_min_dot_nuv).c_str(), vh::hexf(csearch.m_m1).c_str(), vh::hexf(csearch.m_m2).c_str(),
                    vh::hexf(csearch.m_m3).c_str(), vh::hexf(csearch.m_m4).c_str(), vh::hexf(csearch.m_interpol).c_str(), vh::hexf(csearch.m_extrapol).c_str(),
                    w_amb ? 1 : 0, hv(x0).c_str(), joinv(w_evs, ";").c_str(), joinv(w_qps, ";").c_str(), joinv(w_kps, ";").c_str(), joinv(w_sqs, ",").c_str(),
                    w_done ? "done" : "budget", w_sstat, w_iters, calls_now(), vh::hexf(state.fx()).c_str(), static_cast<int>(bundle.size()),
                    hv(bundle.x()).c_str(), hv(state.x()).c_str(), joinv(w_log, ";").c_str(), joinv(w_its, ";").c_str());
        ++g_whole_lines;
        ++g_whole_count[sid[0]];
    }
    state.update_calls();
    // direct oracle: evaluations performed beyond the budget (RQB: < one evaluation, FPBA: < one evaluation + the momentum point)
    ++C.loop_oracles;
    if (!guarded)
    {
        const long limit = std::max(calls_init, static_cast<long>(max_evals) + (is_rqb ? 1 : 2) * cost - 1);
        if (calls_now() > limit)
            loop_fail(sid, "overshoot", "calls=" + std::to_string(calls_now()) + " max_evals=" + std::to_string(c.max_evals) + " limit=" + std::to_string(limit));
    }
    return state;
}

struct mirror_result_t
{
    solver_state_t st;
    bool           guarded{false};
    loop_flags_t   flags;
};

mirror_result_t do_mirror(const std::string& sid, const std::string& sname, problem_t& p, const config_t& c, const solver_t& solver, vh::rng_t& r,
                          bool quiet)
{
    mirror_result_t m;
    verif::g_event_hook.store(nullptr); // the probe's done() is not the solver's
    p.f->clear_statistics();
    g_quiet = quiet;
    if (sname == "fpba2") m.st = mirror_loop<nesterov_sequence2_t>(sid, sname, *p.f, p.x0, solver, c, r, m.guarded, m.flags);
    else m.st = mirror_loop<nesterov_sequence1_t>(sid, sname, *p.f, p.x0, solver, c, r, m.guarded, m.flags);
    g_eval_hook = nullptr;
    g_quiet = false;
    verif::g_event_hook.store(&event_hook);
    ++C.mirrors;
    return m;
}

void compare_mirror(const std::string& sid, const std::string& sname, const solver_state_t& ref, const solver_state_t& mir)
{
    const bool same = ref.status() == mir.status() && ref.fx() == mir.fx() && ref.fcalls() == mir.fcalls() && hv(ref.x()) == hv(mir.x());
    if (!same)
    {
        std::printf("MIRROR-DIFF %s solver=%s real: status=%d fx=%s calls=%d x=%s | mirror: status=%d fx=%s calls=%d x=%s\n", sid.c_str(), sname.c_str(),
                    static_cast<int>(ref.status()), vh::hexf(ref.fx()).c_str(), static_cast<int>(ref.fcalls()), hv(ref.x()).c_str(),
                    static_cast<int>(mir.status()), vh::hexf(mir.fx()).c_str(), static_cast<int>(mir.fcalls()), hv(mir.x()).c_str());
    }
}

// Part C: the real solvers with the property's own oracle
void solver_run(uint64_t case_seed, bool small, bool dump, bool lowbudget = false)
{
    vh::rng_t         r(case_seed);
    const std::string id = (lowbudget ? "L" : dump ? "M" : "R") + std::to_string(case_seed);
    static const char* solvers[] = {"rqb", "fpba1", "fpba2", "ellipsoid"};
    const std::string  sname = lowbudget ? solvers[r.range(0, 3) % 3 == 0 ? 0 : r.range(0, 2)] : solvers[r.range(0, dump ? 2 : 3)];
    auto               p     = make_problem(r);
    auto               c     = draw_config(r, sname, small);
    if (dump) c.max_evals = std::min(c.max_evals, 3000); // keeps the dump small
    // family L (stage LOOP): the budget runs out inside a curve search after a few outer iterations -- the path on which, before
    // repo 31bf93f, search() returned the status of the previous call (half of the cases with max_evals in 10..20)
    if (lowbudget) c.max_evals = static_cast<int>(r.range(0, 1) ? r.range(10, 20) : r.range(21, 90));
    const double       d0    = norm2(p.f->m_xs, p.x0);
    if (sname == "ellipsoid")
    {
        c.R = r.range(0, 2) == 0 ? 10.0 : std::max(d0 * (1.0 + r.unit()), 0.125) + (r.range(0, 3) == 0 ? 8.0 * r.unit() : 0.0);
        if (p.n <= 6 && r.range(0, 1) == 0) c.max_evals = 20000;
    }
    auto solver = make_solver(c);
    std::printf("START %s solver=%s kind=%s n=%d %s\n", id.c_str(), sname.c_str(), kind_name(p.kind, p.mu), p.n, config_str(c).c_str());
    mirror_result_t mir;
    if (sname != "ellipsoid")
    {
        // the mirrored loop first: it stops before an operation that would leave size() == capacity() (after which the
        // library writes behind its buffers); the real solver is then not run on this case
        mir = do_mirror(id, sname, p, c, *solver, r, !dump);
        if (dump) std::printf("B %s END\n", id.c_str());
        if (mir.guarded)
        {
            std::printf("SKIP %s solver=%s n=%d %s reason=bundle-size-reaches-capacity\n", id.c_str(), sname.c_str(), p.n, config_str(c).c_str());
            C.hist["run_skipped_capacity_guard"]++;
            return;
        }
    }
    g_events.clear();
    p.f->m_evals = 0;
    if (sname == "ellipsoid") ell_begin(p.f->m_xs, c.R);
    const auto st = solver->minimize(*p.f, p.x0, make_null_logger());
    if (sname == "ellipsoid") ell_end(id, d0 <= c.R);
    if (sname != "ellipsoid") compare_mirror(id, sname, st, mir.st);
    const double gap  = st.fx() - p.f->fstar();
    const double dist = norm2(p.f->m_xs, st.x());
    const bool   conv = st.status() == solver_status::converged;
    const double bound = sname == "ellipsoid" ? 10.0 * c.eps : 2.0 * c.eps * std::sqrt(static_cast<double>(p.n)) * (1.0 + dist);
    ++C.runs;
    if (conv) ++C.converged;
    C.hist["run_solver=" + sname]++;
    C.hist["run_n=" + std::to_string(p.n)]++;
    C.hist[std::string("run_kind=") + kind_name(p.kind, p.mu)]++;
    C.hist["run_status=" + std::to_string(static_cast<int>(st.status()))]++;
    std::printf("RUN %s solver=%s kind=%s n=%d %s status=%d gap=%s bound=%s dist=%s evals=%d events=%d\n", id.c_str(), sname.c_str(),
                kind_name(p.kind, p.mu), p.n, config_str(c).c_str(), static_cast<int>(st.status()), vh::hexf(gap).c_str(),
                vh::hexf(bound).c_str(), vh::hexf(dist).c_str(), static_cast<int>(p.f->m_evals), static_cast<int>(g_events.size()));
    // the returned point is a real point of the function
    const double fchk = p.f->value(st.x().data(), nullptr);
    if (fchk != st.fx())
    {
        std::printf("FAIL %s returned-value fx=%s f(x)=%s\n", id.c_str(), vh::hexf(st.fx()).c_str(), vh::hexf(fchk).c_str());
        ++C.fails;
    }
    if (conv && !(gap <= bound))
    {
        const double tol   = c.eps * std::sqrt(static_cast<double>(p.n));
        const bool   known = sname != "ellipsoid" && cancellation_explains(*p.f, tol);
        std::printf("%s %s %sconverged-not-optimal solver=%s gap=%.6e bound=%.6e dist=%.6e n=%d kind=%s %s %s\n", known ? "KFAIL" : "FAIL",
                    id.c_str(), known ? "cancellation " : "", sname.c_str(), gap, bound, dist, p.n, kind_name(p.kind, p.mu), config_str(c).c_str(),
                    cancellation_str(*p.f, tol).c_str());
        ++(known ? C.kfails : C.fails);
    }
    if (sname == "ellipsoid" && p.n <= 6 && c.max_evals == 20000 && c.R >= d0 && !conv)
    {
        std::printf("FAIL %s ellipsoid-not-converged n=%d status=%d gap=%.6e evals=%d kind=%s %s\n", id.c_str(), p.n, static_cast<int>(st.status()), gap,
                    static_cast<int>(p.f->m_evals), kind_name(p.kind, p.mu), config_str(c).c_str());
        ++C.fails;
    }
    // evaluation overshoot of the real solver (C02's clause, a theorem for the three bundle solvers: C03_rqb_budget / C03_fpba_budget)
    if (sname != "ellipsoid")
    {
        const long calls = static_cast<long>(st.fcalls() + st.gcalls());
        const long limit = std::max<long>(2, static_cast<long>(c.max_evals) + (sname == "rqb" ? 1 : 2) * 2 - 1);
        ++C.loop_oracles;
        if (calls > limit)
        {
            std::printf("FAIL %s overshoot calls=%ld max_evals=%d limit=%ld\n", id.c_str(), calls, c.max_evals, limit);
            ++C.fails;
        }
        if (mir.flags.budget_exit) C.hist["run_budget_exit_inside_search"]++;
        ++C.loop_oracles;
        if (st.fx() > p.f->value(p.x0.data(), nullptr) * (1.0 + 1e-12) && sname == "rqb")
        {
            std::printf("FAIL %s rqb-returns-above-start fx=%s f(x0)=%s\n", id.c_str(), vh::hexf(st.fx()).c_str(), vh::hexf(p.f->value(p.x0.data(), nullptr)).c_str());
            ++C.fails;
        }
    }
    // status logic through the hooks: `converged` only if the last done() saw converged = 1 and returned true
    if (!g_events.empty())
    {
        const auto& e = g_events.back();
        if (conv != (e.converged && e.ret))
        {
            std::printf("FAIL %s status-vs-events status=%d last.converged=%d last.ret=%d\n", id.c_str(), static_cast<int>(st.status()), e.converged ? 1 : 0, e.ret ? 1 : 0);
            ++C.fails;
        }
        std::map<std::string, int> seen;
        for (const auto& ev : g_events)
        {
            char buf[64];
            std::snprintf(buf, sizeof(buf), "D %d %d %d %d %d", ev.iter_ok, ev.converged, ev.valid, ev.ret, ev.status_after);
            if (seen[buf]++ == 0) std::printf("%s\n", buf);
            // RQB: the state is the bundle centre, whose value never increases on a convex objective (C03_rqb_monotone_repaired)
            if (st.fx() > ev.fx && !(sname == "rqb" && st.fx() <= ev.fx + 1e-12 * (1.0 + std::fabs(ev.fx))))
            {
                std::printf("FAIL %s returned-worse-than-seen fx=%s seen=%s\n", id.c_str(), vh::hexf(st.fx()).c_str(), vh::hexf(ev.fx).c_str());
                ++C.fails;
                break;
            }
        }
    }
    else if (conv)
    {
        std::printf("FAIL %s converged-without-done-event\n", id.c_str());
        ++C.fails;
    }
}

// Part D: the 1-D branch of the ellipsoid method, evaluation trace for the model
void ell1_run(uint64_t case_seed)
{
    vh::rng_t         r(case_seed);
    const std::string id = "E" + std::to_string(case_seed);
    auto              p  = make_problem(r, 1);
    auto              c  = draw_config(r, "ellipsoid", false);
    const double      d0 = norm2(p.f->m_xs, p.x0);
    switch (r.range(0, 3))
    {
    case 0: c.R = 10.0; break;
    case 1: c.R = std::ldexp(1.0, static_cast<int>(r.range(-2, 5))); break;
    case 2: c.R = std::max(d0, 0.0625); break; // the minimiser on the boundary of the initial bracket
    default: c.R = d0 + static_cast<double>(r.range(1, 64)) / 8.0; break;
    }
    if (c.R < d0) c.R = d0 * 2.0;
    if (r.range(0, 2) == 0) c.max_evals = static_cast<int>(r.range(10, 120));
    auto solver = make_solver(c);
    p.f->m_record = true;
    p.f->m_trace.clear();
    g_events.clear();
    ell_begin(p.f->m_xs, c.R);
    const auto st = solver->minimize(*p.f, p.x0, make_null_logger());
    ell_end(id, d0 <= c.R);
    p.f->m_record = false;
    std::string tr;
    for (const auto& e : p.f->m_trace)
    {
        if (!tr.empty()) tr += " ";
        tr += vh::hexf(e.x[0]) + ":" + vh::hexf(e.f) + ":" + vh::hexf(e.g[0]);
    }
    std::printf("E1 %s R=%s eps=%s macheps=%s maxev=%d | %s | %d %s %d\n", id.c_str(), vh::hexf(c.R).c_str(), vh::hexf(c.eps).c_str(),
                vh::hexf(std::numeric_limits<scalar_t>::epsilon()).c_str(), c.max_evals, tr.c_str(), static_cast<int>(st.status()),
                vh::hexf(st.fx()).c_str(), static_cast<int>(p.f->m_trace.size()));
    ++C.e1;
    const double gap = st.fx() - p.f->fstar();
    if (st.status() == solver_status::converged && !(gap <= 10.0 * c.eps))
    {
        std::printf("FAIL %s converged-not-optimal solver=ellipsoid(1d) gap=%.6e bound=%.6e R=%.6g d0=%.6g\n", id.c_str(), gap, 10.0 * c.eps, c.R, d0);
        ++C.fails;
    }
    if (c.max_evals == 20000 && st.status() != solver_status::converged)
    {
        std::printf("FAIL %s ellipsoid-not-converged n=1 status=%d gap=%.6e R=%.6g d0=%.6g\n", id.c_str(), static_cast<int>(st.status()), gap, c.R, d0);
        ++C.fails;
    }
}
} // namespace

int main(int argc, char** argv)
{
    std::setvbuf(stdout, nullptr, _IOLBF, 0);
    const std::string mode = argc > 1 ? argv[1] : "quick";
    verif::g_event_hook.store(&event_hook);
    if (mode == "replay" && argc >= 4)
    {
        const std::string what  = argv[2];
        const uint64_t    cs    = std::strtoull(argv[3], nullptr, 10);
        const bool        small = argc > 4 && std::string(argv[4]) == "small";
        if (what == "S") session(cs, small);
        else if (what == "M") solver_run(cs, small, true);
        else if (what == "R") solver_run(cs, small, false);
        else if (what == "L") solver_run(cs, small, false, true);
        else if (what == "E") ell1_run(cs);
        std::printf("DONE replay fails=%d kfails=%d guards=%d ell_events=%d ell_max_membership=%.17g\n", static_cast<int>(C.fails), static_cast<int>(C.kfails),
                    static_cast<int>(C.guards), static_cast<int>(C.ell_events), C.ell_max_m);
        return 0;
    }
    if (mode == "probe-small")
    {
        // directed probe of the known finding `C03-delete-largest-leaves-bundle-full`: solver runs with bundle::max_size in
        // 2..4 (legal: the parameter's domain is [2,1000]); the mirrored loop detects, on a copy, the operation after which
        // size() == capacity() (the next append would write behind the buffers) and stops there -- nothing overflows here
        int hits = 0, runs = 0;
        for (uint64_t k = 1; k <= 60 && hits < 3; ++k)
        {
            const auto before = C.hist["run_skipped_capacity_guard"];
            g_force_max = 3 + static_cast<int>(k % 2);
            solver_run(0xC03000ULL + k, true, false);
            ++runs;
            if (C.hist["run_skipped_capacity_guard"] > before) ++hits;
        }
        std::printf("PROBE-SMALL runs=%d guard_hits=%d fails=%d\n", runs, hits, static_cast<int>(C.fails));
        return 0;
    }
    if (mode == "probe-far")
    {
        // directed probe of the known finding `C03-false-convergence-by-cancellation-at-far-trial-point` (the case id alone
        // determines the run): RQB, n = 7, the curve search evaluates trial points with |f| ~ 2^56, the null-step error is
        // rounded by ~ulp(2^56) = 16 and the solver reports `converged` 1.7 above the minimum
        solver_run(129757546649670ULL, false, false);
        std::printf("PROBE-FAR runs=1 kfails=%d fails=%d\n", static_cast<int>(C.kfails), static_cast<int>(C.fails));
        return 0;
    }
    const bool small    = argc > 2 && std::string(argv[2]) == "small";
    const bool thorough = mode == "thorough";
    if (thorough) g_whole_cap = 500;
    vh::rng_t  pre(vh::env_seed() ^ 0xC03C03C03C03ULL); // NB: seeding by seed * (splitmix increment) would only shift the stream
    vh::rng_t  master(pre.next() ^ (pre.next() << 1));
    const int  nsessions = thorough ? 1500 : 120;
    const int  nmirrors  = thorough ? 400 : 40;
    const int  nruns     = thorough ? 6000 : 400;
    const int  ne1       = thorough ? 1500 : 150;
    for (int i = 0; i < nsessions; ++i) session(master.next() >> 16, small);
    for (int i = 0; i < nmirrors; ++i) solver_run(master.next() >> 16, small, true);
    for (int i = 0; i < nruns; ++i) solver_run(master.next() >> 16, small, false);
    const int nlow = thorough ? 6000 : 600;
    for (int i = 0; i < nlow; ++i) solver_run(master.next() >> 16, small, false, true);
    for (int i = 0; i < ne1; ++i) ell1_run(master.next() >> 16);
    std::string h;
    for (const auto& kv : C.hist) h += " " + kv.first + ":" + std::to_string(kv.second);
    std::printf("DONE sessions=%d ops=%d serious=%d nulls=%d aggregations=%d inactive_deleted=%d guards=%d convs=%d conv_true=%d oracle_checks=%d "
                "mirrors=%d mirror_ops=%d runs=%d converged=%d e1=%d fails=%d kfails=%d ell_events=%d ell_printed=%d ell_max_membership=%.17g "
                "loop_iters=%d loop_lines=%d loop_passes=%d stale_exits=%d stale_moves=%d stale_increase=%d px_lines=%d ns_lines=%d loop_oracles=%d |%s\n",
                static_cast<int>(C.sessions), static_cast<int>(C.ops), static_cast<int>(C.serious), static_cast<int>(C.nulls),
                static_cast<int>(C.aggregations), static_cast<int>(C.inactive_deleted), static_cast<int>(C.guards), static_cast<int>(C.convs),
                static_cast<int>(C.conv_true), static_cast<int>(C.oracle_checks), static_cast<int>(C.mirrors), static_cast<int>(C.mirror_ops),
                static_cast<int>(C.runs), static_cast<int>(C.converged), static_cast<int>(C.e1), static_cast<int>(C.fails), static_cast<int>(C.kfails),
                static_cast<int>(C.ell_events), static_cast<int>(C.ell_printed), C.ell_max_m, static_cast<int>(C.loop_iters), static_cast<int>(C.loop_lines),
                static_cast<int>(C.loop_passes), static_cast<int>(C.stale_exits), static_cast<int>(C.stale_moves), static_cast<int>(C.stale_increase),
                static_cast<int>(C.px_lines), static_cast<int>(C.ns_lines), static_cast<int>(C.loop_oracles), h.c_str());
    return 0;
}
