// C11 harness: early-stopping monitor (exhaustive + random histories), gboost::result_t bookkeeping in the shape of the
// boosting loop, and fitted linear / gradient-boosting models whose stored statistics are recomputed from scratch.
//
// lines (consumed by ocaml/c11_driver.ml, which recomputes them with the model extracted from Coq):
//   ESNEW eps patience | train | valid | errs | losses                       new monitor early_stopping_t{values}
//   ES depth size | errs | losses = done round value | errs | losses         done(...) on the state reached at `depth`
//   LOOP eps patience max_rounds | train | valid | errs;losses | ev#ev.. = round nkept rows value | row#row.. | errs;losses
//   SLOT folds trials | slot(trial,fold) ... (read back through extra())
//   GBH eps patience nvalid | train,valid;train,valid;...                    stored per-round statistics of a fitted fold
//   FIT ...                                                                  summary of one fitted model (not compared)
//   ASM id no= ns= folds= trials= opt= mergeable= ill= refit=                  assembly of the final boosting model (extension stage,
//   ASMPREV id | bias | W;W;..                                                 consumed by ocaml/c11_asm_driver.ml): the state of the
//   ASMFOLD id fold rounds | bias | W;W;.. | P;P;..                            model object before the fit, the fold models of the optimum
//   ASMFINAL id | bias | W;W;.. | P;P;.. | predict() | predict(dirty buffer)   trial and the final model; W = serialised learner (as in the
//   ASMCUT id round rows | W;W;.. | W;W;..                                     the real gboost::result_t::done(round) on fitted learners
//                                                                              C10 harness), P = its predictions from zero on `ns` samples
//   STATREC where kind | v,v,.. | 12 stored numbers                          extension stage STATS: a stored record of a real fit + the per-sample
//                                                                              values recomputed from the stored model (ocaml/c11_stats_driver.ml)
//   FAIL ...                                                                 direct property violation (independent oracle)
//   DONE ...
#include "common.h"
#include <any>
#include <array>
#include <map>
#include <nano/dataset.h>
#include <nano/dataset/iterator.h>
#include <nano/datasource.h>
#include <nano/gboost/early_stopping.h>
#include <nano/gboost/enums.h>
#include <nano/gboost/model.h>
#include <nano/gboost/result.h>
#include <nano/gboost/util.h>
#include <nano/generator/elemwise_identity.h>
#include <nano/linear.h>
#include <nano/linear/result.h>
#include <nano/loss.h>
#include <nano/machine/params.h>
#include <nano/machine/result.h>
#include <nano/splitter.h>
#include <nano/tuner.h>
#include <nano/wlearner.h>
#include <nano/wlearner/affine.h>
#include <nano/wlearner/criterion.h>
#include <nano/wlearner/dtree.h>
#include <nano/wlearner/hinge.h>
#include <nano/wlearner/stump.h>
#include <nano/wlearner/table.h>

using namespace nano;

namespace
{
using vec_t = std::vector<double>;

long g_lines = 0, g_fails = 0, g_es = 0, g_es_stops = 0, g_es_train_exits = 0, g_es_accepts = 0, g_es_waits = 0;
long g_loops = 0, g_fits = 0, g_fit_checks = 0, g_hist = 0;
long g_rec_facts = 0, g_rec_every = 1; // extension stage STATS: stored records checked / every how many are printed as STATREC

std::string fl(const vec_t& v)
{
    std::string s;
    for (size_t i = 0; i < v.size(); ++i)
    {
        if (i) s += ",";
        s += vh::hexf(v[i]);
    }
    return s;
}
std::string il(const indices_t& v)
{
    std::string s;
    for (tensor_size_t i = 0; i < v.size(); ++i)
    {
        if (i) s += ",";
        s += std::to_string(v(i));
    }
    return s;
}
indices_t mk_indices(const std::vector<tensor_size_t>& v)
{
    indices_t r(static_cast<tensor_size_t>(v.size()));
    for (size_t i = 0; i < v.size(); ++i) r(static_cast<tensor_size_t>(i)) = v[i];
    return r;
}
tensor2d_t mk_values(const vec_t& errs, const vec_t& losses)
{
    tensor2d_t t(2, static_cast<tensor_size_t>(errs.size()));
    for (size_t i = 0; i < errs.size(); ++i)
    {
        t(0, static_cast<tensor_size_t>(i)) = errs[i];
        t(1, static_cast<tensor_size_t>(i)) = losses[i];
    }
    return t;
}
vec_t row_of(const tensor2d_t& t, tensor_size_t r)
{
    vec_t v(static_cast<size_t>(t.size<1>()));
    for (tensor_size_t i = 0; i < t.size<1>(); ++i) v[static_cast<size_t>(i)] = t(r, i);
    return v;
}
bool same_bits(double a, double b)
{
    return std::memcmp(&a, &b, sizeof(double)) == 0;
}
bool same_bits(const vec_t& a, const vec_t& b)
{
    if (a.size() != b.size()) return false;
    for (size_t i = 0; i < a.size(); ++i)
        if (!same_bits(a[i], b[i])) return false;
    return true;
}
void fail(const std::string& msg)
{
    ++g_fails;
    if (g_fails <= 40) std::printf("FAIL %s\n", msg.c_str());
}

// ------------------------------------------------------------------------------------------------------------------
// the property's own oracle for the monitor, written from the statement (independent of the Coq model and of
// early_stopping.cpp): a history is a list of calls; a call "takes a snapshot" iff ... (see below)
// ------------------------------------------------------------------------------------------------------------------
struct call_t
{
    vec_t  errs, losses;
    size_t size{0};
    double train{0}, valid{0}; // means as the monitor must see them (plain left-to-right sum / max(n, 1))
    bool   takes{false};       // filled by the oracle
};
double plain_mean(const vec_t& row, const indices_t& samples)
{
    double s = 0.0;
    for (tensor_size_t i = 0; i < samples.size(); ++i) s = s + row[static_cast<size_t>(samples(i))];
    return s / static_cast<double>(samples.size() > 0 ? samples.size() : 1);
}
struct expect_t
{
    bool   done{false};
    size_t round{0};
    double value{0};
    int    snapshot{-1}; // index of the call whose values are held, -1 = constructor values
};
// expectation for the last call of `h` (takes-flags of earlier calls already filled)
expect_t oracle(std::vector<call_t>& h, double eps, size_t patience, bool novalid)
{
    const auto k = h.size() - 1;
    // latest snapshot strictly before k
    int last = -1;
    for (int j = static_cast<int>(k) - 1; j >= 0; --j)
        if (h[static_cast<size_t>(j)].takes) { last = j; break; }
    const double best  = last < 0 ? std::numeric_limits<double>::max() : h[static_cast<size_t>(last)].valid;
    const size_t round = last < 0 ? 0U : h[static_cast<size_t>(last)].size;
    auto&        c     = h[k];
    const bool   small = c.train < eps;
    const bool   improved = c.valid < best - eps;
    c.takes = small || improved || novalid;
    expect_t e;
    e.done = small || (!c.takes && c.size >= round + patience);
    if (c.takes) { e.round = c.size; e.value = c.valid; e.snapshot = static_cast<int>(k); }
    else { e.round = round; e.value = best; e.snapshot = last; }
    return e;
}

struct escfg_t
{
    double    eps{0};
    size_t    patience{1};
    indices_t train, valid;
    vec_t     errs0, losses0;
};

void print_esnew(const escfg_t& c)
{
    std::printf("ESNEW %s %zu | %s | %s | %s | %s\n", vh::hexf(c.eps).c_str(), c.patience, il(c.train).c_str(),
                il(c.valid).c_str(), fl(c.errs0).c_str(), fl(c.losses0).c_str());
    ++g_lines;
}

std::string describe(const escfg_t& c, const std::vector<call_t>& h)
{
    std::string s = "eps=" + vh::hexf(c.eps) + " patience=" + std::to_string(c.patience) + " train=[" + il(c.train) +
                    "] valid=[" + il(c.valid) + "] calls(size:train_mean:valid_mean)=";
    for (const auto& x : h) s += " " + std::to_string(x.size) + ":" + vh::hexf(x.train) + ":" + vh::hexf(x.valid);
    return s;
}

// one call on `mon` (state reached after h[0..depth-1]); h.back() is the new call; prints the ES line and checks the oracle
bool es_call(gboost::early_stopping_t& mon, const escfg_t& c, std::vector<call_t>& h)
{
    auto&      call   = h.back();
    const auto depth  = h.size() - 1;
    const auto values = mk_values(call.errs, call.losses);
    rwlearners_t wl;
    wl.resize(call.size);
    const bool d = mon.done(values, c.train, c.valid, wl, c.eps, c.patience);
    const auto ve = row_of(mon.values(), 0), vl = row_of(mon.values(), 1);
    std::printf("ES %zu %zu | %s | %s = %d %zu %s | %s | %s\n", depth, call.size, fl(call.errs).c_str(),
                fl(call.losses).c_str(), d ? 1 : 0, mon.round(), vh::hexf(mon.value()).c_str(), fl(ve).c_str(),
                fl(vl).c_str());
    ++g_lines;
    ++g_es;
    // independent oracle
    call.train = plain_mean(call.errs, c.train);
    call.valid = plain_mean(call.errs, c.valid);
    const auto e = oracle(h, c.eps, c.patience, c.valid.size() == 0);
    const auto& xe = e.snapshot < 0 ? c.errs0 : h[static_cast<size_t>(e.snapshot)].errs;
    const auto& xl = e.snapshot < 0 ? c.losses0 : h[static_cast<size_t>(e.snapshot)].losses;
    if (d != e.done || mon.round() != e.round || !same_bits(mon.value(), e.value) || !same_bits(ve, xe) || !same_bits(vl, xl))
    {
        fail("ES monitor deviates from the property: " + describe(c, h) + " => done=" + std::to_string(d) + " round=" +
             std::to_string(mon.round()) + " value=" + vh::hexf(mon.value()) + " values=[" + fl(ve) + "] expected done=" +
             std::to_string(e.done) + " round=" + std::to_string(e.round) + " value=" + vh::hexf(e.value) +
             " values(of call " + std::to_string(e.snapshot) + ")=[" + fl(xe) + "]");
    }
    if (d) ++g_es_stops;
    if (call.train < c.eps) ++g_es_train_exits;
    else if (call.takes) ++g_es_accepts;
    else if (!d) ++g_es_waits;
    return d;
}

struct symbol_t
{
    vec_t errs, losses;
};

void dfs(const gboost::early_stopping_t& mon, const escfg_t& c, const std::vector<symbol_t>& alphabet,
         std::vector<call_t>& h, size_t maxdepth, size_t go_on_after_stop_below)
{
    for (const auto& sym : alphabet)
    {
        auto m = mon;
        call_t call;
        call.errs   = sym.errs;
        call.losses = sym.losses;
        call.size   = h.size(); // as in the boosting loop: the k-th call sees k learners
        h.push_back(call);
        const bool d = es_call(m, c, h);
        if (h.size() < maxdepth && (!d || h.size() < go_on_after_stop_below)) dfs(m, c, alphabet, h, maxdepth, go_on_after_stop_below);
        h.pop_back();
    }
}

// alphabet aimed at the case splits: with eps = 1/4 the validation levels 2, 7/4, 3/2, 1 give improvements of exactly eps
// (not accepted) and of more than eps; training means 1/4 (== eps, no exit) and 1/8 (< eps, exit)
std::vector<symbol_t> boundary_alphabet(const escfg_t& c, size_t n)
{
    const double tr[5] = {1.0, 0.5, 0.25, 0.5, 0.125};
    const double va[5] = {2.0, 1.75, 1.5, 1.0, 3.0};
    std::vector<symbol_t> a;
    for (int s = 0; s < 5; ++s)
    {
        symbol_t sym;
        sym.errs.assign(n, 0.0);
        sym.losses.assign(n, 0.0);
        // train samples: t+1/4, t-1/8, t-1/8 (sum 3t, exact), valid: v+1/2, v-1/2
        const double dt[3] = {0.25, -0.125, -0.125};
        for (tensor_size_t i = 0; i < c.train.size(); ++i) sym.errs[static_cast<size_t>(c.train(i))] = tr[s] + dt[i % 3];
        const double dv[2] = {0.5, -0.5};
        for (tensor_size_t i = 0; i < c.valid.size(); ++i) sym.errs[static_cast<size_t>(c.valid(i))] = va[s] + dv[i % 2];
        if (c.valid.size() == 0) sym.errs[1] = va[s], sym.errs[4] = va[s] * 0.5;
        for (size_t i = 0; i < n; ++i) sym.losses[i] = sym.errs[i] * 2.0 + static_cast<double>(i + 1) / 16.0 + s;
        a.push_back(sym);
    }
    return a;
}

// seeded alphabet: validation means around 2 + eps * m / 2 (m integer), training means around {eps/2, eps, 2 eps, 3/4, 1},
// per-sample values perturbed with full-precision doubles (rounding in the mean is part of the comparison)
std::vector<symbol_t> seeded_alphabet(const escfg_t& c, size_t n, vh::rng_t& rng)
{
    std::vector<symbol_t> a;
    const int exit_symbol = static_cast<int>(rng.range(0, 7)); // >= 5: no train-error exit in this alphabet
    for (int s = 0; s < 5; ++s)
    {
        symbol_t sym;
        sym.errs.assign(n, 0.0);
        sym.losses.assign(n, 0.0);
        const double e  = c.eps > 0 ? c.eps : 0.125;
        const double v  = 2.0 + e * static_cast<double>(rng.range(-6, 6)) / 2.0;
        const double tc[4] = {c.eps, 2.0 * e, 0.75, 1.0};
        const double t  = s == exit_symbol ? 0.5 * c.eps : tc[rng.range(0, 3)];
        for (size_t i = 0; i < n; ++i) sym.errs[i] = rng.unit();
        for (tensor_size_t i = 0; i < c.train.size(); ++i)
            sym.errs[static_cast<size_t>(c.train(i))] = t * (rng.range(0, 2) == 0 ? 1.0 : 1.0 + (rng.unit() - 0.5) * 1e-3);
        for (tensor_size_t i = 0; i < c.valid.size(); ++i)
            sym.errs[static_cast<size_t>(c.valid(i))] = v * (rng.range(0, 2) == 0 ? 1.0 : 1.0 + (rng.unit() - 0.5) * 1e-3);
        for (size_t i = 0; i < n; ++i) sym.losses[i] = rng.unit() * 4.0;
        a.push_back(sym);
    }
    return a;
}

void es_exhaustive(vh::rng_t& rng, size_t depth_boundary, size_t depth_seeded)
{
    for (int alpha = 0; alpha < 2; ++alpha)
        for (size_t patience = 1; patience <= 4; ++patience)
            for (int with_valid = 1; with_valid >= 0; --with_valid)
            {
                escfg_t c;
                const size_t n = 5;
                c.patience = patience;
                c.train    = mk_indices({0, 2, 3});
                c.valid    = with_valid ? mk_indices({1, 4}) : mk_indices({});
                const double epss[4] = {0.0, 0.125, 0.25, 1e-6};
                c.eps = alpha == 0 ? 0.25 : epss[rng.range(0, 3)];
                c.errs0.assign(n, 0.0);
                c.losses0.assign(n, 0.0);
                for (size_t i = 0; i < n; ++i) c.errs0[i] = 8.0 + static_cast<double>(i), c.losses0[i] = 16.0 + static_cast<double>(i);
                const auto alphabet = alpha == 0 ? boundary_alphabet(c, n) : seeded_alphabet(c, n, rng);
                print_esnew(c);
                gboost::early_stopping_t mon{mk_values(c.errs0, c.losses0)};
                std::vector<call_t>      h;
                const auto depth = alpha == 0 ? depth_boundary : depth_seeded;
                // without validation samples every call takes a snapshot (nothing to explore deeper than a few calls)
                dfs(mon, c, alphabet, h, with_valid ? depth : std::min<size_t>(depth, 4), depth >= 3 ? depth - 2 : 0);
            }
}

void es_random(vh::rng_t& rng, int count)
{
    for (int it = 0; it < count; ++it)
    {
        escfg_t c;
        const auto n = static_cast<size_t>(rng.range(1, 8));
        const double epss[7] = {0.0, 1e-12, 1e-6, 0.01, 0.125, 0.25, 1.0};
        c.eps      = epss[rng.range(0, 6)];
        c.patience = static_cast<size_t>(rng.range(0, 20) == 0 ? 0 : rng.range(1, 6));
        std::vector<tensor_size_t> tr, va;
        const int mode = static_cast<int>(rng.range(0, 9));
        for (size_t i = 0; i < n; ++i)
        {
            // mostly a partition of the samples, sometimes overlapping / repeated / unsorted index lists
            if (mode < 7) { (rng.range(0, 2) == 0 ? va : tr).push_back(static_cast<tensor_size_t>(i)); }
            else { tr.push_back(rng.range(0, static_cast<int64_t>(n) - 1)); if (rng.range(0, 1)) va.push_back(rng.range(0, static_cast<int64_t>(n) - 1)); }
        }
        if (mode == 0) va.clear();                       // refit: no validation samples
        if (tr.empty() && rng.range(0, 3) != 0) tr.push_back(0); // empty training set (mean 0) only sometimes
        c.train = mk_indices(tr);
        c.valid = mk_indices(va);
        c.errs0.assign(n, 0.0);
        c.losses0.assign(n, 0.0);
        for (size_t i = 0; i < n; ++i) c.errs0[i] = rng.unit() * 3, c.losses0[i] = rng.unit() * 3;
        print_esnew(c);
        gboost::early_stopping_t mon{mk_values(c.errs0, c.losses0)};
        std::vector<call_t>      h;
        const auto len       = static_cast<size_t>(rng.range(1, 40));
        const bool go_on     = rng.range(0, 1) == 0;
        const int  size_mode = static_cast<int>(rng.range(0, 5)); // 0..3 as in the loop, 4 jumps, 5 arbitrary
        const auto turn      = static_cast<double>(rng.range(1, 30)); // validation curve turns up here (over-fitting)
        const double scale   = rng.range(0, 30) == 0 ? 1e308 : (rng.range(0, 4) == 0 ? c.eps * 4 : 1.0);
        const double floor_t = rng.range(0, 2) == 0 ? 0.0 : c.eps * (0.5 + rng.unit());
        size_t size = 0;
        for (size_t k = 0; k < len; ++k)
        {
            call_t call;
            const auto x = static_cast<double>(k);
            const double vmean = scale * (0.2 + 0.02 * (x - turn) * (x - turn) * (0.5 + rng.unit()));
            const double tmean = floor_t + scale * 2.0 / (1.0 + x * rng.unit());
            call.errs.assign(n, 0.0);
            call.losses.assign(n, 0.0);
            for (size_t i = 0; i < n; ++i) call.errs[i] = rng.unit(), call.losses[i] = rng.unit() * 5;
            for (auto i : tr) call.errs[static_cast<size_t>(i)] = tmean * (0.5 + rng.unit());
            for (auto i : va) call.errs[static_cast<size_t>(i)] = rng.range(0, 3) == 0 ? vmean : vmean * (0.9 + 0.2 * rng.unit());
            // plateau: repeat the previous validation values exactly (improvement 0) or shifted by exactly eps
            if (k > 0 && rng.range(0, 4) == 0)
                for (auto i : va) call.errs[static_cast<size_t>(i)] = h.back().errs[static_cast<size_t>(i)] - (rng.range(0, 1) ? c.eps : 0.0);
            if (size_mode <= 3) size = k;
            else if (size_mode == 4) size += static_cast<size_t>(rng.range(0, 2));
            else size = static_cast<size_t>(rng.range(0, 12));
            call.size = size;
            h.push_back(call);
            const bool d = es_call(mon, c, h);
            if (d && !go_on) break;
        }
    }
}

// ------------------------------------------------------------------------------------------------------------------
// gboost::result_t + early_stopping_t composed as in the boosting loop of src/gboost/model.cpp (public classes only)
// ------------------------------------------------------------------------------------------------------------------
void loop_random(vh::rng_t& rng, int count)
{
    const auto proto = wlearner_t::all().get("stump"); // stumps never merge: the number of kept learners is observable
    for (int it = 0; it < count; ++it)
    {
        const auto n = static_cast<size_t>(rng.range(2, 6));
        std::vector<tensor_size_t> tr, va;
        for (size_t i = 0; i < n; ++i) (rng.range(0, 2) == 0 ? va : tr).push_back(static_cast<tensor_size_t>(i));
        if (tr.empty()) tr.push_back(0);
        if (rng.range(0, 7) == 0) va.clear();
        const auto train = mk_indices(tr), valid = mk_indices(va);
        const double epss[5] = {1e-12, 1e-6, 0.01, 0.125, 0.25};
        const double eps      = epss[rng.range(0, 4)];
        const auto   patience = static_cast<size_t>(rng.range(1, 4));
        auto         max_rounds = static_cast<tensor_size_t>(rng.range(0, 12));
        const auto   nev      = static_cast<size_t>(rng.range(0, 14));
        const auto   turn     = static_cast<double>(rng.range(0, 10));
        const double floor_t  = rng.range(0, 2) == 0 ? 1.0 : 0.0;

        auto gen_values = [&](double x, vec_t& errs, vec_t& losses)
        {
            errs.assign(n, 0.0);
            losses.assign(n, 0.0);
            const double q  = 1.0 / 64.0;
            const double vm = 0.25 + 0.03125 * (x - turn) * (x - turn);
            const double tm = floor_t + 2.0 / (1.0 + x);
            for (auto i : tr) errs[static_cast<size_t>(i)] = std::floor((tm * (0.5 + rng.unit())) / q) * q;
            for (auto i : va) errs[static_cast<size_t>(i)] = std::floor((vm * (0.9 + 0.2 * rng.unit())) / q) * q;
            for (size_t i = 0; i < n; ++i) losses[i] = rng.unit() * 3;
        };

        vec_t e0, l0;
        gen_values(0.0, e0, l0);
        std::string evs;
        struct evt { int kind; vec_t errs, losses; };
        std::vector<evt> events;
        for (size_t k = 0; k < nev; ++k)
        {
            evt e;
            const auto r = rng.range(0, 19);
            e.kind = r == 0 ? 1 : (r == 1 ? 2 : 0); // 0 round, 1 scaling failure, 2 no fit
            if (e.kind == 0) gen_values(static_cast<double>(k + 1), e.errs, e.losses);
            events.push_back(e);
            if (k) evs += " # ";
            evs += e.kind == 0 ? ("R " + fl(e.errs) + ";" + fl(e.losses)) : (e.kind == 1 ? "F" : "N");
        }
        std::printf("LOOP %s %zu %" PRId64 " | %s | %s | %s;%s | %s", vh::hexf(eps).c_str(), patience,
                    static_cast<int64_t>(max_rounds), il(train).c_str(), il(valid).c_str(), fl(e0).c_str(), fl(l0).c_str(),
                    evs.c_str());

        // --- as in ::fit of src/gboost/model.cpp
        const auto state  = solver_state_t{};
        auto       values = mk_values(e0, l0);
        auto       result = gboost::result_t{&values, &train, &valid, max_rounds + 1};
        result.update(0, 1.0, state);
        auto optimum = gboost::early_stopping_t{values};
        if (optimum.done(values, train, valid, result.m_wlearners, eps, patience)) max_rounds = 0;
        std::vector<tensor2d_t> seen{values}; // values after round r (independent record for the direct check)
        for (tensor_size_t round = 0; round < max_rounds && static_cast<size_t>(round) < events.size(); ++round)
        {
            const auto& e = events[static_cast<size_t>(round)];
            if (e.kind == 2) break;
            if (e.kind == 1) { result.update(round + 1, 1.0, state, proto->clone()); break; }
            values = mk_values(e.errs, e.losses);
            seen.push_back(values);
            result.update(round + 1, 1.0, state, proto->clone());
            if (optimum.done(values, train, valid, result.m_wlearners, eps, patience)) break;
        }
        const auto appended = result.m_wlearners.size();
        result.done(static_cast<tensor_size_t>(optimum.round()));
        // ---
        const auto rows = result.m_statistics.size<0>();
        std::printf(" = %zu %zu %" PRId64 " %s |", optimum.round(), result.m_wlearners.size(), static_cast<int64_t>(rows),
                    vh::hexf(optimum.value()).c_str());
        for (tensor_size_t r = 0; r < rows; ++r)
            std::printf("%s%s,%s,%s,%s", r ? " # " : " ", vh::hexf(result.m_statistics(r, 0)).c_str(),
                        vh::hexf(result.m_statistics(r, 1)).c_str(), vh::hexf(result.m_statistics(r, 2)).c_str(),
                        vh::hexf(result.m_statistics(r, 3)).c_str());
        std::printf(" | %s;%s\n", fl(row_of(optimum.values(), 0)).c_str(), fl(row_of(optimum.values(), 1)).c_str());
        ++g_lines;
        ++g_loops;

        // direct checks (property, not model): the kept number of learners is the reported round, round + 1 statistics
        // rows are kept, the last kept row and the monitor's per-sample values are those of round `round`
        const auto R = optimum.round();
        bool ok = R <= appended && result.m_wlearners.size() == R && static_cast<size_t>(rows) == R + 1 && R < seen.size();
        if (ok)
        {
            const auto& v = seen[R];
            ok = same_bits(row_of(optimum.values(), 0), row_of(v, 0)) && same_bits(row_of(optimum.values(), 1), row_of(v, 1)) &&
                 same_bits(result.m_statistics(static_cast<tensor_size_t>(R), 0), plain_mean(row_of(v, 0), train)) &&
                 same_bits(result.m_statistics(static_cast<tensor_size_t>(R), 2), plain_mean(row_of(v, 0), valid)) &&
                 same_bits(result.m_statistics(static_cast<tensor_size_t>(R), 1), plain_mean(row_of(v, 1), train)) &&
                 same_bits(result.m_statistics(static_cast<tensor_size_t>(R), 3), plain_mean(row_of(v, 1), valid)) &&
                 same_bits(optimum.value(), plain_mean(row_of(v, 0), valid));
        }
        if (!ok)
            fail("LOOP kept learners/rows/values do not match the reported round: round=" + std::to_string(R) + " appended=" +
                 std::to_string(appended) + " kept=" + std::to_string(result.m_wlearners.size()) + " rows=" + std::to_string(rows) +
                 " eps=" + vh::hexf(eps) + " patience=" + std::to_string(patience) + " max_rounds=" + std::to_string(max_rounds) +
                 " train=[" + il(train) + "] valid=[" + il(valid) + "] events=" + evs);
    }
}

// FITPART-BEGIN
// ------------------------------------------------------------------------------------------------------------------
// fitted models: every stored statistic is recomputed from scratch by predicting with the stored model
// ------------------------------------------------------------------------------------------------------------------
class mem_datasource_t final : public datasource_t
{
public:
    mem_datasource_t(tensor_size_t samples, features_t features, size_t target, std::vector<vec_t> columns)
        : datasource_t("c11-mem")
        , m_samples(samples)
        , m_features(std::move(features))
        , m_target(target)
        , m_columns(std::move(columns))
    {
    }
    rdatasource_t clone() const override { return std::make_unique<mem_datasource_t>(*this); }

private:
    void do_load() override
    {
        datasource_t::resize(m_samples, m_features, m_target);
        for (size_t f = 0; f < m_features.size(); ++f)
            for (tensor_size_t s = 0; s < m_samples; ++s)
            {
                const auto v = m_columns[f][static_cast<size_t>(s)];
                if (std::isnan(v)) continue; // missing value
                if (m_features[f].type() == feature_type::sclass) set(s, static_cast<tensor_size_t>(f), static_cast<int32_t>(v));
                else set(s, static_cast<tensor_size_t>(f), v);
            }
    }
    tensor_size_t      m_samples;
    features_t         m_features;
    size_t             m_target;
    std::vector<vec_t> m_columns;
};

bool close_to(double a, double b, double tol = 1e-9)
{
    if (std::isnan(a) || std::isnan(b)) return std::isnan(a) && std::isnan(b);
    if (std::isinf(a) || std::isinf(b)) return a == b;
    return std::fabs(a - b) <= tol * (1.0 + std::max(std::fabs(a), std::fabs(b)));
}

// (error|loss, sample) of the given outputs, computed sample range by sample range with the loss itself
tensor2d_t errors_losses(const dataset_t& dataset, const indices_t& samples, const loss_t& loss, const tensor4d_t& outputs)
{
    tensor2d_t values(2, samples.size());
    auto       it = targets_iterator_t{dataset, samples};
    it.batch(7);
    it.scaling(scaling_type::none);
    it.loop([&](tensor_range_t range, size_t, tensor4d_cmap_t targets)
            {
                loss.error(targets, outputs.slice(range), values.tensor(0).slice(range));
                loss.value(targets, outputs.slice(range), values.tensor(1).slice(range));
            });
    return values;
}

std::array<double, 12> stats_of(const tensor2d_t& values, tensor_size_t row)
{
    // mean and count by hand, the rest through the same public routine on the recomputed values
    tensor1d_t v(values.size<1>());
    for (tensor_size_t i = 0; i < v.size(); ++i) v(i) = values(row, i);
    tensor1d_t st(12);
    ml::store_stats(v.tensor(), st.tensor());
    std::array<double, 12> r{};
    for (int i = 0; i < 12; ++i) r[static_cast<size_t>(i)] = st(i);
    double s = 0;
    for (tensor_size_t i = 0; i < v.size(); ++i) s += v(i);
    r[0] = v.size() > 0 ? s / static_cast<double>(v.size()) : r[0];
    r[2] = static_cast<double>(v.size());
    // the deviation the library reports is sqrt(population variance / (n - 1)); recomputed here with the two-pass formula
    // (never negative under the root), independently of tensor_t::variance()
    double q = 0;
    for (tensor_size_t i = 0; i < v.size(); ++i) q += (v(i) - r[0]) * (v(i) - r[0]);
    r[1] = v.size() > 1 ? std::sqrt(q / static_cast<double>(v.size()) / static_cast<double>(v.size() - 1)) : 0.0;
    return r;
}
std::array<double, 12> stats_of(const ml::stats_t& s)
{
    return {s.m_mean,  s.m_stdev, s.m_count, s.m_per01, s.m_per05, s.m_per10,
            s.m_per20, s.m_per50, s.m_per80, s.m_per90, s.m_per95, s.m_per99};
}
tensor2d_t select(const tensor2d_t& values, const indices_t& samples)
{
    tensor2d_t r(2, samples.size());
    for (tensor_size_t i = 0; i < samples.size(); ++i) r(0, i) = values(0, samples(i)), r(1, i) = values(1, samples(i));
    return r;
}
// classification errors are 0/1: an output within 1e-6 of a decision boundary may flip under re-association of sums
bool fragile_outputs(const tensor4d_t& outputs)
{
    const auto n = outputs.size<0>();
    const auto k = outputs.size() / std::max<tensor_size_t>(n, 1);
    for (tensor_size_t i = 0; i < n; ++i)
    {
        double best = -1e300, second = -1e300;
        for (tensor_size_t j = 0; j < k; ++j)
        {
            const auto o = outputs.data()[i * k + j];
            if (std::fabs(o) < 1e-6) return true;
            if (o > best) { second = best; best = o; }
            else if (o > second) second = o;
        }
        if (k > 1 && best - second < 1e-6) return true;
    }
    return false;
}

// outputs of a boosting model (bias + every weak learner's prediction) together with the per-output sum of the absolute
// contributions: when that sum exceeds the output by orders of magnitude (diverged fits: huge terms cancelling), any
// re-association of the sum (merged learners, fold averaging) changes the output itself and nothing can be compared
struct gbout_t
{
    tensor4d_t out, mag;
    bool       ill{false};
};
long g_ill = 0, g_sd_skipped = 0, g_nan_fails = 0;
long g_nan_fit_fails = 0;
void fail_nan(const std::string& msg, bool from_fit = false)
{
    ++g_fails;
    ++g_nan_fails;
    if (from_fit) ++g_nan_fit_fails;
    // separate print budgets: the constant-vector cases come first and must not hide the fitted folds
    if (from_fit ? g_nan_fit_fails <= 10 : g_nan_fails - g_nan_fit_fails <= 3) std::printf("FAIL %s\n", msg.c_str());
}
gbout_t gb_outputs(const dataset_t& dataset, const indices_t& all, const tensor1d_t& bias, const rwlearners_t& ws)
{
    gbout_t r;
    r.out = tensor4d_t(cat_dims(all.size(), dataset.target_dims()));
    r.mag = tensor4d_t(cat_dims(all.size(), dataset.target_dims()));
    r.out.reshape(all.size(), -1).matrix().rowwise() = bias.vector().transpose();
    r.mag.reshape(all.size(), -1).matrix().rowwise() = bias.vector().transpose().cwiseAbs();
    tensor4d_t tmp(cat_dims(all.size(), dataset.target_dims()));
    for (const auto& w : ws)
    {
        w->predict(dataset, all, r.out.tensor());
        tmp.zero();
        w->predict(dataset, all, tmp.tensor());
        for (tensor_size_t i = 0; i < tmp.size(); ++i) r.mag.data()[i] += std::fabs(tmp.data()[i]);
    }
    // diverged model (targets are of unit scale): contributions beyond 1e6, possibly cancelling inside a single learner
    // (w * x + b with |w|, |b| ~ 1e87 was observed with the exponential loss on separable data)
    for (tensor_size_t i = 0; i < r.out.size(); ++i)
        if (!(r.mag.data()[i] <= 1e6) || !(r.mag.data()[i] <= 1e4 * (1.0 + std::fabs(r.out.data()[i])))) r.ill = true;
    return r;
}

struct fitctx_t
{
    std::string what; // replayable description of the configuration
    bool        classification{false};
};

void check_stats(const fitctx_t& ctx, const std::string& where, const ml::stats_t& stored, const tensor2d_t& recomputed,
                 tensor_size_t row, bool fragile)
{
    ++g_fit_checks;
    const auto a = stats_of(stored);
    const auto b = stats_of(recomputed, row);
    // extension stage STATS: the sanity facts a reader can check on the stored record itself (C11_stats_order_facts), on every
    // stored record of every real fit: count = number of samples, the percentile columns are non-decreasing, the deviation is not
    // negative; and, when the recomputed per-sample values are comparable, mean and percentiles lie between their min and max
    {
        ++g_rec_facts;
        const auto n = recomputed.size<1>();
        const std::string rec = where + " " + (row == 0 ? "errors" : "losses") + " ;; " + ctx.what;
        if (a[2] != static_cast<double>(n)) fail("STATREC stored count " + vh::hexf(a[2]) + " is not the number of samples " + std::to_string(n) + ": " + rec);
        for (size_t i = 4; i < 12; ++i)
            if (!std::isnan(a[i - 1]) && !std::isnan(a[i]) && !(a[i - 1] <= a[i]))
                fail("STATREC stored percentile columns are not ordered: column " + std::to_string(i - 1) + " = " + vh::hexf(a[i - 1]) + " > column " + std::to_string(i) + " = " + vh::hexf(a[i]) + ": " + rec);
        if (!std::isnan(a[1]) && a[1] < 0.0) fail("STATREC stored deviation " + vh::hexf(a[1]) + " is negative: " + rec);
        bool finite = n > 0;
        double mn = 0.0, mx = 0.0;
        for (tensor_size_t i = 0; i < n; ++i)
        {
            const auto x = recomputed(row, i);
            finite = finite && std::isfinite(x);
            mn = i == 0 ? x : std::min(mn, x), mx = i == 0 ? x : std::max(mx, x);
        }
        if (finite && !(row == 0 && ctx.classification && fragile))
        {
            const double tol = 1e-9 * (1.0 + std::max(std::fabs(mn), std::fabs(mx)));
            for (size_t i = 0; i < 12; ++i)
                if (i != 1 && i != 2 && !(a[i] >= mn - tol && a[i] <= mx + tol))
                    fail("STATREC stored column " + std::to_string(i) + " = " + vh::hexf(a[i]) + " is outside [min, max] = [" + vh::hexf(mn) + ", " + vh::hexf(mx) + "] of the per-sample values: " + rec);
            // ... and the record itself goes to the model (ocaml/c11_stats_driver.ml): the statistics of the per-sample values of the
            // stored model on exactly the fold's samples, computed by the extracted store_stats
            if (g_rec_every <= 1 || g_rec_facts % g_rec_every == 0)
            {
                std::string vs;
                for (tensor_size_t i = 0; i < n; ++i) vs += (i ? "," : "") + vh::hexf(recomputed(row, i));
                std::string rs;
                for (size_t i = 0; i < 12; ++i) rs += (i ? "," : "") + vh::hexf(a[i]);
                std::printf("STATREC %s %s | %s | %s\n", where.c_str(), row == 0 ? "errors" : "losses", vs.c_str(), rs.c_str());
            }
        }
    }
    if (row == 0 && ctx.classification && fragile) return;
    static const char* names[12] = {"mean", "stdev", "count", "per01", "per05", "per10", "per20", "per50", "per80", "per90", "per95", "per99"};
    // the deviation is compared on every vector, constant ones included. tensor_t::variance() is the one-pass E[x^2] - mean^2 (clamped
    // at 0 since b0b87e4): its absolute error is <= n u max|x|^2, hence |stdev error| <= sqrt(u n / (n - 1)) max|x| ~ 1.5e-8 max|x|.
    // A NaN deviation stored for finite per-sample values is the defect repaired by b0b87e4 (reported with its own tag); values beyond
    // 1e150 (squares overflow) are not comparable.
    double maxabs = 0.0;
    bool   finite = true;
    for (tensor_size_t i = 0; i < recomputed.size<1>(); ++i)
    {
        finite = finite && std::isfinite(recomputed(row, i));
        maxabs = std::max(maxabs, std::fabs(recomputed(row, i)));
    }
    const bool sd_comparable = finite && maxabs <= 1e150;
    if (!sd_comparable) ++g_sd_skipped;
    for (size_t i = 0; i < 12; ++i)
    {
        if (i == 1)
        {
            if (!sd_comparable) continue;
            if (std::isnan(a[1]))
            {
                fail_nan("STDEVNAN stored m_stdev is NaN although the " + std::to_string(recomputed.size<1>()) + " per-sample values of a fitted fold are finite (|x| <= " +
                         vh::hexf(maxabs) + ", recomputed deviation " + vh::hexf(b[1]) + "): " + where + " " + (row == 0 ? "errors" : "losses") + " ;; " + ctx.what, true);
                return;
            }
            if (std::fabs(a[1] - b[1]) <= 2e-7 * (1.0 + maxabs) || close_to(a[1], b[1], 1e-7)) continue;
        }
        else if (close_to(a[i], b[i], 1e-9)) continue;
        fail("FIT stored statistic differs from the recomputation: " + where + " " + (row == 0 ? "errors." : "losses.") + names[i] +
             " stored=" + vh::hexf(a[i]) + " recomputed=" + vh::hexf(b[i]) + " ;; " + ctx.what);
        return;
    }
}

// the property's reading of a stored (train error, validation error) history: replaying it, the monitor must not have
// stopped before the last stored round, and the last stored round must be the one it reports
void check_history(const fitctx_t& ctx, const std::string& where, const tensor2d_t& st, double eps, size_t patience, tensor_size_t nvalid)
{
    ++g_hist;
    std::string rows;
    for (tensor_size_t r = 0; r < st.size<0>(); ++r) rows += (r ? ";" : "") + vh::hexf(st(r, 0)) + "," + vh::hexf(st(r, 2));
    std::printf("GBH %s %zu %" PRId64 " | %s\n", vh::hexf(eps).c_str(), patience, static_cast<int64_t>(nvalid), rows.c_str());
    ++g_lines;
    double best = std::numeric_limits<double>::max();
    tensor_size_t round = 0, R = st.size<0>() - 1;
    for (tensor_size_t k = 0; k <= R; ++k)
    {
        const bool small = st(k, 0) < eps;
        const bool takes = small || st(k, 2) < best - eps || nvalid == 0;
        const bool stop  = small || (!takes && static_cast<size_t>(k) >= static_cast<size_t>(round) + patience);
        if (takes) { best = st(k, 2); round = k; }
        if (stop && k < R)
        {
            fail("FIT the stored history of " + where + " stops at round " + std::to_string(k) + " before the kept round " + std::to_string(R) +
                 " rows(train,valid)=" + rows + " ;; " + ctx.what);
            return;
        }
    }
    if (round != R)
        fail("FIT the kept round " + std::to_string(R) + " of " + where + " is not the last accepted round " + std::to_string(round) +
             " rows(train,valid)=" + rows + " ;; " + ctx.what);
}

struct data_t
{
    std::unique_ptr<mem_datasource_t> source;
    std::unique_ptr<dataset_t>        dataset;
    std::string                       desc;
    bool                              classification{false};
};

bool g_force_constant_target = false; // next dataset: all targets equal (every fold then reports equal per-sample values)

data_t make_data(vh::rng_t& rng, bool classification, bool for_linear)
{
    data_t d;
    const auto n       = static_cast<tensor_size_t>(rng.range(24, 96));
    const auto nscalar = static_cast<size_t>(rng.range(2, 4));
    const auto nclass  = for_linear ? 0U : static_cast<size_t>(rng.range(0, 2));
    features_t features;
    std::vector<vec_t> cols;
    for (size_t f = 0; f < nscalar; ++f)
    {
        features.push_back(feature_t{"x" + std::to_string(f)}.scalar(feature_type::float64));
        vec_t c(static_cast<size_t>(n));
        for (auto& v : c) v = std::round((rng.unit() * 4.0 - 2.0) * 64.0) / 64.0;
        cols.push_back(c);
    }
    for (size_t f = 0; f < nclass; ++f)
    {
        const auto k = rng.range(2, 6);
        strings_t labels;
        for (int64_t j = 0; j < k; ++j) labels.push_back("c" + std::to_string(j));
        features.push_back(feature_t{"s" + std::to_string(f)}.sclass(labels));
        vec_t c(static_cast<size_t>(n));
        for (auto& v : c) v = static_cast<double>(rng.range(0, k - 1));
        cols.push_back(c);
    }
    // planted target: every scalar feature contributes an affine or a step component, s0 a table, plus noise (so that several
    // rounds are needed and the validation error turns up at some round)
    const double b = rng.unit() - 0.5, step = rng.unit() * 2;
    const double noise = rng.range(0, 3) == 0 ? 0.0 : rng.unit() * 0.6;
    std::vector<std::array<double, 3>> comp;
    for (size_t f = 0; f < nscalar; ++f) comp.push_back({static_cast<double>(rng.range(0, 2)), rng.unit() * 2 - 1, rng.unit() * 2 - 1});
    // the first categorical feature contributes a table of additive effects (non-monotone in the label, some nearly equal: the
    // k-split table then groups the labels, and differently from fold to fold / round to round)
    double ctab[8];
    for (auto& v : ctab) v = rng.range(0, 2) == 0 ? 0.7 : (rng.range(0, 1) ? -0.7 : 0.05 * static_cast<double>(rng.range(-2, 2)));
    vec_t t(static_cast<size_t>(n));
    for (size_t s = 0; s < t.size(); ++s)
    {
        double y = b + noise * (rng.unit() * 2 - 1);
        for (size_t f = 0; f < nscalar; ++f)
            y += comp[f][0] < 1.0 ? comp[f][1] * cols[f][s] : (comp[f][0] < 2.0 ? (cols[f][s] < comp[f][2] ? 0.0 : step * comp[f][1]) : 0.0);
        if (nclass > 0) y += ctab[static_cast<size_t>(cols[nscalar][s])];
        t[s] = classification ? (y > b ? 1.0 : 0.0) : y;
    }
    const bool constant_target = !classification && (g_force_constant_target || rng.range(0, 15) == 0);
    g_force_constant_target    = false;
    if (constant_target)
        for (auto& y : t) y = 0.1 * static_cast<double>(rng.range(1, 30));
    if (classification) features.push_back(feature_t{"target"}.sclass(strings_t{"neg", "pos"}));
    else features.push_back(feature_t{"target"}.scalar(feature_type::float64));
    cols.push_back(t);
    const auto itarget = features.size() - 1;
    d.source = std::make_unique<mem_datasource_t>(n, features, itarget, cols);
    d.source->load();
    d.dataset = std::make_unique<dataset_t>(*d.source);
    d.dataset->add<sclass_identity_generator_t>();
    d.dataset->add<scalar_identity_generator_t>();
    d.classification = classification;
    d.desc = "data(n=" + std::to_string(n) + ",scalar=" + std::to_string(nscalar) + ",sclass=" + std::to_string(nclass) +
             ",noise=" + vh::hexf(noise) + (classification ? ",binary" : (constant_target ? ",constant-target" : ",regression")) + ")";
    return d;
}

template <class tpred>
tensor4d_t predict_by(const dataset_t& dataset, const indices_t& samples, const tpred& pred)
{
    tensor4d_t outputs(cat_dims(samples.size(), dataset.target_dims()));
    outputs.zero();
    pred(outputs);
    return outputs;
}

ml::params_t make_fit_params(vh::rng_t& rng, std::string& desc, rsplitter_t& splitter)
{
    const auto folds = rng.range(2, 5);
    const auto sname = rng.range(0, 3) == 0 ? "random" : "k-fold";
    splitter         = splitter_t::all().get(sname);
    splitter->parameter("splitter::folds") = folds;
    splitter->parameter("splitter::seed")  = rng.range(0, 1024);
    const auto tname = rng.range(0, 1) == 0 ? "local-search" : "surrogate";
    auto tuner       = tuner_t::all().get(tname);
    tuner->parameter("tuner::max_evals") = rng.range(10, 14);
    auto solver = solver_t::all().get("lbfgs");
    solver->parameter("solver::max_evals") = rng.range(30, 120);
    solver->parameter("solver::epsilon")   = 1e-6;
    desc += std::string(" splitter=") + sname + " folds=" + std::to_string(folds) + " tuner=" + tname;
    return ml::params_t{}.splitter(*splitter).tuner(*tuner).solver(*solver).logger(make_null_logger());
}


// ---- extension stage "assemble": serialisation of boosting models for the model driver -------------------------------
std::string hexs(const double* p, tensor_size_t n)
{
    std::string s;
    for (tensor_size_t i = 0; i < n; ++i) s += (i ? "," : "") + vh::hexf(p[i]);
    return s;
}
std::string tables_str(const tensor4d_t& t)
{
    std::string s;
    const auto  per = t.size<0>() > 0 ? t.size() / t.size<0>() : 0;
    for (tensor_size_t i = 0; i < t.size<0>(); ++i) s += (i ? "/" : "") + hexs(t.data() + i * per, per);
    return s;
}
// W: affine:f:w/b   stump:f:thr:lo/hi   hinge:f:thr:left|right:w/b   table:f:hashes:h2t:t/t/..   dtree:f_thr_next_table~..:t/t/..
std::string wstr(const wlearner_t& w)
{
    if (const auto* p = dynamic_cast<const affine_wlearner_t*>(&w)) return "affine:" + std::to_string(p->feature()) + ":" + tables_str(p->tables());
    if (const auto* p = dynamic_cast<const stump_wlearner_t*>(&w))
        return "stump:" + std::to_string(p->feature()) + ":" + vh::hexf(p->threshold()) + ":" + tables_str(p->tables());
    if (const auto* p = dynamic_cast<const hinge_wlearner_t*>(&w))
        return "hinge:" + std::to_string(p->feature()) + ":" + vh::hexf(p->threshold()) + ":" + (p->hinge() == hinge_type::left ? "left" : "right") + ":" +
               tables_str(p->tables());
    if (const auto* p = dynamic_cast<const table_wlearner_t*>(&w))
    {
        std::string hs, hm;
        for (tensor_size_t i = 0; i < p->hashes().size(); ++i) hs += (i ? "," : "") + std::to_string(static_cast<unsigned long long>(p->hashes()(i)));
        for (tensor_size_t i = 0; i < p->hash2tables().size(); ++i) hm += (i ? "," : "") + std::to_string(static_cast<long long>(p->hash2tables()(i)));
        return "table:" + std::to_string(p->feature()) + ":" + hs + ":" + hm + ":" + tables_str(p->tables());
    }
    if (const auto* p = dynamic_cast<const dtree_wlearner_t*>(&w))
    {
        std::string ns;
        for (size_t i = 0; i < p->nodes().size(); ++i)
        {
            const auto& n = p->nodes()[i];
            ns += (i ? "~" : "") + std::to_string(n.m_feature) + "_" + vh::hexf(n.m_threshold) + "_" + std::to_string(n.m_next) + "_" + std::to_string(n.m_table);
        }
        return "dtree:" + ns + ":" + tables_str(p->tables());
    }
    return "unknown";
}
std::string wsstr(const rwlearners_t& ws)
{
    std::string s;
    for (const auto& w : ws) s += (s.empty() ? "" : ";") + wstr(*w);
    return s.empty() ? "-" : s;
}
std::string biasstr(const tensor1d_t& b)
{
    return b.size() == 0 ? std::string("-") : hexs(b.data(), b.size());
}
// rows `chosen` of a (samples, ...) tensor as sample-major csv
std::string rowsstr(const tensor4d_t& t, const indices_t& chosen)
{
    std::string s;
    const auto  per = t.size<0>() > 0 ? t.size() / t.size<0>() : 0;
    for (tensor_size_t i = 0; i < chosen.size(); ++i) s += (i ? "," : "") + hexs(t.data() + chosen(i) * per, per);
    return s;
}
// predictions from zero of every learner on the chosen samples: P;P;..  (P = sample-major csv). NB: every learner predicts ALL the
// samples and the chosen rows are printed: dtree_wlearner_t::do_predict on a sample list that leaves an inner node without samples
// reads min()/max() of an empty index tensor (dataset_t::check) -- see notes/C11.md
std::string predsstr(const dataset_t& dataset, const indices_t& all, const indices_t& chosen, const rwlearners_t& ws)
{
    std::string s;
    tensor4d_t  tmp(cat_dims(all.size(), dataset.target_dims()));
    for (const auto& w : ws)
    {
        tmp.zero();
        w->predict(dataset, all, tmp.tensor());
        s += (s.empty() ? "" : ";") + rowsstr(tmp, chosen);
    }
    return s.empty() ? "-" : s;
}
long g_asm = 0, g_asm_refits = 0, g_asm_merged = 0, g_asm_cuts = 0;
int  g_force_pool_mask = 0; // next boosting fit: this pool (0 = random)

void fit_gboost(vh::rng_t& rng)
{
    const bool classification = (rng.range(0, 3) == 0) && !g_force_constant_target;
    auto       data           = make_data(rng, classification, false);
    const auto& dataset       = *data.dataset;
    const char* rlosses[] = {"mse", "mae", "cauchy"};
    const char* closses[] = {"s-logistic", "s-hinge", "s-classnll", "s-exponential"};
    const std::string lname = classification ? closses[rng.range(0, 3)] : rlosses[rng.range(0, 2)];
    const auto loss = loss_t::all().get(lname);

    auto model = gboost_model_t{};
    const char* wscales[]    = {"gboost", "tboost"};
    const char* shrinkages[] = {"off", "off", "global", "local"};
    const char* subsamples[] = {"off", "off", "subsample", "bootstrap", "wei_loss_bootstrap", "wei_grad_bootstrap"};
    const auto  wscale = wscales[rng.range(0, 1)], shrinkage = shrinkages[rng.range(0, 3)], subsample = subsamples[rng.range(0, 5)];
    const double epss[] = {1e-12, 1e-6, 1e-3, 1e-2, 0.05};
    const auto   eps = epss[rng.range(0, 4)];
    const auto   patience = rng.range(1, 4), max_rounds = rng.range(10, 24);
    model.parameter("gboost::wscale")     = wscale;
    model.parameter("gboost::shrinkage")  = shrinkage;
    model.parameter("gboost::subsample")  = subsample;
    model.parameter("gboost::subsample_ratio") = 0.5 + 0.5 * rng.unit();
    model.parameter("gboost::epsilon")    = eps;
    model.parameter("gboost::patience")   = patience;
    model.parameter("gboost::max_rounds") = max_rounds;
    model.parameter("gboost::batch")      = rng.range(10, 40);
    model.parameter("gboost::seed")       = rng.range(0, 1024);
    // pool of weak learners; stump/hinge/dtree never merge, affine/dense-table do
    const char* pool[] = {"affine", "stump", "hinge", "dense-table", "dtree", "ksplit-table", "kbest-table", "dstep-table"};
    rwlearners_t protos;
    std::string  pdesc;
    bool         mergeable = false;
    // half of the fits use the five basic learners, the other half may add the k-split / k-best / discrete-step tables
    const auto   rmask     = rng.range(0, 1) == 0 ? rng.range(1, 31) : rng.range(1, 255);
    const auto   mask      = g_force_pool_mask != 0 ? static_cast<int64_t>(g_force_pool_mask) : rmask;
    g_force_pool_mask      = 0;
    for (int i = 0; i < 8; ++i)
        if (mask & (1 << i))
        {
            protos.emplace_back(wlearner_t::all().get(pool[i]));
            if (i >= 5 && rng.range(0, 1) == 0) protos.back()->parameter("wlearner::criterion") = rng.range(0, 1) == 0 ? wlearner_criterion::aicc : wlearner_criterion::bic;
            pdesc += std::string(pdesc.empty() ? "" : "+") + pool[i];
            if (i == 0 || i == 3 || i >= 5) mergeable = true;
        }
    model.prototypes(protos);

    fitctx_t ctx;
    ctx.classification = classification;
    ctx.what = "gboost " + data.desc + " loss=" + lname + " wscale=" + wscale + " shrinkage=" + shrinkage + " subsample=" + subsample +
               " eps=" + vh::hexf(eps) + " patience=" + std::to_string(patience) + " max_rounds=" + std::to_string(max_rounds) +
               " pool=" + pdesc;
    rsplitter_t splitter;
    const auto  fit_params = make_fit_params(rng, ctx.what, splitter);
    // fit on a subset of the samples sometimes (the stored statistics are about `samples`, not the whole dataset)
    indices_t samples = arange(0, dataset.samples());
    if (rng.range(0, 2) == 0)
    {
        std::vector<tensor_size_t> sub;
        for (tensor_size_t i = 0; i < dataset.samples(); ++i)
            if (rng.range(0, 4) != 0) sub.push_back(i);
        samples = mk_indices(sub);
        ctx.what += " subset=" + std::to_string(sub.size());
    }
    ctx.what += " seed=" + std::to_string(vh::env_seed()) + " fit#" + std::to_string(g_fits);

    // one fit in three is followed by a second fit of the SAME model object (identical configuration): every clause must
    // hold again -- the final model of a re-fit is the fold average of ITS optimum trial, nothing of the first fit survives
    const int passes = rng.range(0, 2) == 0 ? 2 : 1;
    for (int pass = 0; pass < passes; ++pass)
    {
    if (pass > 0) ctx.what += " REFIT-of-the-same-model-object";
    ml::result_t result;
    // extension stage: the state the model object is in when fit() is called (empty on a fresh object, the first fit's model on a re-fit)
    const auto asm_prev_bias = biasstr(model.bias());
    const auto asm_prev_ws   = wsstr(model.wlearners());
    const auto asm_prev_n    = model.wlearners().size();
    try { result = model.fit(dataset, samples, *loss, fit_params); }
    catch (const std::exception& e)
    {
        // a valid configuration must fit: an exception here means stored statistics went missing on the way (e.g. the tuner
        // reads NaN for a trial that was never stored)
        fail(std::string("FIT fitting a valid configuration throws: ") + e.what() + " ;; " + ctx.what);
        return;
    }
    ++g_fits;

    const auto all     = arange(0, dataset.samples());
    const auto splits  = splitter->split(samples);
    const auto folds   = result.folds();
    const auto trials  = result.trials();
    if (static_cast<size_t>(folds) != splits.size()) fail("FIT folds " + std::to_string(folds) + " != splits ;; " + ctx.what);

    std::vector<std::vector<gbout_t>> fold_outputs(static_cast<size_t>(trials));
    long rounds_total = 0, early = 0;
    for (tensor_size_t trial = 0; trial < trials; ++trial)
        for (tensor_size_t fold = 0; fold < folds; ++fold)
        {
            const auto where = "trial " + std::to_string(trial) + "/" + std::to_string(trials) + " fold " + std::to_string(fold) + "/" + std::to_string(folds);
            const auto* pg = std::any_cast<gboost::result_t>(&result.extra(trial, fold));
            if (pg == nullptr) { fail("FIT no fold model stored for " + where + " ;; " + ctx.what); continue; }
            // the boosting model's prediction is its bias plus the sum of its weak learners' predictions
            const auto gbo     = gb_outputs(dataset, all, pg->m_bias, pg->m_wlearners);
            const auto& outputs = gbo.out;
            fold_outputs[static_cast<size_t>(trial)].push_back(gbo);
            const auto& st = pg->m_statistics;
            const auto  R  = st.size<0>() - 1;
            if (gbo.ill)
            {
                // diverged fold model: only the exact, prediction-free checks
                ++g_ill;
                if (R >= 0 && R <= max_rounds && st.size<1>() == 8) check_history(ctx, where, st, eps, static_cast<size_t>(patience), splits[static_cast<size_t>(fold)].second.size());
                continue;
            }
            const auto values  = errors_losses(dataset, all, *loss, outputs);
            const auto fragile = classification && fragile_outputs(outputs);
            const auto& [tr, vd] = splits[static_cast<size_t>(fold)];
            const auto trv = select(values, tr), vdv = select(values, vd);
            check_stats(ctx, where + " train", result.stats(trial, fold, ml::split_type::train, ml::value_type::errors), trv, 0, fragile);
            check_stats(ctx, where + " train", result.stats(trial, fold, ml::split_type::train, ml::value_type::losses), trv, 1, fragile);
            check_stats(ctx, where + " valid", result.stats(trial, fold, ml::split_type::valid, ml::value_type::errors), vdv, 0, fragile);
            check_stats(ctx, where + " valid", result.stats(trial, fold, ml::split_type::valid, ml::value_type::losses), vdv, 1, fragile);
            // the statistics table keeps rounds 0..R, R = the monitor's round = number of weak learners kept
            rounds_total += R;
            if (R < max_rounds) ++early;
            ++g_fit_checks;
            if (R < 0 || R > max_rounds || st.size<1>() != 8) { fail("FIT statistics table has " + std::to_string(R + 1) + " rows for " + where + " ;; " + ctx.what); continue; }
            const auto nl = static_cast<tensor_size_t>(pg->m_wlearners.size());
            if (nl > R || (!mergeable && nl != R))
                fail("FIT " + where + " keeps " + std::to_string(nl) + " weak learners but its statistics end at round " + std::to_string(R) + " ;; " + ctx.what);
            const double want[4] = {stats_of(trv, 0)[0], stats_of(trv, 1)[0], stats_of(vdv, 0)[0], stats_of(vdv, 1)[0]};
            for (int c = 0; c < 4; ++c)
            {
                if ((c == 0 || c == 2) && fragile) continue;
                if (!close_to(st(R, c), want[c]))
                    fail("FIT last kept statistics row (round " + std::to_string(R) + ", column " + std::to_string(c) + ") of " + where + " = " + vh::hexf(st(R, c)) +
                         " but the stored model gives " + vh::hexf(want[c]) + " ;; " + ctx.what);
            }
            check_history(ctx, where, st, eps, static_cast<size_t>(patience), vd.size());
        }

    // optimum trial = first trial with the smallest mean (over folds) validation error
    tensor_size_t best_trial = 0;
    double        best_value = std::numeric_limits<double>::max();
    for (tensor_size_t trial = 0; trial < trials; ++trial)
    {
        double s = 0.0;
        for (tensor_size_t fold = 0; fold < folds; ++fold) s += result.stats(trial, fold, ml::split_type::valid, ml::value_type::errors).m_mean;
        s /= static_cast<double>(folds);
        ++g_fit_checks;
        if (!close_to(s, result.value(trial), 1e-12)) fail("FIT value(trial " + std::to_string(trial) + ") is not the mean of the fold means ;; " + ctx.what);
        if (s < best_value) { best_value = s; best_trial = trial; }
    }
    const auto opt = result.optimum_trial();
    if (opt != best_trial && !close_to(result.value(opt), best_value, 1e-12))
        fail("FIT optimum trial " + std::to_string(opt) + " is not the best trial " + std::to_string(best_trial) + " ;; " + ctx.what);

    // final model: predicts the average of the per-fold models of the optimum trial; final statistics from its predictions
    const auto outputs = model.predict(dataset, all);
    const auto gbfinal = gb_outputs(dataset, all, model.bias(), model.wlearners());
    {
        ++g_fit_checks;
        const auto& fo = fold_outputs[static_cast<size_t>(opt)];
        bool any_ill = gbfinal.ill;
        for (const auto& o : fo) any_ill = any_ill || o.ill;
        if (any_ill) ++g_ill;
        for (tensor_size_t i = 0; i < outputs.size() && fo.size() == static_cast<size_t>(folds) && !any_ill; ++i)
        {
            double s = 0.0, mag = 0.0;
            for (const auto& o : fo) s += o.out.data()[i], mag += o.mag.data()[i];
            s /= static_cast<double>(folds);
            mag /= static_cast<double>(folds);
            // tolerance relative to the size of the summed terms (the fold models' learners are re-associated by the merge)
            if (!(std::fabs(outputs.data()[i] - s) <= 1e-9 * (1.0 + mag)) && !(std::isnan(outputs.data()[i]) && std::isnan(s)))
            {
                fail("FIT final model output " + std::to_string(i) + " = " + vh::hexf(outputs.data()[i]) + " is not the average " + vh::hexf(s) +
                     " of the fold models of trial " + std::to_string(opt) + " ;; " + ctx.what);
                break;
            }
        }
        // bias + sum of weak learners (public accessors)
        const auto& manual = gbfinal.out; // same order of summation as do_predict: compared tightly
        for (tensor_size_t i = 0; i < outputs.size(); ++i)
            if (!close_to(outputs.data()[i], manual.data()[i], 1e-12))
            {
                fail("FIT predict() differs from bias + sum of weak learners at output " + std::to_string(i) + " ;; " + ctx.what);
                break;
            }
    }
    // (the final statistics come from predict() itself: same summation order, comparable even for diverged models)
    const auto values  = errors_losses(dataset, all, *loss, outputs);
    const auto fragile = classification && fragile_outputs(outputs);
    const auto selv    = select(values, samples);
    check_stats(ctx, "final", result.stats(ml::value_type::errors), selv, 0, fragile);
    check_stats(ctx, "final", result.stats(ml::value_type::losses), selv, 1, fragile);
    const auto ev = model.evaluate(dataset, samples, *loss);
    ++g_fit_checks;
    for (tensor_size_t i = 0; i < samples.size(); ++i)
        if ((!fragile && !close_to(ev(0, i), selv(0, i))) || !close_to(ev(1, i), selv(1, i)))
        {
            fail("FIT evaluate() differs from the recomputation at sample " + std::to_string(samples(i)) + " ;; " + ctx.what);
            break;
        }

    // ---- extension stage "assemble": the fold models of the optimum trial, the final model, per-learner predictions ----
    {
        ++g_asm;
        if (pass > 0) ++g_asm_refits;
        const auto id = std::to_string(g_asm);
        const auto no = ::nano::size(dataset.target_dims());
        // at most 32 samples, evenly spaced (every theorem is per sample)
        std::vector<tensor_size_t> pick;
        const auto stride = std::max<tensor_size_t>(1, (all.size() + 31) / 32);
        for (tensor_size_t i = static_cast<tensor_size_t>(g_asm) % stride; i < all.size(); i += stride) pick.push_back(i);
        const auto chosen = mk_indices(pick);
        bool       any_ill = gbfinal.ill;
        for (const auto& o : fold_outputs[static_cast<size_t>(opt)]) any_ill = any_ill || o.ill;
        std::printf("ASM %s no=%" PRId64 " ns=%" PRId64 " folds=%" PRId64 " trials=%" PRId64 " opt=%" PRId64 " mergeable=%d ill=%d refit=%d ;; %s\n", id.c_str(),
                    static_cast<int64_t>(no), static_cast<int64_t>(chosen.size()), static_cast<int64_t>(folds), static_cast<int64_t>(trials),
                    static_cast<int64_t>(opt), mergeable ? 1 : 0, any_ill ? 1 : 0, pass, ctx.what.c_str());
        std::printf("ASMPREV %s | %s | %s\n", id.c_str(), asm_prev_bias.c_str(), asm_prev_ws.c_str());
        size_t       fold_learners = 0;
        tensor1d_t   bias_sum(no);
        bias_sum.zero();
        bool         have_all = true;
        for (tensor_size_t fold = 0; fold < folds; ++fold)
        {
            const auto* pg = std::any_cast<gboost::result_t>(&result.extra(opt, fold));
            if (pg == nullptr) { have_all = false; continue; }
            fold_learners += pg->m_wlearners.size();
            if (pg->m_bias.size() == no) bias_sum.vector() += pg->m_bias.vector();
            std::printf("ASMFOLD %s %" PRId64 " %" PRId64 " | %s | %s | %s\n", id.c_str(), static_cast<int64_t>(fold),
                        static_cast<int64_t>(pg->m_statistics.size<0>() - 1), biasstr(pg->m_bias).c_str(), wsstr(pg->m_wlearners).c_str(),
                        predsstr(dataset, all, chosen, pg->m_wlearners).c_str());
        }
        // predict() into a fresh buffer and into a buffer that holds something else: the row must be assigned, not accumulated into
        const auto clean = model.predict(dataset, all);
        tensor4d_t dirty(cat_dims(all.size(), dataset.target_dims()));
        dirty.full(7.25);
        model.predict(dataset, all, dirty.tensor());
        std::printf("ASMFINAL %s | %s | %s | %s | %s | %s\n", id.c_str(), biasstr(model.bias()).c_str(), wsstr(model.wlearners()).c_str(),
                    predsstr(dataset, all, chosen, model.wlearners()).c_str(), rowsstr(clean, chosen).c_str(), rowsstr(dirty, chosen).c_str());
        g_lines += 3 + folds;
        // the cut-back on the real gboost::result_t with the learners this fit produced (repetitions: mergeable pairs, in any position)
        {
            std::vector<const wlearner_t*> from;
            for (tensor_size_t fold = 0; fold < folds; ++fold)
                if (const auto* pg = std::any_cast<gboost::result_t>(&result.extra(opt, fold)); pg != nullptr)
                    for (const auto& w : pg->m_wlearners) from.push_back(w.get());
            for (int rep = 0; rep < 2 && !from.empty(); ++rep)
            {
                const auto n = rng.range(1, 9);
                auto       res = gboost::result_t{nullptr, nullptr, nullptr, static_cast<tensor_size_t>(n)};
                // a few distinct learners, so that equal ones meet
                const auto distinct = rng.range(1, 4);
                std::vector<const wlearner_t*> few;
                for (int64_t k = 0; k < distinct; ++k) few.push_back(from[static_cast<size_t>(rng.range(0, static_cast<int64_t>(from.size()) - 1))]);
                for (int64_t k = 0; k < n; ++k) res.m_wlearners.emplace_back(few[static_cast<size_t>(rng.range(0, distinct - 1))]->clone());
                const auto round  = static_cast<tensor_size_t>(rng.range(0, n));
                const auto before = wsstr(res.m_wlearners);
                // sum of the predictions of the first `round` learners
                tensor4d_t want(cat_dims(all.size(), dataset.target_dims())), wmag(cat_dims(all.size(), dataset.target_dims())), tmp(cat_dims(all.size(), dataset.target_dims()));
                want.zero();
                wmag.zero();
                for (tensor_size_t k = 0; k < round; ++k)
                {
                    tmp.zero();
                    res.m_wlearners[static_cast<size_t>(k)]->predict(dataset, all, tmp.tensor());
                    for (tensor_size_t i = 0; i < tmp.size(); ++i) want.data()[i] += tmp.data()[i], wmag.data()[i] += std::fabs(tmp.data()[i]);
                }
                res.done(round);
                std::printf("ASMCUT %s %" PRId64 " %" PRId64 " | %s | %s\n", id.c_str(), static_cast<int64_t>(round), static_cast<int64_t>(res.m_statistics.size<0>()),
                            before.c_str(), wsstr(res.m_wlearners).c_str());
                ++g_lines;
                ++g_asm_cuts;
                ++g_fit_checks;
                tensor4d_t got(cat_dims(all.size(), dataset.target_dims()));
                got.zero();
                for (const auto& w : res.m_wlearners) w->predict(dataset, all, got.tensor());
                bool bad = static_cast<tensor_size_t>(res.m_wlearners.size()) > round || res.m_statistics.size<0>() != round + 1;
                for (tensor_size_t i = 0; i < got.size() && !bad; ++i)
                    bad = std::isfinite(want.data()[i]) && !(std::fabs(got.data()[i] - want.data()[i]) <= 1e-9 * (1.0 + wmag.data()[i]));
                if (bad)
                    fail("ASM gboost::result_t::done(" + std::to_string(round) + ") on " + before + " keeps " + wsstr(res.m_wlearners) + " with " +
                         std::to_string(res.m_statistics.size<0>()) + " statistics rows: not (the merge of) the learners of the first " + std::to_string(round) +
                         " rounds ;; " + ctx.what);
            }
        }
        // direct oracles on the implementation (independent of the Coq model)
        ++g_fit_checks;
        for (tensor_size_t i = 0; i < clean.size(); ++i)
            if (!same_bits(clean.data()[i], dirty.data()[i]) && !(std::isnan(clean.data()[i]) && std::isnan(dirty.data()[i])))
            {
                fail("ASM predict() into a buffer holding 7.25 gives " + vh::hexf(dirty.data()[i]) + " at output " + std::to_string(i) + " but " +
                     vh::hexf(clean.data()[i]) + " into a zeroed buffer: the outputs are accumulated into, not assigned ;; " + ctx.what);
                break;
            }
        if (have_all)
        {
            ++g_fit_checks;
            for (tensor_size_t o = 0; o < no; ++o)
                if (model.bias().size() != no || !close_to(model.bias()(o), bias_sum(o) / static_cast<double>(folds), 1e-12))
                {
                    fail("ASM final bias " + biasstr(model.bias()) + " is not the average of the " + std::to_string(folds) + " fold biases (sum " + biasstr(bias_sum) +
                         ") of trial " + std::to_string(opt) + " ;; " + ctx.what);
                    break;
                }
            // learners: all the fold learners, fewer only through merging; nothing of the model the object held before
            const auto nf = model.wlearners().size();
            if (nf < fold_learners) ++g_asm_merged;
            if (nf > fold_learners || (!mergeable && nf != fold_learners))
                fail("ASM the final model has " + std::to_string(nf) + " weak learners, the fold models of trial " + std::to_string(opt) + " have " +
                     std::to_string(fold_learners) + " together (the object held " + std::to_string(asm_prev_n) + " before fit) ;; " + ctx.what);
        }
    }
    std::printf("FIT gboost trials=%" PRId64 " folds=%" PRId64 " opt=%" PRId64 " mean_rounds=%.2f early_stopped=%ld/%" PRId64 " final_learners=%zu ;; %s\n",
                static_cast<int64_t>(trials), static_cast<int64_t>(folds), static_cast<int64_t>(opt),
                static_cast<double>(rounds_total) / static_cast<double>(trials * folds), early, static_cast<int64_t>(trials * folds),
                model.wlearners().size(), ctx.what.c_str());
    }
}

void fit_linear(vh::rng_t& rng)
{
    const bool classification = (rng.range(0, 3) == 0) && !g_force_constant_target;
    auto       data           = make_data(rng, classification, true);
    const auto& dataset       = *data.dataset;
    const char* rlosses[] = {"mse", "mae", "cauchy"};
    const char* closses[] = {"s-logistic", "s-hinge", "s-classnll", "s-exponential"};
    const std::string lname = classification ? closses[rng.range(0, 3)] : rlosses[rng.range(0, 2)];
    const auto loss = loss_t::all().get(lname);
    const char* kinds[] = {"ordinary", "lasso", "ridge", "elastic_net"};
    const std::string kind = kinds[rng.range(0, 3)];
    auto model = linear_t::all().get(kind);
    const char* scalings[] = {"none", "mean", "minmax", "standard"};
    const auto  scaling = scalings[rng.range(0, 3)];
    model->parameter("linear::scaling") = scaling;
    model->parameter("linear::batch")   = rng.range(10, 40);

    fitctx_t ctx;
    ctx.classification = classification;
    ctx.what = "linear " + kind + " " + data.desc + " loss=" + lname + " scaling=" + scaling;
    rsplitter_t splitter;
    const auto  fit_params = make_fit_params(rng, ctx.what, splitter);
    indices_t samples = arange(0, dataset.samples());
    if (rng.range(0, 2) == 0)
    {
        std::vector<tensor_size_t> sub;
        for (tensor_size_t i = 0; i < dataset.samples(); ++i)
            if (rng.range(0, 4) != 0) sub.push_back(i);
        samples = mk_indices(sub);
        ctx.what += " subset=" + std::to_string(sub.size());
    }
    ctx.what += " seed=" + std::to_string(vh::env_seed()) + " fit#" + std::to_string(g_fits);

    ml::result_t result;
    try { result = model->fit(dataset, samples, *loss, fit_params); }
    catch (const std::exception& e)
    {
        // a valid configuration must fit: an exception here means stored statistics went missing on the way (e.g. the tuner
        // reads NaN for a trial that was never stored)
        fail(std::string("FIT fitting a valid configuration throws: ") + e.what() + " ;; " + ctx.what);
        return;
    }
    ++g_fits;

    const auto all    = arange(0, dataset.samples());
    const auto splits = splitter->split(samples);
    const auto folds  = result.folds();
    const auto trials = result.trials();
    // flatten inputs of all samples (no scaling)
    tensor2d_t inputs(dataset.samples(), dataset.columns());
    {
        auto it = flatten_iterator_t{dataset, all};
        it.scaling(scaling_type::none);
        it.batch(5);
        it.loop([&](tensor_range_t range, size_t, tensor2d_cmap_t flatten) { inputs.slice(range) = flatten; });
    }
    bool       linear_ill = false; // set by linear_outputs when the terms of W x + b cancel by more than 4 orders of magnitude
    const auto linear_outputs = [&](const tensor2d_t& weights, const tensor1d_t& bias)
    {
        return predict_by(dataset, all, [&](tensor4d_t& o)
        {
            const auto tsize = bias.size();
            for (tensor_size_t i = 0; i < all.size(); ++i)
                for (tensor_size_t t = 0; t < tsize; ++t)
                {
                    double s = 0.0, mag = std::fabs(bias(t));
                    for (tensor_size_t c = 0; c < weights.cols(); ++c) s += inputs(i, c) * weights(t, c), mag += std::fabs(inputs(i, c) * weights(t, c));
                    o.data()[i * tsize + t] = s + bias(t);
                    if (!(mag <= 1e6) || !(mag <= 1e4 * (1.0 + std::fabs(s + bias(t))))) linear_ill = true;
                }
        });
    };
    for (tensor_size_t trial = 0; trial < trials; ++trial)
        for (tensor_size_t fold = 0; fold < folds; ++fold)
        {
            const auto where = "trial " + std::to_string(trial) + "/" + std::to_string(trials) + " fold " + std::to_string(fold) + "/" + std::to_string(folds);
            const auto* pl = std::any_cast<linear::result_t>(&result.extra(trial, fold));
            if (pl == nullptr) { fail("FIT no fold model stored for " + where + " ;; " + ctx.what); continue; }
            linear_ill = false;
            const auto outputs = linear_outputs(pl->m_weights, pl->m_bias);
            if (linear_ill) { ++g_ill; continue; }
            const auto values  = errors_losses(dataset, all, *loss, outputs);
            const auto fragile = classification && fragile_outputs(outputs);
            const auto& [tr, vd] = splits[static_cast<size_t>(fold)];
            const auto trv = select(values, tr), vdv = select(values, vd);
            check_stats(ctx, where + " train", result.stats(trial, fold, ml::split_type::train, ml::value_type::errors), trv, 0, fragile);
            check_stats(ctx, where + " train", result.stats(trial, fold, ml::split_type::train, ml::value_type::losses), trv, 1, fragile);
            check_stats(ctx, where + " valid", result.stats(trial, fold, ml::split_type::valid, ml::value_type::errors), vdv, 0, fragile);
            check_stats(ctx, where + " valid", result.stats(trial, fold, ml::split_type::valid, ml::value_type::losses), vdv, 1, fragile);
        }
    tensor_size_t best_trial = 0;
    double        best_value = std::numeric_limits<double>::max();
    for (tensor_size_t trial = 0; trial < trials; ++trial)
    {
        double s = 0.0;
        for (tensor_size_t fold = 0; fold < folds; ++fold) s += result.stats(trial, fold, ml::split_type::valid, ml::value_type::errors).m_mean;
        s /= static_cast<double>(folds);
        ++g_fit_checks;
        if (!close_to(s, result.value(trial), 1e-12)) fail("FIT value(trial " + std::to_string(trial) + ") is not the mean of the fold means ;; " + ctx.what);
        if (s < best_value) { best_value = s; best_trial = trial; }
    }
    const auto opt = result.optimum_trial();
    if (opt != best_trial && !close_to(result.value(opt), best_value, 1e-12))
        fail("FIT optimum trial " + std::to_string(opt) + " is not the best trial " + std::to_string(best_trial) + " ;; " + ctx.what);

    // final (refitted) model: extra() holds it, the model predicts with it, the final statistics come from it
    const auto* pf = std::any_cast<linear::result_t>(&result.extra());
    ++g_fit_checks;
    if (pf == nullptr) fail("FIT no refitted model stored ;; " + ctx.what);
    else
    {
        bool same = pf->m_bias.size() == model->bias().size() && pf->m_weights.size() == model->weights().size();
        for (tensor_size_t i = 0; same && i < pf->m_bias.size(); ++i) same = same_bits(pf->m_bias(i), model->bias()(i));
        for (tensor_size_t i = 0; same && i < pf->m_weights.size(); ++i) same = same_bits(pf->m_weights.data()[i], model->weights().data()[i]);
        if (!same) fail("FIT the refitted model in extra() is not the model's bias/weights ;; " + ctx.what);
    }
    const auto outputs = model->predict(dataset, all);
    linear_ill = false;
    const auto manual  = linear_outputs(model->weights(), model->bias());
    ++g_fit_checks;
    if (linear_ill) ++g_ill;
    for (tensor_size_t i = 0; i < outputs.size() && !linear_ill; ++i)
        if (!close_to(outputs.data()[i], manual.data()[i], 1e-9))
        {
            fail("FIT predict() differs from weights * x + bias at output " + std::to_string(i) + " ;; " + ctx.what);
            break;
        }
    const auto values  = errors_losses(dataset, all, *loss, outputs);
    const auto fragile = classification && fragile_outputs(outputs);
    const auto selv    = select(values, samples);
    check_stats(ctx, "final", result.stats(ml::value_type::errors), selv, 0, fragile);
    check_stats(ctx, "final", result.stats(ml::value_type::losses), selv, 1, fragile);
    std::printf("FIT linear trials=%" PRId64 " folds=%" PRId64 " opt=%" PRId64 " ;; %s\n", static_cast<int64_t>(trials),
                static_cast<int64_t>(folds), static_cast<int64_t>(opt), ctx.what.c_str());
}

// ml::result_t slots: what store(trial, fold, ..) writes is what stats/extra(trial, fold) read, for every pair
void slots_check(vh::rng_t& rng, int count)
{
    for (int it = 0; it < count; ++it)
    {
        const auto folds = rng.range(1, 6);
        auto result = ml::result_t{param_spaces_t{}, folds};
        tensor_size_t trials = 0;
        const auto batches = rng.range(1, 3);
        for (int64_t b = 0; b < batches; ++b)
        {
            const auto add = rng.range(1, 4);
            result.add(tensor2d_t{add, 0});
            // store in a scrambled order
            std::vector<std::pair<tensor_size_t, tensor_size_t>> order;
            for (tensor_size_t t = trials; t < trials + add; ++t)
                for (tensor_size_t f = 0; f < folds; ++f) order.emplace_back(t, f);
            for (size_t i = order.size(); i > 1; --i) std::swap(order[i - 1], order[static_cast<size_t>(rng.range(0, static_cast<int64_t>(i) - 1))]);
            for (const auto& [t, f] : order)
            {
                const auto id = static_cast<double>(t * 100 + f);
                tensor2d_t tr(2, 3), vd(2, 2);
                tr.full(id);
                vd.full(-id - 1.0);
                result.store(t, f, tr, vd, std::any{static_cast<int>(t * 100 + f)});
            }
            trials += add;
        }
        ++g_fit_checks;
        bool ok = result.trials() == trials && result.folds() == folds;
        for (tensor_size_t t = 0; ok && t < trials; ++t)
            for (tensor_size_t f = 0; ok && f < folds; ++f)
            {
                const auto* p = std::any_cast<int>(&result.extra(t, f));
                ok = p != nullptr && *p == static_cast<int>(t * 100 + f) &&
                     result.stats(t, f, ml::split_type::train, ml::value_type::errors).m_mean == static_cast<double>(t * 100 + f) &&
                     result.stats(t, f, ml::split_type::valid, ml::value_type::losses).m_mean == -static_cast<double>(t * 100 + f) - 1.0 &&
                     result.stats(t, f, ml::split_type::train, ml::value_type::losses).m_count == 3.0 &&
                     result.stats(t, f, ml::split_type::valid, ml::value_type::errors).m_count == 2.0;
                if (!ok) fail("SLOT what was stored for (trial " + std::to_string(t) + ", fold " + std::to_string(f) + ") is not read back; folds=" +
                              std::to_string(folds) + " trials=" + std::to_string(trials));
            }
    }
}

// a fold whose per-sample errors/losses are all equal (what a saturated or perfectly fitted fold reports): the stored
// statistics must be mean = the value, deviation = 0 (within the one-pass tolerance, never NaN), count = n, percentiles = the value
void const_stats_check(vh::rng_t& rng, int random_count)
{
    std::vector<std::pair<double, tensor_size_t>> cases;
    for (tensor_size_t n = 2; n <= 12; ++n)
        for (int k = 1; k <= 40; ++k) cases.emplace_back(static_cast<double>(k) / 10.0, n);
    for (int i = 0; i < random_count; ++i)
        cases.emplace_back((rng.unit() + 0.05) * std::pow(10.0, static_cast<double>(rng.range(-6, 6))), static_cast<tensor_size_t>(rng.range(2, 80)));
    for (const auto& [c, n] : cases)
    {
        auto result = ml::result_t{param_spaces_t{}, 2};
        result.add(tensor2d_t{1, 0});
        tensor2d_t tr(2, n), vd(2, n);
        const double vals[4] = {c, c / 3.0, -c, c * 7.0};
        for (tensor_size_t i = 0; i < n; ++i) tr(0, i) = vals[0], tr(1, i) = vals[1], vd(0, i) = vals[2], vd(1, i) = vals[3];
        result.store(0, 1, tr, vd);
        result.store(tr);
        const ml::stats_t got[6] = {result.stats(0, 1, ml::split_type::train, ml::value_type::errors),
                                    result.stats(0, 1, ml::split_type::train, ml::value_type::losses),
                                    result.stats(0, 1, ml::split_type::valid, ml::value_type::errors),
                                    result.stats(0, 1, ml::split_type::valid, ml::value_type::losses),
                                    result.stats(ml::value_type::errors), result.stats(ml::value_type::losses)};
        const double want[6] = {vals[0], vals[1], vals[2], vals[3], vals[0], vals[1]};
        for (int j = 0; j < 6; ++j)
        {
            ++g_fit_checks;
            const auto& g = got[j];
            const auto  what = "ml::result_t::store of " + std::to_string(n) + " equal per-sample values " + vh::hexf(want[j]) + " (folds=2, trial 0, fold 1, slot " + std::to_string(j) + ")";
            if (std::isnan(g.m_stdev)) { fail_nan("STDEVNAN stored m_stdev is NaN for a constant vector: " + what); continue; }
            if (!close_to(g.m_mean, want[j], 1e-12) || !(std::fabs(g.m_stdev) <= 2e-7 * (1.0 + std::fabs(want[j]))) || g.m_count != static_cast<double>(n) ||
                !close_to(g.m_per50, want[j], 1e-12) || !close_to(g.m_per01, want[j], 1e-12) || !close_to(g.m_per99, want[j], 1e-12))
                fail("CONST stored statistics of a constant vector are wrong: mean=" + vh::hexf(g.m_mean) + " stdev=" + vh::hexf(g.m_stdev) + " count=" +
                     vh::hexf(g.m_count) + " per50=" + vh::hexf(g.m_per50) + " ;; " + what);
        }
    }
}

void fit_search(vh::rng_t& rng, bool thorough)
{
    const_stats_check(rng, thorough ? 3000 : 300);
    slots_check(rng, thorough ? 300 : 60);
    const int n = thorough ? 1500 : 60;
    for (int i = 0; i < n; ++i)
    {
        g_force_constant_target = i == 1 || i == 2 || i == 4; // two boosting fits and a linear one on constant targets in every run
        // extension stage: pools whose fold models certainly / never merge in the final model (1 = affine, 8 = dense table, 2 = stump,
        // 4 = hinge, 32 = k-split table): the outer loop of wlearner::merge stops at the first learner that merges with nobody
        static const int pools[] = {1, 9, 2, 8, 3, 1 | 32, 8 | 32, 6};
        if (i % 3 != 2 && i % 4 == 3) g_force_pool_mask = pools[(i / 4) % 8];
        if (i % 3 == 2) fit_linear(rng);
        else fit_gboost(rng);
    }
}
// FITPART-END

} // namespace

int main(int argc, char** argv)
{
    std::setvbuf(stdout, nullptr, _IOLBF, 0);
    const std::string tier = argc > 1 ? argv[1] : "quick";
    const std::string only = argc > 2 ? argv[2] : "all";
    const bool        thorough = tier == "thorough";
    g_rec_every = thorough ? 12 : 1;
    // NB: consecutive seeds must not give shifted copies of one splitmix stream: hash the seed first
    vh::rng_t boot(vh::env_seed());
    vh::rng_t rng(boot.next() ^ 0xC11C11C11ULL);

    if (only == "all" || only == "es")
    {
        es_exhaustive(rng, thorough ? 8 : 5, thorough ? 7 : 5);
        es_random(rng, thorough ? 20000 : 1500);
    }
    if (only == "all" || only == "loop") loop_random(rng, thorough ? 20000 : 2000);
    if (only == "all" || only == "fit") fit_search(rng, thorough);

    std::printf("DONE lines=%ld fails=%ld es_calls=%ld es_stops=%ld es_train_exits=%ld es_snapshots=%ld es_waits=%ld loops=%ld "
                "fits=%ld fit_checks=%ld histories=%ld illconditioned_models_skipped=%ld stdev_not_comparable=%ld stdev_nan=%ld stdev_nan_in_fits=%ld "
                "asm=%ld asm_refits=%ld asm_final_merged=%ld asm_cuts=%ld stored_records_fact_checked=%ld\n",
                g_lines, g_fails, g_es, g_es_stops, g_es_train_exits, g_es_accepts, g_es_waits, g_loops, g_fits, g_fit_checks,
                g_hist, g_ill, g_sd_skipped, g_nan_fails, g_nan_fit_fails, g_asm, g_asm_refits, g_asm_merged, g_asm_cuts, g_rec_facts);
    return 0;
}
