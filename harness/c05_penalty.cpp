// C05 harness: penalty / augmented-Lagrangian functions, solver_state_t constraint bookkeeping and the
// augmented-Lagrangian solver of the real library on seeded random problems.
//
//   PEN   lines: one constrained function (objective + 0..8 constraints of the 11 kinds), one point, one penalty
//                value, multipliers -> values and gradients of the three penalty objects (+ convex flags)
//   STATE lines: solver_state_t{function, x} / update(x, meq, mineq) -> stored ceq, cineq, kkt tests
//   AL / ALIT / ALEND lines: one run of solver_augmented_lagrangian_t observed through the NANO_VERIF hooks
//                (ev_al_outer values + ev_solver_done / ev_solver_exit of the outer loop)
//   ALO / ALOIT / ALOEND lines (extension "outer"): the initial objective value (make_ro1), the multipliers lambda / miu
//                every inner solve used (read from the augmented_lagrangian_function_t the inner solver minimises),
//                the gradient of the augmented Lagrangian at the inner solution, the multipliers stored in the
//                returned state
//   PS / PSIT / PSEND lines (extension "outer"): one run of solver_linear_penalty_t / solver_quadratic_penalty_t observed
//                through the ev_solver_done / ev_solver_exit events of the outer done() calls and the penalty() of
//                the penalty function seen by the inner solver's done() calls
//   FAIL  lines: direct property oracles coded here independently of the Coq model (long double formulas written
//                from the definitions in penalty.h, own constraint evaluation from the generated parameters)
//   DONE  line : counters / histograms
//
// modes of a PEN/STATE case: X = every quantity is a small integer / half-integer / power-of-two multiple, all double
// operations are exact whatever the evaluation order -> bit-exact comparison; T = random doubles -> tolerance relative
// to the magnitude of the summed terms; K = like T but some constraint value is within rounding of a kink (the
// sub-gradient of the linear penalty is not compared).
//
// usage: c05_penalty <quick|thorough> [npen nal chunk nps]   |   c05_penalty case <pen|al|ps> <index> [chunk]
#include "common.h"
#include <algorithm>
#include <map>
#include <memory>
#include <nano/function/penalty.h>
#include <nano/function/program.h>
#include <nano/logger.h>
#include <nano/solver/augmented.h>
#include <nano/solver/penalty.h>
#include <nano/solver/state.h>
#include <nano/verif.h>

#ifndef NANO_VERIF
    #error "this harness needs the NANO_VERIF hooks"
#endif

using namespace nano;
using ld   = long double;
using dvec = std::vector<double>;
using lvec = std::vector<ld>;

namespace
{
// ------------------------------------------------------------------------------------------------------------
// read-only access to state that the library does not expose (extension "outer")
// ------------------------------------------------------------------------------------------------------------
// solver_state_t::m_meq / m_mineq (the multipliers stored by update(x, lambda, miu)): explicit template instantiation
// may name private members (standard C++, no change of the library)
template <class ttag, typename ttag::type tmember>
struct rob_t
{
    friend typename ttag::type rob_get(ttag) { return tmember; }
};
struct meq_tag_t
{
    using type = vector_t solver_state_t::*;
    friend type rob_get(meq_tag_t);
};
struct mineq_tag_t
{
    using type = vector_t solver_state_t::*;
    friend type rob_get(mineq_tag_t);
};
template struct rob_t<meq_tag_t, &solver_state_t::m_meq>;
template struct rob_t<mineq_tag_t, &solver_state_t::m_mineq>;
const vector_t& state_meq(const solver_state_t& state) { return state.*rob_get(meq_tag_t{}); }
const vector_t& state_mineq(const solver_state_t& state) { return state.*rob_get(mineq_tag_t{}); }

// augmented_lagrangian_function_t::m_lambda / m_miu are reference members (no pointer-to-member exists): they are
// read through the object layout `penalty_function_t base; const vector_t& m_lambda; const vector_t& m_miu;`
// (checked: size of the object, sizes of the two vectors, and - at every improving iteration - equality with the
// multipliers bstate.update(x, lambda, miu) stored in the best state)
static_assert(sizeof(augmented_lagrangian_function_t) == sizeof(penalty_function_t) + 2 * sizeof(void*),
              "layout of augmented_lagrangian_function_t changed: adapt al_multipliers()");
bool al_multipliers(const function_t& function, const vector_t*& lambda, const vector_t*& miu)
{
    const auto* alf = dynamic_cast<const augmented_lagrangian_function_t*>(&function);
    if (alf == nullptr) return false;
    const auto* base = reinterpret_cast<const char*>(static_cast<const penalty_function_t*>(alf)) + sizeof(penalty_function_t);
    std::memcpy(&lambda, base, sizeof(void*));
    std::memcpy(&miu, base + sizeof(void*), sizeof(void*));
    return lambda != nullptr && miu != nullptr;
}

// ------------------------------------------------------------------------------------------------------------
// own objective / functional classes (parameters known to the harness)
// ------------------------------------------------------------------------------------------------------------
// f(x) = 1/2 x.P x + q.x + r, P symmetric (row-major n*n)
class poly_function_t final : public function_t
{
public:
    poly_function_t(dvec P, dvec q, double r, bool is_convex)
        : function_t("poly", static_cast<tensor_size_t>(q.size()))
        , m_P(std::move(P))
        , m_q(std::move(q))
        , m_r(r)
    {
        convex(is_convex ? convexity::yes : convexity::no);
        smooth(smoothness::yes);
    }

    rfunction_t clone() const override { return std::make_unique<poly_function_t>(*this); }

    scalar_t do_vgrad(vector_cmap_t x, vector_map_t gx) const override
    {
        const auto n  = static_cast<size_t>(size());
        double     fx = 0.0;
        for (size_t i = 0; i < n; ++i)
        {
            double pi = 0.0;
            for (size_t j = 0; j < n; ++j)
            {
                pi += m_P[i * n + j] * x(static_cast<tensor_size_t>(j));
            }
            if (gx.size() == x.size())
            {
                gx(static_cast<tensor_size_t>(i)) = pi + m_q[i];
            }
            fx += 0.5 * x(static_cast<tensor_size_t>(i)) * pi + m_q[i] * x(static_cast<tensor_size_t>(i));
        }
        return fx + m_r;
    }

    dvec   m_P, m_q;
    double m_r;
};

// f(x) = sum |x_i| - c   (convex, non-smooth; sub-gradient sign(x), sign(0) = 0)
class sumabs_function_t final : public function_t
{
public:
    sumabs_function_t(tensor_size_t n, double c)
        : function_t("sumabs", n)
        , m_c(c)
    {
        convex(convexity::yes);
        smooth(smoothness::no);
    }

    rfunction_t clone() const override { return std::make_unique<sumabs_function_t>(*this); }

    scalar_t do_vgrad(vector_cmap_t x, vector_map_t gx) const override
    {
        double fx = 0.0;
        for (tensor_size_t i = 0; i < x.size(); ++i)
        {
            fx += std::fabs(x(i));
            if (gx.size() == x.size())
            {
                gx(i) = x(i) > 0.0 ? 1.0 : (x(i) < 0.0 ? -1.0 : 0.0);
            }
        }
        return fx - m_c;
    }

    double m_c;
};

// f(x) = 1/2 x.P x + q.x on the box |x - c|_inf <= B, NaN outside (an objective with a restricted domain: makes the
// inner solver of the penalty solvers return an invalid state -> the `continue` branch of solver_penalty_t::minimize)
class domain_function_t final : public function_t
{
public:
    domain_function_t(dvec P, dvec q, dvec c, double B)
        : function_t("domain", static_cast<tensor_size_t>(q.size()))
        , m_poly(std::move(P), std::move(q), 0.0, true)
        , m_c(std::move(c))
        , m_B(B)
    {
        convex(convexity::no);
        smooth(smoothness::yes);
    }

    rfunction_t clone() const override { return std::make_unique<domain_function_t>(*this); }

    scalar_t do_vgrad(vector_cmap_t x, vector_map_t gx) const override
    {
        for (tensor_size_t i = 0; i < x.size(); ++i)
        {
            if (!(std::fabs(x(i) - m_c[static_cast<size_t>(i)]) <= m_B))
            {
                if (gx.size() == x.size()) gx.full(std::numeric_limits<scalar_t>::quiet_NaN());
                return std::numeric_limits<scalar_t>::quiet_NaN();
            }
        }
        return m_poly.do_vgrad(x, gx);
    }

    poly_function_t m_poly;
    dvec            m_c;
    double          m_B;
};

// ------------------------------------------------------------------------------------------------------------
// constraint descriptions
// ------------------------------------------------------------------------------------------------------------
enum kind_t
{
    k_const, k_min, k_max, k_balleq, k_ballineq, k_lineq, k_linineq, k_quadeq, k_quadineq, k_funeq, k_funineq, k_count
};
const char* const kind_names[] = {"const", "min", "max", "balleq", "ballineq", "lineq", "linineq", "quadeq", "quadineq",
                                  "funeq", "funineq"};
bool own_is_eq(int k) { return k == k_const || k == k_balleq || k == k_lineq || k == k_quadeq || k == k_funeq; }

struct cdesc_t
{
    int         kind{0};
    double      v{0};  // const/min/max value ; ball radius ; linear/quad r
    int         d{0};  // const/min/max dimension
    dvec        o;     // ball origin ; linear/quad q
    dvec        P;     // quad P (row-major)
    rfunction_t fun;   // functional: the wrapped function (own copy, evaluated directly as the oracle)
    std::string fdescr;

    cdesc_t() = default;
    cdesc_t(const cdesc_t& other)
        : kind(other.kind), v(other.v), d(other.d), o(other.o), P(other.P), fun(other.fun ? other.fun->clone() : nullptr),
          fdescr(other.fdescr)
    {
    }
    cdesc_t& operator=(const cdesc_t&) = delete;
    cdesc_t(cdesc_t&&) noexcept            = default;
    cdesc_t& operator=(cdesc_t&&) noexcept = default;
};

vector_t to_vector(const dvec& v)
{
    vector_t out{static_cast<tensor_size_t>(v.size())};
    for (size_t i = 0; i < v.size(); ++i) out(static_cast<tensor_size_t>(i)) = v[i];
    return out;
}

dvec from_vector(const vector_t& v)
{
    dvec out(static_cast<size_t>(v.size()));
    for (size_t i = 0; i < out.size(); ++i) out[i] = v(static_cast<tensor_size_t>(i));
    return out;
}

matrix_t to_matrix(const dvec& P, size_t n)
{
    matrix_t out{static_cast<tensor_size_t>(n), static_cast<tensor_size_t>(n)};
    for (size_t i = 0; i < n; ++i)
        for (size_t j = 0; j < n; ++j) out(static_cast<tensor_size_t>(i), static_cast<tensor_size_t>(j)) = P[i * n + j];
    return out;
}

constraint_t make_constraint(const cdesc_t& c, size_t n)
{
    using namespace nano::constraint;
    switch (c.kind)
    {
    case k_const: return constant_t{c.v, c.d};
    case k_min: return minimum_t{{c.v, c.d}};
    case k_max: return maximum_t{{c.v, c.d}};
    case k_balleq: return euclidean_ball_equality_t{{to_vector(c.o), c.v}};
    case k_ballineq: return euclidean_ball_inequality_t{{to_vector(c.o), c.v}};
    case k_lineq: return linear_equality_t{{to_vector(c.o), c.v}};
    case k_linineq: return linear_inequality_t{{to_vector(c.o), c.v}};
    case k_quadeq: return quadratic_equality_t{{to_matrix(c.P, n), to_vector(c.o), c.v}};
    case k_quadineq: return quadratic_inequality_t{{to_matrix(c.P, n), to_vector(c.o), c.v}};
    case k_funeq: return functional_equality_t{c.fun->clone()};
    default: return functional_inequality_t{c.fun->clone()};
    }
}

// own evaluation (long double, written from the documentation of constraint.h): value, gradient, magnitude of the
// summed terms of the value (mag) and of every gradient component (gmag)
struct ceval_t
{
    ld   val{0}, mag{0};
    lvec grad, gmag;
};

ceval_t own_eval(const cdesc_t& c, const dvec& x)
{
    const auto n = x.size();
    ceval_t    e;
    e.grad.assign(n, 0);
    e.gmag.assign(n, 0);
    switch (c.kind)
    {
    case k_const:
    case k_max:
        e.val = static_cast<ld>(x[static_cast<size_t>(c.d)]) - c.v;
        e.mag = fabsl(x[static_cast<size_t>(c.d)]) + fabsl(c.v);
        e.grad[static_cast<size_t>(c.d)] = 1;
        break;
    case k_min:
        e.val = static_cast<ld>(c.v) - x[static_cast<size_t>(c.d)];
        e.mag = fabsl(x[static_cast<size_t>(c.d)]) + fabsl(c.v);
        e.grad[static_cast<size_t>(c.d)] = -1;
        break;
    case k_balleq:
    case k_ballineq:
        for (size_t i = 0; i < n; ++i)
        {
            const ld di = static_cast<ld>(x[i]) - c.o[i];
            e.val += di * di;
            e.mag += (fabsl(x[i]) + fabsl(c.o[i])) * (fabsl(x[i]) + fabsl(c.o[i]));
            e.grad[i] = 2 * di;
            e.gmag[i] = 2 * (fabsl(x[i]) + fabsl(c.o[i]));
        }
        e.val -= static_cast<ld>(c.v) * c.v;
        e.mag += static_cast<ld>(c.v) * c.v;
        break;
    case k_lineq:
    case k_linineq:
        for (size_t i = 0; i < n; ++i)
        {
            e.val += static_cast<ld>(c.o[i]) * x[i];
            e.mag += fabsl(static_cast<ld>(c.o[i]) * x[i]);
            e.grad[i] = c.o[i];
        }
        e.val += c.v;
        e.mag += fabsl(c.v);
        break;
    case k_quadeq:
    case k_quadineq:
        for (size_t i = 0; i < n; ++i)
        {
            ld pi = 0, pm = 0;
            for (size_t j = 0; j < n; ++j)
            {
                pi += static_cast<ld>(c.P[i * n + j]) * x[j];
                pm += fabsl(static_cast<ld>(c.P[i * n + j]) * x[j]);
            }
            e.val += 0.5L * x[i] * pi + static_cast<ld>(c.o[i]) * x[i];
            e.mag += 0.5L * fabsl(x[i]) * pm + fabsl(static_cast<ld>(c.o[i]) * x[i]);
            e.grad[i] = pi + c.o[i];
            e.gmag[i] = pm + fabsl(c.o[i]);
        }
        e.val += c.v;
        e.mag += fabsl(c.v);
        break;
    default:
    {
        // oracle: the wrapped function itself
        vector_t   gx{static_cast<tensor_size_t>(n)};
        const auto xv = to_vector(x);
        e.val         = c.fun->vgrad(xv, gx);
        e.mag         = fabsl(e.val);
        for (size_t i = 0; i < n; ++i)
        {
            e.grad[i] = gx(static_cast<tensor_size_t>(i));
            e.gmag[i] = fabsl(e.grad[i]);
        }
        // wrapped functions evaluated in double: allow their own rounding (sum of n terms)
        if (auto* p = dynamic_cast<const poly_function_t*>(c.fun.get()); p != nullptr)
        {
            e.mag = fabsl(p->m_r);
            for (size_t i = 0; i < n; ++i)
            {
                ld pm = 0;
                for (size_t j = 0; j < n; ++j) pm += fabsl(static_cast<ld>(p->m_P[i * n + j]) * x[j]);
                e.mag += 0.5L * fabsl(x[i]) * pm + fabsl(static_cast<ld>(p->m_q[i]) * x[i]);
                e.gmag[i] = pm + fabsl(p->m_q[i]);
            }
        }
        else if (auto* s = dynamic_cast<const sumabs_function_t*>(c.fun.get()); s != nullptr)
        {
            e.mag = fabsl(s->m_c);
            for (size_t i = 0; i < n; ++i) e.mag += fabsl(x[i]);
        }
    }
    }
    if (c.kind <= k_max) e.gmag[static_cast<size_t>(c.d)] = 0; // exact +-1
    return e;
}

std::string hexv(const dvec& v)
{
    std::string s;
    for (size_t i = 0; i < v.size(); ++i)
    {
        if (i) s += ",";
        s += vh::hexf(v[i]);
    }
    return s;
}
std::string hexv(const vector_t& v) { return hexv(from_vector(v)); }

// `kind:params` ; functional constraints carry their value and gradient at x (oracle data) and the convex flag
std::string describe(const cdesc_t& c, const dvec& x, size_t n)
{
    std::string s = kind_names[c.kind];
    switch (c.kind)
    {
    case k_const:
    case k_min:
    case k_max: s += ":" + vh::hexf(c.v) + ":" + std::to_string(c.d); break;
    case k_balleq:
    case k_ballineq:
    case k_lineq:
    case k_linineq: s += ":" + hexv(c.o) + ":" + vh::hexf(c.v); break;
    case k_quadeq:
    case k_quadineq:
    {
        s += ":";
        for (size_t i = 0; i < n; ++i)
        {
            if (i) s += "/";
            s += hexv(dvec(c.P.begin() + static_cast<long>(i * n), c.P.begin() + static_cast<long>((i + 1) * n)));
        }
        s += ":" + hexv(c.o) + ":" + vh::hexf(c.v);
        s += std::string(":") + (::nano::convex(make_constraint(c, n)) ? "1" : "0");
        break;
    }
    default:
    {
        vector_t   gx{static_cast<tensor_size_t>(n)};
        const auto fx = c.fun->vgrad(to_vector(x), gx);
        s += ":" + vh::hexf(fx) + ":" + hexv(gx) + ":" + (c.fun->convex() ? "1" : "0") + ":" + c.fdescr;
    }
    }
    return s;
}

std::string describe_all(const std::vector<cdesc_t>& cs, const dvec& x)
{
    std::string s;
    for (size_t i = 0; i < cs.size(); ++i)
    {
        if (i) s += ";";
        s += describe(cs[i], x, x.size());
    }
    return s.empty() ? "-" : s;
}

// ------------------------------------------------------------------------------------------------------------
// counters
// ------------------------------------------------------------------------------------------------------------
std::map<std::string, long> g_count;
long                        g_fails = 0;

void fail(const std::string& clause, const std::string& id, const std::string& detail)
{
    ++g_fails;
    if (g_fails <= 60) std::printf("FAIL %s %s %s\n", clause.c_str(), id.c_str(), detail.c_str());
}

// ------------------------------------------------------------------------------------------------------------
// generators
// ------------------------------------------------------------------------------------------------------------
struct gen_t
{
    vh::rng_t rng;
    bool      exact; // X mode

    explicit gen_t(uint64_t seed, bool exact_) : rng(seed), exact(exact_) {}

    double coef(int lim = 3) { return exact ? static_cast<double>(rng.range(-lim, lim)) : (rng.unit() * 2.0 - 1.0) * lim; }
    double point() { return exact ? static_cast<double>(rng.range(-4, 4)) : rng.unit() * 10.0 - 5.0; }

    // symmetric matrix; psd => B'B (+ I)
    dvec symmetric(size_t n, bool psd)
    {
        dvec P(n * n, 0.0);
        if (psd)
        {
            dvec B(n * n);
            for (auto& b : B) b = exact ? static_cast<double>(rng.range(-1, 1)) : rng.unit() * 2.0 - 1.0;
            for (size_t i = 0; i < n; ++i)
                for (size_t j = 0; j < n; ++j)
                {
                    double s = (i == j && rng.range(0, 1)) ? 1.0 : 0.0;
                    for (size_t k = 0; k < n; ++k) s += B[k * n + i] * B[k * n + j];
                    P[i * n + j] = s;
                }
            for (size_t i = 0; i < n; ++i)
                for (size_t j = 0; j < i; ++j) P[i * n + j] = P[j * n + i];
        }
        else
        {
            for (size_t i = 0; i < n; ++i)
                for (size_t j = i; j < n; ++j) P[i * n + j] = P[j * n + i] = coef(2);
        }
        return P;
    }

    // target value of a constraint at x: 0 exact boundary (X only), negative, positive
    double target(bool is_eq, bool want_feasible)
    {
        if (want_feasible) return is_eq ? 0.0 : (rng.range(0, 2) == 0 ? 0.0 : -mag());
        const auto r = rng.range(0, 9);
        if (exact && r < 3) return 0.0;
        return (r % 2 == 0) ? mag() : -mag();
    }
    double mag()
    {
        if (exact) return static_cast<double>(rng.range(1, 6));
        // log-uniform in [1e-3, 10]
        return std::pow(10.0, -3.0 + 4.0 * rng.unit());
    }

    double poly_value(const dvec& P, const dvec& q, const dvec& x)
    {
        const auto n = x.size();
        double     s = 0.0;
        for (size_t i = 0; i < n; ++i)
        {
            double pi = 0.0;
            for (size_t j = 0; j < n; ++j) pi += P[i * n + j] * x[j];
            s += 0.5 * x[i] * pi + q[i] * x[i];
        }
        return s;
    }

    cdesc_t constraint(int kind, const dvec& x, bool want_feasible, bool natural)
    {
        const auto n = x.size();
        cdesc_t    c;
        c.kind       = kind;
        const auto t = target(own_is_eq(kind), want_feasible);
        switch (kind)
        {
        case k_const:
        case k_max:
            c.d = static_cast<int>(rng.range(0, static_cast<int64_t>(n) - 1));
            c.v = natural ? coef(4) : x[static_cast<size_t>(c.d)] - t;
            break;
        case k_min:
            c.d = static_cast<int>(rng.range(0, static_cast<int64_t>(n) - 1));
            c.v = natural ? coef(4) : x[static_cast<size_t>(c.d)] + t;
            break;
        case k_balleq:
        case k_ballineq:
        {
            c.o.resize(n);
            if (exact && !natural && t == 0.0)
            {
                // |x - o|^2 = r^2 exactly: (3,4)/5 or (r,0)
                const bool pyth = n >= 2 && rng.range(0, 1) == 0;
                c.v             = pyth ? 5.0 : static_cast<double>(rng.range(1, 4));
                dvec       d(n, 0.0);
                const auto i0 = static_cast<size_t>(rng.range(0, static_cast<int64_t>(n) - 1));
                if (pyth)
                {
                    auto i1 = static_cast<size_t>(rng.range(0, static_cast<int64_t>(n) - 2));
                    if (i1 >= i0) ++i1;
                    d[i0] = rng.range(0, 1) ? 3.0 : -3.0;
                    d[i1] = rng.range(0, 1) ? 4.0 : -4.0;
                }
                else
                {
                    d[i0] = rng.range(0, 1) ? c.v : -c.v;
                }
                for (size_t i = 0; i < n; ++i) c.o[i] = x[i] - d[i];
            }
            else if (exact)
            {
                for (size_t i = 0; i < n; ++i) c.o[i] = x[i] + static_cast<double>(rng.range(-2, 2));
                double d2 = 0.0;
                for (size_t i = 0; i < n; ++i) d2 += (x[i] - c.o[i]) * (x[i] - c.o[i]);
                // feasible: radius large enough; else any radius in 1..5
                c.v = static_cast<double>(rng.range(1, 5));
                if (want_feasible && kind == k_ballineq)
                    while (c.v * c.v < d2) c.v += 1.0;
                if (want_feasible && kind == k_balleq)
                {
                    // cannot hit the sphere with this offset: put x on it along one axis
                    for (size_t i = 0; i < n; ++i) c.o[i] = x[i];
                    c.o[0] = x[0] - c.v;
                }
            }
            else
            {
                double d2 = 0.0;
                for (size_t i = 0; i < n; ++i)
                {
                    c.o[i] = x[i] + (rng.unit() * 4.0 - 2.0);
                    d2 += (x[i] - c.o[i]) * (x[i] - c.o[i]);
                }
                // value = d2 - r^2 = t  (if possible)
                const auto r2 = d2 - (natural ? coef(3) : t);
                c.v           = r2 > 1e-3 ? std::sqrt(r2) : 0.5 + rng.unit();
            }
            break;
        }
        case k_lineq:
        case k_linineq:
        {
            c.o.resize(n);
            double s = 0.0;
            for (size_t i = 0; i < n; ++i)
            {
                c.o[i] = coef();
                s += c.o[i] * x[i];
            }
            c.v = natural ? coef(4) : t - s;
            break;
        }
        case k_quadeq:
        case k_quadineq:
        {
            c.P = symmetric(n, rng.range(0, 2) != 0);
            c.o.resize(n);
            for (auto& q : c.o) q = coef();
            c.v = natural ? coef(4) : t - poly_value(c.P, c.o, x);
            break;
        }
        default:
        {
            const auto which = rng.range(0, 3);
            if (which == 0)
            {
                double s = 0.0;
                for (auto xi : x) s += std::fabs(xi);
                const auto cc = natural ? std::fabs(coef(4)) : s - t;
                c.fun         = std::make_unique<sumabs_function_t>(static_cast<tensor_size_t>(n), cc);
                c.fdescr      = "sumabs(" + vh::hexf(cc) + ")";
            }
            else
            {
                const bool affine = which == 1;
                const bool psd    = rng.range(0, 1) != 0;
                dvec       P      = affine ? dvec(n * n, 0.0) : symmetric(n, psd);
                dvec       q(n);
                for (auto& qi : q) qi = coef();
                const auto r = natural ? coef(4) : t - poly_value(P, q, x);
                c.fun        = std::make_unique<poly_function_t>(P, q, r, affine || psd);
                c.fdescr     = affine ? "affine" : (psd ? "poly-psd" : "poly-sym");
            }
        }
        }
        return c;
    }
};

uint64_t mix(uint64_t a, uint64_t b, uint64_t c)
{
    vh::rng_t r(a ^ (b * 0x9E3779B97F4A7C15ULL) ^ (c * 0xC2B2AE3D27D4EB4FULL));
    r.next();
    return r.next();
}

std::vector<std::string> g_library_ids;

void init_library_ids()
{
    for (const auto& id : function_t::all().ids())
    {
        const auto proto = function_t::all().get(id);
        if (!proto) continue;
        const auto f = proto->make(3, 10);
        if (f && f->size() == 3) g_library_ids.push_back(id);
    }
}

// ------------------------------------------------------------------------------------------------------------
// PEN + STATE cases
// ------------------------------------------------------------------------------------------------------------
struct tol_t
{
    bool exact;
    bool ok(double impl, ld expect, ld mag) const
    {
        if (exact) return static_cast<ld>(impl) == expect;
        if (!std::isfinite(impl)) return false;
        return fabsl(static_cast<ld>(impl) - expect) <= 1e-11L * (mag + fabsl(expect)) + 1e-300L;
    }
};

void pen_case(uint64_t seed, const std::string& id, bool verbose)
{
    vh::rng_t pick(seed);
    const bool exact = pick.range(0, 99) < 55;
    gen_t      g(pick.next(), exact);
    const auto n = static_cast<size_t>(g.rng.range(1, exact ? 5 : 6));
    dvec       x(n);
    for (auto& xi : x) xi = g.point();

    // objective
    rfunction_t objective;
    std::string odescr;
    if (!exact && !g_library_ids.empty() && g.rng.range(0, 2) != 0)
    {
        const auto& oid = g_library_ids[static_cast<size_t>(g.rng.range(0, static_cast<int64_t>(g_library_ids.size()) - 1))];
        objective       = function_t::all().get(oid)->make(static_cast<tensor_size_t>(n), 10);
        odescr          = oid;
    }
    if (!objective || static_cast<size_t>(objective->size()) != n)
    {
        const bool psd = g.rng.range(0, 2) != 0;
        dvec       q(n);
        for (auto& qi : q) qi = g.coef();
        objective = std::make_unique<poly_function_t>(g.symmetric(n, psd), q, g.coef(4), psd);
        odescr    = psd ? "poly-psd" : "poly-sym";
    }
    g_count["objective:" + odescr]++;

    // constraints
    const auto shape         = g.rng.range(0, 9);
    const bool want_feasible = shape < 3;
    const auto m             = static_cast<size_t>(shape == 9 ? 0 : g.rng.range(1, 8));
    std::vector<cdesc_t> cs;
    for (size_t i = 0; i < m; ++i)
    {
        const auto kind    = static_cast<int>(g.rng.range(0, k_count - 1));
        const bool natural = !want_feasible && g.rng.range(0, 4) == 0;
        cs.push_back(g.constraint(kind, x, want_feasible, natural));
        g_count[std::string("kind:") + kind_names[kind]]++;
    }
    auto function = objective->clone();
    for (const auto& c : cs)
    {
        if (!function->constrain(make_constraint(c, n)))
        {
            fail("constrain-rejected", id, describe(c, x, n));
            return;
        }
    }

    // own evaluation of everything
    vector_t   gfx{static_cast<tensor_size_t>(n)};
    const auto xv = to_vector(x);
    const auto fx = objective->vgrad(xv, gfx);
    std::vector<ceval_t> ev;
    for (const auto& c : cs) ev.push_back(own_eval(c, x));

    // penalty and multipliers
    double rho = 1.0;
    if (exact)
    {
        static const double rhos[] = {0.5, 1.0, 2.0, 4.0, 8.0, 0.25, 1024.0};
        rho                        = rhos[g.rng.range(0, 6)];
    }
    else
    {
        rho = std::pow(10.0, -3.0 + 9.0 * g.rng.unit());
    }
    const bool zero_mult = want_feasible || g.rng.range(0, 3) == 0;
    dvec       lambda, miu;
    for (size_t i = 0; i < m; ++i)
    {
        double mu = 0.0;
        if (!zero_mult)
        {
            if (own_is_eq(cs[i].kind))
            {
                mu = exact ? rho * static_cast<double>(g.rng.range(-3, 3)) : (g.rng.unit() * 2.0 - 1.0) * 4.0 * (g.rng.range(0, 1) ? rho : 1.0);
            }
            else
            {
                const auto r = g.rng.range(0, 9);
                if (exact && r < 3 && ev[i].val <= 0)
                {
                    mu = static_cast<double>(-ev[i].val) * rho; // g + mu/rho == 0 exactly: boundary of the active branch
                    g_count["al-boundary"]++;
                }
                else if (r >= 8)
                {
                    // NEGATIVE inequality multipliers ("any penalty / multiplier values"): with 0 < g <= -mu/rho the term
                    // max(0, g + mu/rho) vanishes although the constraint is violated (seeded change C05/4 tested `fc > 0 ||`)
                    mu = exact ? -rho * static_cast<double>(g.rng.range(1, 4)) : -g.rng.unit() * 4.0 * (g.rng.range(0, 1) ? rho : 1.0);
                    if (r == 9 && ev[i].val > 0) mu = static_cast<double>(-ev[i].val) * rho * (exact ? 2.0 : 1.5); // 0 < g < -mu/rho
                    g_count["al-negative-miu"]++;
                }
                else
                {
                    mu = exact ? rho * static_cast<double>(g.rng.range(0, 4)) : g.rng.unit() * 4.0 * (g.rng.range(0, 1) ? rho : 1.0);
                }
            }
        }
        (own_is_eq(cs[i].kind) ? lambda : miu).push_back(mu);
    }

    // implementation
    auto lin  = linear_penalty_function_t{*function};
    auto quad = quadratic_penalty_function_t{*function};
    const auto vlambda = to_vector(lambda);
    const auto vmiu    = to_vector(miu);
    auto       al      = augmented_lagrangian_function_t{*function, vlambda, vmiu};
    lin.penalty(rho);
    quad.penalty(rho);
    al.penalty(rho);
    vector_t   lg{static_cast<tensor_size_t>(n)}, qg{static_cast<tensor_size_t>(n)}, ag{static_cast<tensor_size_t>(n)};
    const auto lv = lin.vgrad(xv, lg);
    const auto qv = quad.vgrad(xv, qg);
    const auto av = al.vgrad(xv, ag);

    // ---- direct oracle: the defining formulas of penalty.h in long double -------------------------------
    bool kink = false, feasible = true;
    ld   e_lin = fx, e_quad = fx, e_al = fx, m_lin = fabsl(fx), m_quad = fabsl(fx), m_al = fabsl(fx);
    lvec g_lin(n), g_quad(n), g_al(n), gm_lin(n), gm_quad(n), gm_al(n);
    for (size_t k = 0; k < n; ++k)
    {
        g_lin[k] = g_quad[k] = g_al[k] = gfx(static_cast<tensor_size_t>(k));
        gm_lin[k] = gm_quad[k] = gm_al[k] = fabsl(gfx(static_cast<tensor_size_t>(k)));
    }
    size_t ie = 0, ii = 0;
    for (size_t i = 0; i < m; ++i)
    {
        const auto& e  = ev[i];
        const bool  eq = own_is_eq(cs[i].kind);
        const ld    mu = eq ? lambda[ie++] : miu[ii++];
        const ld    t  = e.val + mu / rho;
        const ld    tm = e.mag + fabsl(mu / rho);
        if (!exact && (fabsl(e.val) <= 1e-9L * e.mag || fabsl(t) <= 1e-9L * tm)) kink = true;
        feasible = feasible && (eq ? e.val == 0 : e.val <= 0);
        // sum |h| , sum max(0, g)
        const ld a1 = eq ? fabsl(e.val) : std::max<ld>(0, e.val);
        e_lin += rho * a1;
        m_lin += rho * e.mag;
        // sum h^2 , sum max(0, g)^2
        const ld a2 = eq ? e.val : std::max<ld>(0, e.val);
        e_quad += rho * a2 * a2;
        m_quad += rho * e.mag * e.mag;
        // sum (h + lambda/ro)^2 , sum max(0, g + miu/ro)^2
        const ld a3 = eq ? t : std::max<ld>(0, t);
        e_al += 0.5L * rho * a3 * a3;
        m_al += 0.5L * rho * tm * tm;
        for (size_t k = 0; k < n; ++k)
        {
            const ld s1 = eq ? (e.val >= 0 ? 1 : -1) : (e.val > 0 ? 1 : 0);
            g_lin[k] += rho * s1 * e.grad[k];
            gm_lin[k] += rho * (fabsl(e.grad[k]) + e.gmag[k]);
            g_quad[k] += 2 * rho * a2 * e.grad[k];
            gm_quad[k] += 2 * rho * e.mag * (fabsl(e.grad[k]) + e.gmag[k]);
            g_al[k] += rho * a3 * e.grad[k];
            gm_al[k] += rho * tm * (fabsl(e.grad[k]) + e.gmag[k]);
        }
    }
    const tol_t tol{exact};
    const auto  mode = exact ? "X" : (kink ? "K" : "T");
    std::string line = std::string("PEN ") + id + " " + mode + " | " + std::to_string(n) + " | " + hexv(x) + " | " +
                       vh::hexf(fx) + " | " + hexv(gfx) + " | " + describe_all(cs, x) + " | " + vh::hexf(rho) + " | " +
                       (lambda.empty() ? "-" : hexv(lambda)) + " | " + (miu.empty() ? "-" : hexv(miu)) + " | " +
                       (objective->convex() ? "1" : "0") + " = " + vh::hexf(lv) + " ; " + hexv(lg) + " | " + vh::hexf(qv) +
                       " ; " + hexv(qg) + " | " + vh::hexf(av) + " ; " + hexv(ag) + " | " + (lin.convex() ? "1" : "0") +
                       (quad.convex() ? "1" : "0") + (al.convex() ? "1" : "0") + " | " + odescr;
    std::printf("%s\n", line.c_str());
    g_count[std::string("mode:") + mode]++;
    g_count["m:" + std::to_string(m)]++;
    if (feasible && m > 0) g_count["feasible"]++;

    if (!tol.ok(lv, e_lin, m_lin)) fail("defs-linear-value", id, "expected " + vh::hexf(static_cast<double>(e_lin)) + " :: " + line);
    if (!tol.ok(qv, e_quad, m_quad)) fail("defs-quadratic-value", id, "expected " + vh::hexf(static_cast<double>(e_quad)) + " :: " + line);
    if (!tol.ok(av, e_al, m_al)) fail("defs-augmented-value", id, "expected " + vh::hexf(static_cast<double>(e_al)) + " :: " + line);
    for (size_t k = 0; k < n; ++k)
    {
        const auto kk = static_cast<tensor_size_t>(k);
        if (!kink && !tol.ok(lg(kk), g_lin[k], gm_lin[k]))
        {
            fail("defs-linear-gradient", id, "component " + std::to_string(k) + " expected " + vh::hexf(static_cast<double>(g_lin[k])) + " :: " + line);
            break;
        }
        if (!tol.ok(qg(kk), g_quad[k], gm_quad[k]))
        {
            fail("defs-quadratic-gradient", id, "component " + std::to_string(k) + " expected " + vh::hexf(static_cast<double>(g_quad[k])) + " :: " + line);
            break;
        }
        if (!tol.ok(ag(kk), g_al[k], gm_al[k]))
        {
            fail("defs-augmented-gradient", id, "component " + std::to_string(k) + " expected " + vh::hexf(static_cast<double>(g_al[k])) + " :: " + line);
            break;
        }
    }
    // feasible point, zero multipliers: the three functions coincide with the objective (bit for bit: nothing or +0
    // is added); the gradients of the differentiable ones coincide with the objective's
    if (exact && feasible && zero_mult)
    {
        if (lv != fx || qv != fx || av != fx) fail("feasible-coincide-value", id, line);
        for (size_t k = 0; k < n; ++k)
        {
            const auto kk = static_cast<tensor_size_t>(k);
            if (qg(kk) != gfx(kk) || ag(kk) != gfx(kk))
            {
                fail("feasible-coincide-gradient", id, line);
                break;
            }
        }
        g_count["feasible-zero-mult"]++;
    }
    // convex flag: whenever the penalty objects declare themselves convex the sub-gradient inequality
    // P(y) >= P(x) + G(x).(y - x) must hold (own objectives only: their flag is known to be truthful)
    if (lin.convex() && dynamic_cast<const poly_function_t*>(objective.get()) != nullptr)
    {
        dvec y(n);
        for (auto& yi : y) yi = g.point();
        const auto yv = to_vector(y);
        const ld   py[3] = {lin.vgrad(yv), quad.vgrad(yv), al.vgrad(yv)};
        const ld   px[3] = {lv, qv, av};
        const vector_t* gs[3] = {&lg, &qg, &ag};
        const char* names[3]  = {"linear", "quadratic", "augmented"};
        for (int w = 0; w < 3; ++w)
        {
            ld lin_part = 0, mag = fabsl(px[w]) + fabsl(py[w]);
            for (size_t k = 0; k < n; ++k)
            {
                const ld t = static_cast<ld>((*gs[w])(static_cast<tensor_size_t>(k))) * (static_cast<ld>(y[k]) - x[k]);
                lin_part += t;
                mag += fabsl(t);
            }
            if (py[w] < px[w] + lin_part - (exact ? 0.0L : 1e-9L * mag))
                fail(std::string("convex-flag-") + names[w], id, "y=" + hexv(y) + " P(y)=" + vh::hexf(static_cast<double>(py[w])) + " :: " + line);
        }
        g_count["convex-flag-checked"]++;
    }
    // value-only evaluation returns the same value
    if (lin.vgrad(xv) != lv || quad.vgrad(xv) != qv || al.vgrad(xv) != av) fail("value-only-differs", id, line);

    // ---- STATE: solver_state_t bookkeeping on the same constrained function ------------------------------
    {
        auto state = solver_state_t{*function, xv};
        // second point + multipliers
        dvec x2(n), meq(lambda.size()), mineq(miu.size());
        for (auto& xi : x2) xi = g.point();
        for (auto& v : meq) v = g.coef(2);
        for (auto& v : mineq) v = std::fabs(g.coef(2));
        const auto check_state = [&](const solver_state_t& st, const dvec& xs, const dvec& me, const dvec& mi, const char* what)
        {
            std::vector<ceval_t> evs;
            for (const auto& c : cs) evs.push_back(own_eval(c, xs));
            // stored values == library re-evaluation (bit-exact) == own formula (tolerance)
            tensor_size_t je = 0, ji = 0;
            bool          bad = false;
            lvec          lgx(n), lgm(n);
            for (size_t k = 0; k < n; ++k)
            {
                lgx[k] = st.gx()(static_cast<tensor_size_t>(k));
                lgm[k] = fabsl(lgx[k]);
            }
            for (size_t i = 0; i < cs.size(); ++i)
            {
                const bool eq     = own_is_eq(cs[i].kind);
                const auto stored = eq ? st.ceq()(je) : st.cineq()(ji);
                const auto mult   = eq ? me[static_cast<size_t>(je)] : mi[static_cast<size_t>(ji)];
                (eq ? je : ji)++;
                const auto again = ::nano::vgrad(function->constraints()[i], st.x());
                if (stored != again || !tol.ok(stored, evs[i].val, evs[i].mag)) bad = true;
                for (size_t k = 0; k < n; ++k)
                {
                    lgx[k] += static_cast<ld>(mult) * evs[i].grad[k];
                    lgm[k] += fabsl(mult) * (fabsl(evs[i].grad[k]) + evs[i].gmag[k]);
                }
            }
            if (je != st.ceq().size() || ji != st.cineq().size()) bad = true;
            // kkt tests 1, 2 are max/abs of the stored values: exact
            double k1 = 0.0, k2 = 0.0;
            for (tensor_size_t i = 0; i < st.cineq().size(); ++i) k1 = std::max(k1, std::fabs(std::max(st.cineq()(i), 0.0)));
            for (tensor_size_t i = 0; i < st.ceq().size(); ++i) k2 = std::max(k2, std::fabs(st.ceq()(i)));
            if (k1 != st.kkt_optimality_test1() || k2 != st.kkt_optimality_test2()) bad = true;
            ld k5 = 0, k5m = 0;
            for (size_t k = 0; k < n; ++k)
            {
                k5  = std::max(k5, fabsl(lgx[k]));
                k5m = std::max(k5m, lgm[k]);
            }
            if (!tol.ok(st.kkt_optimality_test5(), k5, k5m)) bad = true;
            std::string sl = std::string("STATE ") + id + "." + what + " " + (exact ? "X" : "T") + " | " + std::to_string(n) + " | " +
                             hexv(xs) + " | " + hexv(st.gx()) + " | " + (me.empty() ? "-" : hexv(me)) + " | " +
                             (mi.empty() ? "-" : hexv(mi)) + " | " + describe_all(cs, xs) + " = " +
                             (st.ceq().size() ? hexv(st.ceq()) : "-") + " | " + (st.cineq().size() ? hexv(st.cineq()) : "-") + " | " +
                             vh::hexf(st.kkt_optimality_test1()) + " | " + vh::hexf(st.kkt_optimality_test2()) + " | " +
                             vh::hexf(st.kkt_optimality_test5());
            std::printf("%s\n", sl.c_str());
            if (bad) fail("state-constraints", id + "." + what, sl);
        };
        const dvec zeq(lambda.size(), 0.0), zineq(miu.size(), 0.0);
        check_state(state, x, zeq, zineq, "init");
        state.update(to_vector(x2), to_vector(meq), to_vector(mineq));
        check_state(state, x2, meq, mineq, "update");
        // update_if_better: whatever the outcome, the stored constraint values belong to the stored point
        dvec x3(n);
        for (auto& xi : x3) xi = g.point();
        vector_t   g3{static_cast<tensor_size_t>(n)};
        const auto x3v = to_vector(x3);
        const auto f3  = function->vgrad(x3v, g3);
        const auto better = state.update_if_better(x3v, g3, f3);
        check_state(state, better ? x3 : x2, meq, mineq, better ? "better" : "notbetter");
    }
    (void)verbose;
}

// ------------------------------------------------------------------------------------------------------------
// AL solver cases
// ------------------------------------------------------------------------------------------------------------
struct al_iter_t
{
    dvec   cx, ceq, cineq;
    bool   ok{false}, dx{false};
    double crit{0}, old{0}, ro{0}, eps{0};
    bool   hook_ok{false}, conv{false};
    int    outer{0};
    // from solver_t::done of the outer loop
    bool have_done{false}, done_ok{false}, done_conv{false}, bvalid{false}, have_exit{false}, stop{false};
    dvec bx;
    int  status{0};
    // extension "outer": multipliers the inner solve used, gradient / value of the augmented Lagrangian at the inner
    // solution, multipliers stored in the best state when done() was entered
    bool   have_mult{false}, smooth{false};
    dvec   lambda, miu, cgx, bmeq, bmineq;
    double cfx{0};
};

struct al_ctx_t
{
    const function_t*      function{nullptr};
    dvec                   bx; // tracked best point
    std::vector<al_iter_t> iters;
    long                   inner_done{0};
} g_al;

// ------------------------------------------------------------------------------------------------------------
// penalty solver cases (extension "outer"): observation of solver_penalty_t::minimize
// ------------------------------------------------------------------------------------------------------------
struct ps_iter_t
{
    double penalty{0};
    bool   ok{false}; // an outer done() call followed the inner solve (cstate.valid())
    dvec   cx, ceq, cineq;
    double fx{0};
    bool   bvalid{false}, conv{false}, stop{false}, done_ok{false}, have_exit{false};
    int    status{0};
};

struct ps_ctx_t
{
    const function_t*      function{nullptr};
    std::vector<ps_iter_t> iters;
    bool                   open{false}; // an inner solve is in progress (no outer done() seen yet)
    bool                   anomaly{false};
    long                   inner_done{0};
} g_ps;

void ps_on_event(int kind, const solver_state_t& state, std::uint64_t a, std::uint64_t b)
{
    if (&state.function() != g_ps.function)
    {
        // done() of the inner solver: its function is the penalty function, whose penalty() is what this solve uses
        if (kind != verif::ev_solver_done) return;
        g_ps.inner_done++;
        const auto* pf = dynamic_cast<const penalty_function_t*>(&state.function());
        if (pf == nullptr || &pf->function() != g_ps.function)
        {
            g_ps.anomaly = true;
            return;
        }
        if (!g_ps.open || pf->penalty() != g_ps.iters.back().penalty)
        {
            // a new inner solve (if the previous one is still open, no outer done() followed it: `continue`)
            ps_iter_t it;
            it.penalty = pf->penalty();
            g_ps.iters.push_back(std::move(it));
            g_ps.open = true;
        }
        return;
    }
    if (!g_ps.open && kind == verif::ev_solver_done)
    {
        g_ps.anomaly = true; // an outer done() without any observed inner solve
        ps_iter_t it;
        it.penalty = std::numeric_limits<double>::quiet_NaN();
        g_ps.iters.push_back(std::move(it));
        g_ps.open = true;
    }
    if (g_ps.iters.empty()) return;
    auto& it = g_ps.iters.back();
    if (kind == verif::ev_solver_done)
    {
        it.ok      = true;
        it.done_ok = a != 0U;
        it.conv    = b != 0U;
        it.cx      = from_vector(state.x());
        it.fx      = state.fx();
        it.ceq     = from_vector(state.ceq());
        it.cineq   = from_vector(state.cineq());
        it.bvalid  = state.valid();
    }
    else
    {
        it.have_exit = true;
        it.stop      = a != 0U;
        it.status    = static_cast<int>(state.status());
        g_ps.open    = false;
    }
}

void on_values(int kind, const void* object, const double* values, int count)
{
    if (kind != verif::ev_al_outer || count < 7 || g_al.function == nullptr) return;
    const auto& cstate = *static_cast<const solver_state_t*>(object);
    al_iter_t   it;
    it.cx      = from_vector(cstate.x());
    it.ceq     = from_vector(cstate.ceq());
    it.cineq   = from_vector(cstate.cineq());
    it.ok      = cstate.valid();
    it.crit    = values[0];
    it.old     = values[1];
    it.ro      = values[2];
    it.eps     = values[3];
    it.hook_ok = values[4] != 0.0;
    it.conv    = values[5] != 0.0;
    it.outer   = static_cast<int>(values[6]);
    // own ::nano::converged(bstate, cstate, epsilon): scalar double operations only (exact max/abs, one product)
    double dx = 0.0, bn = 0.0;
    for (size_t i = 0; i < it.cx.size(); ++i)
    {
        dx = std::max(dx, std::fabs(it.cx[i] - g_al.bx[i]));
        bn = std::max(bn, std::fabs(g_al.bx[i]));
    }
    it.dx = dx < it.eps * std::max(1.0, bn);
    it.cgx = from_vector(cstate.gx());
    it.cfx = cstate.fx();
    it.smooth = cstate.function().smooth(); // non-smooth inner solvers (update_if_better) do not store the gradient at x
    const vector_t *lambda = nullptr, *miu = nullptr;
    if (al_multipliers(cstate.function(), lambda, miu) && lambda->size() == cstate.ceq().size() &&
        miu->size() == cstate.cineq().size())
    {
        it.have_mult = true;
        it.lambda    = from_vector(*lambda);
        it.miu       = from_vector(*miu);
    }
    g_al.iters.push_back(std::move(it));
}

void on_event(int kind, const void* object, std::uint64_t a, std::uint64_t b)
{
    if (g_ps.function != nullptr)
    {
        if (kind == verif::ev_solver_done || kind == verif::ev_solver_exit) ps_on_event(kind, *static_cast<const solver_state_t*>(object), a, b);
        return;
    }
    if (g_al.function == nullptr || (kind != verif::ev_solver_done && kind != verif::ev_solver_exit)) return;
    const auto& state = *static_cast<const solver_state_t*>(object);
    if (&state.function() != g_al.function)
    {
        g_al.inner_done += kind == verif::ev_solver_done ? 1 : 0;
        return;
    }
    if (g_al.iters.empty()) return;
    auto& it = g_al.iters.back();
    if (kind == verif::ev_solver_done)
    {
        it.have_done = true;
        it.done_ok   = a != 0U;
        it.done_conv = b != 0U;
        it.bvalid    = state.valid();
        it.bx        = from_vector(state.x());
        it.bmeq      = from_vector(state_meq(state));
        it.bmineq    = from_vector(state_mineq(state));
        g_al.bx      = it.bx;
    }
    else
    {
        it.have_exit = true;
        it.stop      = a != 0U;
        it.status    = static_cast<int>(state.status());
    }
}

// a random constrained problem: convex QP / LP through program:: + make_function, or an own convex quadratic with
// box / ball / quadratic / functional / mixed constraints (5% infeasible)
struct problem_t
{
    size_t               n{0};
    dvec                 xs;     // reference point the constraints are built around
    std::vector<cdesc_t> cs;     // own description of every constraint of the constrained function
    rfunction_t          function;
    std::string          descr;
    bool                 infeasible{false};
};

bool make_problem(gen_t& g, const std::string& id, problem_t& prob)
{
    auto& rng        = g.rng;
    auto& xs         = prob.xs;
    auto& cs         = prob.cs;
    auto& function   = prob.function;
    auto& descr      = prob.descr;
    auto& infeasible = prob.infeasible;
    const auto family = rng.range(0, 9);
    const auto n      = static_cast<size_t>(rng.range(1, 5));
    prob.n            = n;
    // a reference point the constraints are built around
    xs.assign(n, 0.0);
    for (auto& v : xs) v = rng.unit() * 4.0 - 2.0;

    // keep programs alive: make_function(program) captures references
    static std::vector<std::unique_ptr<program::quadratic_program_t>> keep_qp;
    static std::vector<std::unique_ptr<program::linear_program_t>>    keep_lp;
    keep_qp.clear();
    keep_lp.clear();

    const auto add_linear = [&](bool eq, const dvec& a, double b) // a.x = b / a.x <= b
    {
        cdesc_t c;
        c.kind = eq ? k_lineq : k_linineq;
        c.o    = a;
        c.v    = -b;
        cs.push_back(std::move(c));
    };
    infeasible = rng.range(0, 19) == 0;

    if (family <= 3)
    {
        // random convex QP / LP through program:: + make_function (program.cpp)
        const bool lp  = family == 3;
        const auto neq = static_cast<size_t>(rng.range(0, static_cast<int64_t>(n) - 1));
        const auto nin = static_cast<size_t>(rng.range(lp ? 1 : 0, 4));
        matrix_t   A{static_cast<tensor_size_t>(neq), static_cast<tensor_size_t>(n)};
        vector_t   b{static_cast<tensor_size_t>(neq)};
        for (size_t i = 0; i < neq; ++i)
        {
            dvec   a(n);
            double s = 0.0;
            for (size_t j = 0; j < n; ++j)
            {
                a[j] = rng.unit() * 2.0 - 1.0;
                A(static_cast<tensor_size_t>(i), static_cast<tensor_size_t>(j)) = a[j];
                s += a[j] * xs[j];
            }
            b(static_cast<tensor_size_t>(i)) = s;
            add_linear(true, a, s);
        }
        // inequalities: random ones feasible at xs (+ a box for LPs so that they are bounded)
        std::vector<dvec> Grows;
        dvec              hs;
        for (size_t i = 0; i < nin; ++i)
        {
            dvec   a(n);
            double s = 0.0;
            for (size_t j = 0; j < n; ++j)
            {
                a[j] = rng.unit() * 2.0 - 1.0;
                s += a[j] * xs[j];
            }
            Grows.push_back(a);
            hs.push_back(s + (rng.range(0, 2) == 0 ? 0.0 : rng.unit()));
        }
        if (lp)
        {
            for (size_t j = 0; j < n; ++j)
            {
                dvec a(n, 0.0);
                a[j] = 1.0;
                Grows.push_back(a);
                hs.push_back(xs[j] + 1.0 + rng.unit());
                a[j] = -1.0;
                Grows.push_back(a);
                hs.push_back(-xs[j] + 1.0 + rng.unit());
            }
        }
        if (Grows.empty()) infeasible = false;
        if (infeasible)
        {
            dvec a = Grows[0];
            for (auto& v : a) v = -v;
            Grows.push_back(a);
            hs.push_back(-hs[0] - 1.0); // a.x <= h and -a.x <= -h - 1
        }
        matrix_t G{static_cast<tensor_size_t>(Grows.size()), static_cast<tensor_size_t>(n)};
        vector_t h{static_cast<tensor_size_t>(Grows.size())};
        for (size_t i = 0; i < Grows.size(); ++i)
        {
            for (size_t j = 0; j < n; ++j) G(static_cast<tensor_size_t>(i), static_cast<tensor_size_t>(j)) = Grows[i][j];
            h(static_cast<tensor_size_t>(i)) = hs[i];
            add_linear(false, Grows[i], hs[i]);
        }
        vector_t c{static_cast<tensor_size_t>(n)};
        for (size_t j = 0; j < n; ++j) c(static_cast<tensor_size_t>(j)) = rng.unit() * 2.0 - 1.0;
        if (lp)
        {
            keep_lp.push_back(std::make_unique<program::linear_program_t>(c));
            auto& prog = *keep_lp.back();
            if (neq > 0) prog.constrain(program::make_equality(A, b), program::make_inequality(G, h));
            else prog.constrain(program::make_inequality(G, h));
            function = make_function(prog);
            descr    = "lp";
        }
        else
        {
            const auto Q = to_matrix(g.symmetric(n, true), n);
            keep_qp.push_back(std::make_unique<program::quadratic_program_t>(Q, c));
            auto& prog = *keep_qp.back();
            // NB: every call of constrain() replaces the previously stacked constraints
            if (neq > 0 && !Grows.empty()) prog.constrain(program::make_equality(A, b), program::make_inequality(G, h));
            else if (neq > 0) prog.constrain(program::make_equality(A, b));
            else if (!Grows.empty()) prog.constrain(program::make_inequality(G, h));
            function = make_function(prog);
            descr    = "qp";
        }
        if (function->constraints().size() != cs.size())
        {
            fail("program-constraints", id, "make_function registered " + std::to_string(function->constraints().size()) +
                                                " constraints, the program has " + std::to_string(cs.size()));
            return false;
        }
    }
    else
    {
        // own convex quadratic objective + box / ball / quadratic / functional / mixed constraints
        dvec q(n);
        for (auto& v : q) v = rng.unit() * 4.0 - 2.0;
        auto P = g.symmetric(n, true);
        for (size_t i = 0; i < n; ++i) P[i * n + i] += 0.5;
        function = std::make_unique<poly_function_t>(P, q, 0.0, true);
        descr    = "poly";
        if (family == 4 || family == 5)
        {
            // box
            for (size_t j = 0; j < n; ++j)
            {
                const auto lo = xs[j] - rng.unit(), hi = xs[j] + rng.unit() + 1e-3;
                cdesc_t    c1, c2;
                c1.kind = k_min, c1.v = lo, c1.d = static_cast<int>(j);
                c2.kind = k_max, c2.v = hi, c2.d = static_cast<int>(j);
                cs.push_back(std::move(c1));
                cs.push_back(std::move(c2));
            }
            descr += "+box";
            if (family == 5)
            {
                cs.push_back(g.constraint(k_ballineq, xs, true, false));
                descr += "+ball";
            }
        }
        else if (family == 6)
        {
            cs.push_back(g.constraint(rng.range(0, 3) == 0 ? k_balleq : k_ballineq, xs, true, false));
            descr += std::string("+") + kind_names[cs.back().kind];
        }
        else
        {
            // mixed: 1..4 constraints of any kind, all satisfiable at xs
            const auto m = rng.range(1, 4);
            for (int64_t i = 0; i < m; ++i)
            {
                auto kind = static_cast<int>(rng.range(0, k_count - 1));
                if (kind == k_const && rng.range(0, 1)) kind = k_linineq;
                cs.push_back(g.constraint(kind, xs, true, false));
                descr += std::string("+") + kind_names[kind];
            }
        }
        if (infeasible)
        {
            cdesc_t c1, c2;
            c1.kind = k_min, c1.v = 1.0, c1.d = 0;
            c2.kind = k_max, c2.v = -1.0, c2.d = 0;
            cs.push_back(std::move(c1));
            cs.push_back(std::move(c2));
        }
        for (const auto& c : cs)
        {
            if (!function->constrain(make_constraint(c, n)))
            {
                fail("constrain-rejected", id, describe(c, xs, n));
                return false;
            }
        }
    }
    if (infeasible) descr += "+infeasible";
    return true;
}

void al_case(uint64_t seed, const std::string& id, bool verbose)
{
    vh::rng_t  pick(seed);
    gen_t      g(pick.next(), false);
    auto&      rng    = g.rng;
    problem_t  prob;
    if (!make_problem(g, id, prob)) return;
    const auto n          = prob.n;
    auto&      xs         = prob.xs;
    auto&      cs         = prob.cs;
    auto&      function   = prob.function;
    auto&      descr      = prob.descr;
    const bool infeasible = prob.infeasible;

    // solver configuration
    auto       solver = solver_augmented_lagrangian_t{};
    const auto eps    = std::pow(10.0, -10.0 + 6.0 * rng.unit());
    solver.parameter("solver::epsilon") = eps;
    double tau = 0.5, gamma = 10.0, miu_max = 1e+20, lmin = -1e+20, lmax = 1e+20;
    int    max_outers = 100;
    if (rng.range(0, 3) == 0)
    {
        tau        = 0.05 + 0.9 * rng.unit();
        gamma      = 1.5 + 20.0 * rng.unit();
        max_outers = static_cast<int>(rng.range(10, 60));
        if (rng.range(0, 1)) miu_max = std::pow(10.0, -1.0 + 3.0 * rng.unit());
        if (rng.range(0, 1))
        {
            lmax = std::pow(10.0, -1.0 + 3.0 * rng.unit());
            lmin = -lmax;
        }
        solver.parameter("solver::augmented::tau")             = tau;
        solver.parameter("solver::augmented::gamma")           = gamma;
        solver.parameter("solver::augmented::miu_max")         = miu_max;
        solver.parameter("solver::augmented::max_outer_iters") = max_outers;
        solver.parameter("solver::augmented::lambda")          = std::make_tuple(lmin, lmax);
        if (rng.range(0, 1)) solver.parameter("solver::augmented::epsilon0") = std::pow(10.0, -9.0 + 6.0 * rng.unit());
    }
    if (rng.range(0, 4) == 0) solver.parameter("solver::max_evals") = rng.range(20, 300);

    // starting point: anywhere in [-5,5]^n, the reference point itself, or far away
    dvec x0(n);
    const auto where = rng.range(0, 9);
    for (size_t j = 0; j < n; ++j) x0[j] = where == 0 ? xs[j] : (where == 1 ? (rng.unit() * 2.0 - 1.0) * 1e3 : rng.unit() * 10.0 - 5.0);
    const auto x0v = to_vector(x0);

    const auto s0 = solver_state_t{*function, x0v};
    std::printf("AL %s | %s | %s | %s | %s | %s | %s | %d | %s | %s | %s | %s :: %s\n", id.c_str(), vh::hexf(eps).c_str(),
                vh::hexf(tau).c_str(), vh::hexf(gamma).c_str(), vh::hexf(miu_max).c_str(), vh::hexf(lmin).c_str(),
                vh::hexf(lmax).c_str(), max_outers, hexv(x0).c_str(), s0.ceq().size() ? hexv(s0.ceq()).c_str() : "-",
                s0.cineq().size() ? hexv(s0.cineq()).c_str() : "-", descr.c_str(), describe_all(cs, x0).c_str());
    std::printf("ALO %s | %s\n", id.c_str(), vh::hexf(s0.fx()).c_str());

    g_al.function = function.get();
    g_al.bx       = x0;
    g_al.iters.clear();
    g_al.inner_done = 0;
    const auto logger = make_null_logger();
    const auto state  = solver.minimize(*function, x0v, logger);
    g_al.function     = nullptr;

    g_count["al-family:" + descr.substr(0, descr.find('+'))]++;
    g_count[std::string("al-status:") + std::to_string(static_cast<int>(state.status()))]++;
    g_count["al-outer-iterations"] += static_cast<long>(g_al.iters.size());
    g_count["al-inner-done-events"] += g_al.inner_done;

    bool hooks_ok = !g_al.iters.empty();
    for (const auto& it : g_al.iters)
    {
        hooks_ok = hooks_ok && it.have_done && it.have_exit;
        if (it.have_mult)
            std::printf("ALOIT %s %d | %s | %s\n", id.c_str(), it.outer, it.lambda.empty() ? "-" : hexv(it.lambda).c_str(),
                        it.miu.empty() ? "-" : hexv(it.miu).c_str());
        std::printf("ALIT %s %d | %s | %s | %s | %d | %d | %d = %s | %s | %s | %d | %d | %s | %d\n", id.c_str(), it.outer,
                    hexv(it.cx).c_str(), it.ceq.empty() ? "-" : hexv(it.ceq).c_str(), it.cineq.empty() ? "-" : hexv(it.cineq).c_str(),
                    it.ok ? 1 : 0, it.dx ? 1 : 0, it.bvalid ? 1 : 0, vh::hexf(it.crit).c_str(), vh::hexf(it.old).c_str(),
                    vh::hexf(it.ro).c_str(), it.conv ? 1 : 0, it.stop ? 1 : 0, hexv(it.bx).c_str(), it.status);
        if (it.hook_ok != it.ok || it.done_ok != it.ok || it.done_conv != it.conv)
            fail("al-hook-consistency", id, "outer " + std::to_string(it.outer) + ": iter_ok/converged reported by the hooks disagree");
    }
    if (!hooks_ok) fail("al-hooks-missing", id, "no ev_al_outer / ev_solver_done / ev_solver_exit events for the outer loop");

    // ---- direct oracle on the returned state -------------------------------------------------------------
    const auto xr        = from_vector(state.x());
    const bool converged = state.status() == solver_status::converged;
    std::printf("ALOEND %s | %s | %s | %s\n", id.c_str(), state_meq(state).size() ? hexv(state_meq(state)).c_str() : "-",
                state_mineq(state).size() ? hexv(state_mineq(state)).c_str() : "-", vh::hexf(state.kkt_optimality_test5()).c_str());
    std::printf("ALEND %s | %d | %s | %s | %s | %s | %s | %zu\n", id.c_str(), static_cast<int>(state.status()), hexv(xr).c_str(),
                state.ceq().size() ? hexv(state.ceq()).c_str() : "-", state.cineq().size() ? hexv(state.cineq()).c_str() : "-",
                vh::hexf(state.kkt_optimality_test1()).c_str(), vh::hexf(state.kkt_optimality_test2()).c_str(), g_al.iters.size());
    const auto problem = [&]() { return "eps=" + vh::hexf(eps) + " x0=" + hexv(x0) + " x=" + hexv(xr) + " " + descr + " :: " + describe_all(cs, xr); };
    // ---- extension "outer": direct oracles on the multipliers, the first-order identity and the KKT residuals ----------
    {
        // grad f + sum ml_j grad h_j + sum mi_i grad g_i at x from the harness' own constraint formulas (long double);
        // mult(eq, index, value) gives the multiplier of a constraint; gsum[j] = sum_c |grad c_j|
        const auto lagrangian = [&](const dvec& x, const auto& mult, lvec& L, lvec& mag, lvec& gsum)
        {
            vector_t gf{static_cast<tensor_size_t>(n)};
            function->vgrad(to_vector(x), gf);
            L.assign(n, 0), mag.assign(n, 0), gsum.assign(n, 0);
            for (size_t j = 0; j < n; ++j) L[j] = gf(static_cast<tensor_size_t>(j)), mag[j] = fabsl(L[j]);
            size_t je = 0, ji = 0;
            for (const auto& c : cs)
            {
                const bool eq = own_is_eq(c.kind);
                const auto ev = own_eval(c, x);
                const auto [m, dm] = mult(eq, eq ? je : ji, ev);
                (eq ? je : ji)++;
                for (size_t j = 0; j < n; ++j)
                {
                    L[j] += m * ev.grad[j];
                    mag[j] += fabsl(m) * (fabsl(ev.grad[j]) + ev.gmag[j]) + dm * fabsl(ev.grad[j]);
                    gsum[j] += fabsl(ev.grad[j]);
                }
            }
        };
        const auto where = [&](const al_iter_t& it) { return "outer " + std::to_string(it.outer) + " ro=" + vh::hexf(it.ro) + " lambda=" + hexv(it.lambda) + " miu=" + hexv(it.miu) + " " + problem(); };
        int last_update = -1;
        for (size_t k = 0; k < g_al.iters.size(); ++k)
        {
            const auto& it = g_al.iters[k];
            if (!it.have_mult)
            {
                fail("al-multipliers-unobserved", id, "the inner solver's function is not an augmented_lagrangian_function_t of the expected layout");
                break;
            }
            g_count["alo-events"]++;
            bool range_ok = true, start_ok = true;
            for (const auto m : it.miu) range_ok = range_ok && m >= 0.0 && m <= miu_max, start_ok = start_ok && (k > 0 || m == 0.0);
            for (const auto l : it.lambda) range_ok = range_ok && (k == 0 || (l >= lmin && l <= lmax)), start_ok = start_ok && (k > 0 || l == 0.0);
            if (!range_ok) fail("al-multiplier-range", id, where(it));
            if (!start_ok) fail("al-multiplier-start", id, where(it));
            // ro_1 = make_ro1 lies within [1e-6, 10]; afterwards ro stays or is multiplied by gamma (never at outer 0 -> 1)
            if (!(it.ro >= 1e-6) || (k == 0 && !(it.ro <= 10.0)) ||
                (k > 0 && it.ro != g_al.iters[k - 1].ro && (k == 1 || it.ro != gamma * g_al.iters[k - 1].ro)))
                fail("al-ro-range", id, where(it));
            if (it.ok && it.crit < it.old && it.have_done)
            {
                last_update = static_cast<int>(k);
                if (it.bmeq != it.lambda || it.bmineq != it.miu) fail("al-stored-multipliers", id, where(it));
            }
            if (it.ok && it.smooth)
            {
                // the gradient of the augmented Lagrangian at the inner solution (as the library computed it) is the
                // gradient of the ordinary Lagrangian at lambda + ro h, max(0, miu + ro g)
                lvec L, mag, gsum;
                lagrangian(it.cx, [&](bool eq, size_t i, const ceval_t& ev)
                           {
                               const ld m = eq ? static_cast<ld>(it.lambda[i]) + static_cast<ld>(it.ro) * ev.val
                                               : std::max<ld>(0, static_cast<ld>(it.miu[i]) + static_cast<ld>(it.ro) * ev.val);
                               return std::make_pair(m, static_cast<ld>(it.ro) * (ev.mag + fabsl(ev.val)) + fabsl(eq ? it.lambda[i] : it.miu[i]));
                           }, L, mag, gsum);
                bool same = true;
                for (size_t j = 0; j < n && same; ++j)
                    same = !std::isfinite(it.cgx[j]) || fabsl(L[j] - it.cgx[j]) <= 1e-9L * mag[j] + 1e-300L;
                g_count["alo-gradient-identity-checked"]++;
                if (!same) fail("al-gradient-identity", id, "cgx=" + hexv(it.cgx) + " cx=" + hexv(it.cx) + " " + where(it));
                // ... and the multipliers the NEXT inner solve really uses make this inner solution stationary for the
                // ordinary Lagrangian to the same degree (the first-order update with the penalty this solve used),
                // unless a clamp was hit
                if (k + 1 < g_al.iters.size() && g_al.iters[k + 1].have_mult)
                {
                    const auto& nx      = g_al.iters[k + 1];
                    bool        inside = true;
                    for (const auto l : nx.lambda) inside = inside && l > lmin && l < lmax;
                    for (const auto m : nx.miu) inside = inside && m < miu_max;
                    if (inside)
                    {
                        lagrangian(it.cx, [&](bool eq, size_t i, const ceval_t& ev)
                                   {
                                       return std::make_pair(static_cast<ld>(eq ? nx.lambda[i] : nx.miu[i]),
                                                             static_cast<ld>(it.ro) * (ev.mag + fabsl(ev.val)) + fabsl(eq ? it.lambda[i] : it.miu[i]));
                                   }, L, mag, gsum);
                        bool stationary = true;
                        for (size_t j = 0; j < n && stationary; ++j)
                            stationary = !std::isfinite(it.cgx[j]) || fabsl(L[j] - it.cgx[j]) <= 1e-9L * mag[j] + 1e-300L;
                        g_count["alo-next-multipliers-checked"]++;
                        if (!stationary)
                            fail("al-next-multipliers-stationary", id, "next lambda=" + hexv(nx.lambda) + " next miu=" + hexv(nx.miu) + " cgx=" + hexv(it.cgx) + " cx=" + hexv(it.cx) + " " + where(it));
                    }
                }
            }
        }
        if (converged && last_update >= 0 && !g_al.iters.empty() && g_al.iters.back().have_mult)
        {
            const auto& it = g_al.iters[static_cast<size_t>(last_update)];
            g_count["alo-kkt-checked"]++;
            const auto rmeq = from_vector(state_meq(state)), rmineq = from_vector(state_mineq(state));
            if (rmeq != it.lambda || rmineq != it.miu || xr != it.cx) fail("al-returned-multipliers", id, where(it));
            else
            {
                // stationarity with the returned multipliers, recomputed from the problem
                lvec L, mag, gsum;
                lagrangian(xr, [&](bool eq, size_t i, const ceval_t&) { return std::make_pair(static_cast<ld>(eq ? rmeq[i] : rmineq[i]), static_cast<ld>(0)); },
                           L, mag, gsum);
                ld s5 = 0, m5 = 0, bound = 0, cinf = 0;
                for (const auto v : it.cgx) cinf = std::max(cinf, fabsl(v));
                for (size_t j = 0; j < n; ++j)
                {
                    s5    = std::max(s5, fabsl(L[j]));
                    m5    = std::max(m5, mag[j]);
                    bound = std::max(bound, cinf + static_cast<ld>(it.ro) * it.crit * gsum[j] + 1e-9L * (mag[j] + static_cast<ld>(it.ro) * it.crit * gsum[j]));
                }
                if (fabsl(s5 - state.kkt_optimality_test5()) > 1e-9L * m5 + 1e-300L)
                    fail("al-kkt-stationarity-stored", id, "recomputed " + vh::hexf(static_cast<double>(s5)) + " stored " + vh::hexf(state.kkt_optimality_test5()) + " " + where(it));
                if (it.smooth && s5 > bound)
                    fail("al-kkt-stationarity-bound", id, "recomputed " + vh::hexf(static_cast<double>(s5)) + " bound " + vh::hexf(static_cast<double>(bound)) + " " + where(it));
                // approximate complementarity: what make_criterion's max(g, -miu/ro) measures
                for (size_t i = 0; i < rmineq.size(); ++i)
                {
                    const auto gi = state.cineq()(static_cast<tensor_size_t>(i));
                    const auto v  = std::fabs(std::max(gi, -rmineq[i] / it.ro));
                    const auto mp = std::max(0.0, rmineq[i] + it.ro * gi);
                    if (!(rmineq[i] >= 0.0) || !(v <= eps) || (mp > 0.0 && !(gi >= -eps * (1.0 + 1e-12))))
                        fail("al-kkt-complementarity", id, "inequality " + std::to_string(i) + " g=" + vh::hexf(gi) + " " + where(it));
                }
                if (!(it.crit <= eps)) fail("al-kkt-criterion", id, where(it));
            }
        }
    }
    if (!g_al.iters.empty() && g_al.iters.back().have_done && converged != g_al.iters.back().done_conv)
        fail("al-status-vs-done", id, problem());
    {
        tensor_size_t je = 0, ji = 0;
        ld            worst = 0, worst_stored = 0;
        bool          stale = false;
        const tol_t   tol{false};
        for (size_t i = 0; i < cs.size(); ++i)
        {
            const bool eq     = own_is_eq(cs[i].kind);
            const auto stored = eq ? state.ceq()(je) : state.cineq()(ji);
            (eq ? je : ji)++;
            const auto again = ::nano::vgrad(function->constraints()[i], state.x());
            const auto own   = own_eval(cs[i], xr);
            if (std::isfinite(stored) && (stored != again || !tol.ok(stored, own.val, own.mag))) stale = true;
            const ld v  = eq ? fabsl(own.val) : std::max<ld>(0, own.val);
            const ld vs = eq ? fabsl(stored) : std::max<ld>(0, stored);
            worst        = std::max(worst, v - 1e-11L * (own.mag + fabsl(own.val)));
            worst_stored = std::max(worst_stored, vs);
        }
        if (stale) fail("al-stored-constraints", id, problem());
        if (converged)
        {
            g_count["al-converged"]++;
            if (worst_stored > eps || worst > eps || state.kkt_optimality_test1() > eps || state.kkt_optimality_test2() > eps)
                fail("al-converged-infeasible", id, "violation " + vh::hexf(static_cast<double>(std::max(worst, worst_stored))) + " > " + problem());
            if (infeasible) fail("al-converged-on-infeasible-problem", id, problem());
        }
    }
    (void)verbose;
}
// ------------------------------------------------------------------------------------------------------------
// one run of solver_linear_penalty_t / solver_quadratic_penalty_t (extension "outer")
// ------------------------------------------------------------------------------------------------------------
void ps_case(uint64_t seed, const std::string& id, bool verbose)
{
    vh::rng_t pick(seed);
    gen_t     g(pick.next(), false);
    auto&     rng = g.rng;
    problem_t prob;
    if (!make_problem(g, id, prob)) return;
    const auto n        = prob.n;
    auto&      xs       = prob.xs;
    auto&      cs       = prob.cs;
    auto&      function = prob.function;
    auto&      descr    = prob.descr;

    // 20%: the objective gets a restricted domain (NaN outside a box around the reference point)
    const bool domain = descr.rfind("poly", 0) == 0 && rng.range(0, 4) == 0;
    if (domain)
    {
        const auto* poly = dynamic_cast<const poly_function_t*>(function.get());
        auto        dfun = std::make_unique<domain_function_t>(poly->m_P, poly->m_q, xs, 1.0 + 3.0 * rng.unit());
        for (const auto& c : cs) dfun->constrain(make_constraint(c, n));
        function = std::move(dfun);
        descr    = "domain" + descr.substr(4);
    }

    const bool quadratic = rng.range(0, 2) != 0;
    // non-smooth problems are minimised with OSGA whatever the penalty (slow): keep their budget small
    rsolver_t  solver = quadratic ? rsolver_t{std::make_unique<solver_quadratic_penalty_t>()} : rsolver_t{std::make_unique<solver_linear_penalty_t>()};
    const auto eps    = std::pow(10.0, -9.0 + 5.0 * rng.unit());
    solver->parameter("solver::epsilon") = eps;
    double eta = 5.0, penalty0 = 10.0, epsK = 0.5, eps0 = quadratic ? 1e-6 : 1e-8;
    int    max_outers = 20;
    if (rng.range(0, 2) == 0)
    {
        eta        = 1.0 + std::pow(10.0, -1.0 + 2.0 * rng.unit());
        penalty0   = std::pow(10.0, -3.0 + 6.0 * rng.unit());
        epsK       = 0.1 + 0.9 * rng.unit();
        max_outers = static_cast<int>(rng.range(10, 30));
        if (rng.range(0, 1)) eps0 = std::pow(10.0, -9.0 + 6.0 * rng.unit());
        solver->parameter("solver::penalty::eta")             = eta;
        solver->parameter("solver::penalty::penalty0")        = penalty0;
        solver->parameter("solver::penalty::epsilonK")        = epsK;
        solver->parameter("solver::penalty::max_outer_iters") = max_outers;
        solver->parameter("solver::penalty::epsilon0")        = eps0;
    }
    const bool smooth_problem = quadratic && function->smooth() &&
                                std::all_of(function->constraints().begin(), function->constraints().end(), [](const auto& c) { return ::nano::smooth(c); });
    solver->parameter("solver::max_evals") = smooth_problem ? (rng.range(0, 4) == 0 ? rng.range(20, 300) : 1000) : rng.range(50, 400);

    dvec       x0(n);
    const auto where = rng.range(0, 9);
    for (size_t j = 0; j < n; ++j) x0[j] = where == 0 ? xs[j] : (where == 1 ? (rng.unit() * 2.0 - 1.0) * 1e2 : xs[j] + rng.unit() * 4.0 - 2.0);
    const auto x0v = to_vector(x0);

    const auto s0 = solver_state_t{*function, x0v};
    const auto vstr = [](const dvec& v) { return v.empty() ? std::string("-") : hexv(v); };
    std::printf("PS %s | %s | %s | %s | %s | %s | %s | %d | %s | %s | %s | %s | %d | %s :: %s\n", id.c_str(), quadratic ? "quad" : "lin",
                vh::hexf(eps).c_str(), vh::hexf(eta).c_str(), vh::hexf(penalty0).c_str(), vh::hexf(eps0).c_str(), vh::hexf(epsK).c_str(),
                max_outers, hexv(x0).c_str(), vh::hexf(s0.fx()).c_str(), vstr(from_vector(s0.ceq())).c_str(),
                vstr(from_vector(s0.cineq())).c_str(), s0.valid() ? 1 : 0, descr.c_str(), describe_all(cs, x0).c_str());

    g_ps.function = function.get();
    g_ps.iters.clear();
    g_ps.open       = false;
    g_ps.anomaly    = false;
    g_ps.inner_done = 0;
    const auto logger = make_null_logger();
    const auto state  = solver->minimize(*function, x0v, logger);
    g_ps.function     = nullptr;

    const auto& iters = g_ps.iters;
    g_count[std::string("ps-solver:") + (quadratic ? "quadratic" : "linear")]++;
    g_count["ps-family:" + descr.substr(0, descr.find('+'))]++;
    g_count[std::string("ps-status:") + std::to_string(static_cast<int>(state.status()))]++;
    g_count["ps-outer-iterations"] += static_cast<long>(iters.size());
    g_count["ps-inner-done-events"] += g_ps.inner_done;

    for (size_t k = 0; k < iters.size(); ++k)
    {
        const auto& it = iters[k];
        if (!it.ok) g_count["ps-skipped-iterations"]++;
        if (it.ok)
            std::printf("PSIT %s %zu | %s | 1 | %s | %s | %s | %s | %d = %d | %d | %d\n", id.c_str(), k, vh::hexf(it.penalty).c_str(),
                        hexv(it.cx).c_str(), vh::hexf(it.fx).c_str(), vstr(it.ceq).c_str(), vstr(it.cineq).c_str(), it.bvalid ? 1 : 0,
                        it.conv ? 1 : 0, it.stop ? 1 : 0, it.status);
        else std::printf("PSIT %s %zu | %s | 0 | - | - | - | - | 0 = 0 | 0 | 0\n", id.c_str(), k, vh::hexf(it.penalty).c_str());
    }
    const auto xr = from_vector(state.x());
    std::printf("PSEND %s | %d | %s | %s | %s | %s | %d | %zu\n", id.c_str(), static_cast<int>(state.status()), hexv(xr).c_str(),
                vh::hexf(state.fx()).c_str(), vstr(from_vector(state.ceq())).c_str(), vstr(from_vector(state.cineq())).c_str(),
                state.valid() ? 1 : 0, iters.size());

    // ---- direct oracles (independent of the model) ------------------------------------------------------------
    const auto problem = [&]() { return std::string(quadratic ? "quadratic" : "linear") + "-penalty eps=" + vh::hexf(eps) + " eta=" + vh::hexf(eta) + " penalty0=" + vh::hexf(penalty0) + " max_outers=" + std::to_string(max_outers) + " x0=" + hexv(x0) + " x=" + hexv(xr) + " " + descr + " :: " + describe_all(cs, xr); };
    if (g_ps.anomaly || iters.empty()) fail("ps-hooks-missing", id, problem());
    // the penalty of the k-th inner solve is penalty0 * eta^k (one double multiplication per iteration), at most max_outers solves
    bool seq = !iters.empty() && iters.size() <= static_cast<size_t>(max_outers) && iters[0].penalty == penalty0;
    for (size_t k = 1; k < iters.size() && seq; ++k) seq = iters[k].penalty == iters[k - 1].penalty * eta;
    if (!seq)
    {
        std::string ps;
        for (const auto& it : iters) ps += (ps.empty() ? "" : ",") + vh::hexf(it.penalty);
        fail("ps-penalty-sequence", id, "penalties=" + ps + " " + problem());
    }
    // done()'s decisions and ::nano::converged, recomputed here; the best point is the last usable inner solution
    dvec bx   = x0;
    bool over = false;
    for (size_t k = 0; k < iters.size(); ++k)
    {
        const auto& it = iters[k];
        if (over) fail("ps-iteration-after-stop", id, problem());
        if (!it.ok) continue;
        double dx = 0.0, bn = 0.0;
        for (size_t i = 0; i < n; ++i) dx = std::max(dx, std::fabs(it.cx[i] - bx[i])), bn = std::max(bn, std::fabs(bx[i]));
        const bool own_conv = dx < eps * std::max(1.0, bn);
        if (!it.done_ok || own_conv != it.conv || !it.have_exit || it.stop != (it.conv || !it.bvalid) ||
            (it.stop && it.status != ((it.conv && it.bvalid) ? 1 : 2)))
            fail("ps-done-decisions", id, "iteration " + std::to_string(k) + " cx=" + hexv(it.cx) + " bx=" + hexv(bx) + " " + problem());
        bx   = it.cx;
        over = it.stop;
    }
    if (xr != bx) fail("ps-returned-point", id, "expected " + hexv(bx) + " " + problem());
    if (!over && !iters.empty() && (iters.size() != static_cast<size_t>(max_outers) || state.status() != solver_status::max_iters))
        fail("ps-exhausted", id, std::to_string(iters.size()) + " inner solves " + problem());
    if (over && static_cast<int>(state.status()) != iters.back().status) fail("ps-status", id, problem());
    // the returned state is a state of the ORIGINAL function: value, constraint values recomputed from the problem
    if (&state.function() != function.get()) fail("ps-state-function", id, problem());
    {
        vector_t   gx{static_cast<tensor_size_t>(n)};
        const auto fx = function->vgrad(state.x(), gx);
        bool       same = (fx == state.fx()) || (std::isnan(fx) && std::isnan(state.fx()));
        tensor_size_t je = 0, ji = 0;
        const tol_t   tol{false};
        ld            worst = 0;
        for (size_t i = 0; i < cs.size() && state.valid(); ++i)
        {
            const bool eq     = own_is_eq(cs[i].kind);
            const auto stored = eq ? state.ceq()(je) : state.cineq()(ji);
            (eq ? je : ji)++;
            const auto own = own_eval(cs[i], xr);
            same           = same && stored == ::nano::vgrad(function->constraints()[i], state.x()) && tol.ok(stored, own.val, own.mag);
            worst          = std::max(worst, eq ? fabsl(stored) : std::max<ld>(0, stored));
        }
        if (!same) fail("ps-state-reevaluated", id, "fx " + vh::hexf(state.fx()) + " vs " + vh::hexf(fx) + " " + problem());
        // NOT part of the property: `converged` of a penalty solver does not mean feasible (counted, first case shown)
        if (state.status() == solver_status::converged)
        {
            g_count["ps-converged"]++;
            if (worst > eps)
            {
                g_count[std::string("ps-converged-infeasible:") + (quadratic ? "quadratic" : "linear")]++;
                if (!prob.infeasible) g_count["ps-converged-infeasible-on-feasible-problem"]++;
                if (verbose) std::printf("NOTE ps-converged-infeasible %s violation %s > eps %s %s\n", id.c_str(), vh::hexf(static_cast<double>(worst)).c_str(), vh::hexf(eps).c_str(), problem().c_str());
            }
        }
    }
}
} // namespace

int main(int argc, char** argv)
{
    std::setvbuf(stdout, nullptr, _IOLBF, 0);
    const auto  seed = vh::env_seed();
    std::string tier = argc > 1 ? argv[1] : "quick";
    init_library_ids();
    verif::g_values_hook.store(&on_values);
    verif::g_event_hook.store(&on_event);

    if (tier == "case" && argc >= 4)
    {
        const std::string what  = argv[2];
        const auto        index = std::strtoull(argv[3], nullptr, 10);
        const auto        chunk = argc > 4 ? std::strtoull(argv[4], nullptr, 10) : 0ULL;
        const auto        id    = std::to_string(chunk) + "." + std::to_string(index);
        if (what == "pen") pen_case(mix(seed, 1 + 2 * chunk, index), "p" + id, true);
        else if (what == "ps") ps_case(mix(seed ^ 0x5053ULL, 1 + 2 * chunk, index), "s" + id, true);
        else al_case(mix(seed, 2 + 2 * chunk, index), "a" + id, true);
        std::printf("DONE fails=%ld\n", g_fails);
        return 0;
    }

    uint64_t npen = tier == "thorough" ? 4000 : 1500;
    uint64_t nal  = tier == "thorough" ? 600 : 200;
    uint64_t chunk = 0;
    if (argc > 2) npen = std::strtoull(argv[2], nullptr, 10);
    if (argc > 3) nal = std::strtoull(argv[3], nullptr, 10);
    if (argc > 4) chunk = std::strtoull(argv[4], nullptr, 10);
    uint64_t nps = 0;
    if (argc > 5) nps = std::strtoull(argv[5], nullptr, 10);

    for (uint64_t i = 0; i < npen; ++i) pen_case(mix(seed, 1 + 2 * chunk, i), "p" + std::to_string(chunk) + "." + std::to_string(i), false);
    for (uint64_t i = 0; i < nal; ++i) al_case(mix(seed, 2 + 2 * chunk, i), "a" + std::to_string(chunk) + "." + std::to_string(i), false);
    for (uint64_t i = 0; i < nps; ++i) ps_case(mix(seed ^ 0x5053ULL, 1 + 2 * chunk, i), "s" + std::to_string(chunk) + "." + std::to_string(i), false);

    std::string counters;
    for (const auto& [k, v] : g_count) counters += " " + k + "=" + std::to_string(v);
    std::printf("DONE pen=%" PRIu64 " al=%" PRIu64 " ps=%" PRIu64 " fails=%ld%s\n", npen, nal, nps, g_fails, counters.c_str());
    return 0;
}
