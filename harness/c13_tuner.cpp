// C13 harness: runs the real tuners (tuner_t::optimize for "local-search" and "surrogate"), nano::local_search and
// ml::tune on generated grids / landscapes / fold tables and prints one line per operation for the extracted model.
// The property's own oracle (independent of the model) is applied here: FAIL lines carry a replayable case id.
//
//   c13_tuner <quick|thorough> [case-index]      (every case derives from VERIF_SEED and its index)
//
// line formats (igrid = i,j,k ; value key = order-preserving int64 image of the finite double, `nf` = non-finite)
//   LS lo | hi | src | radius = g;g;...
//   OPT id kind max_evals sizes | batch;batch;... | ok|nonfinite|abort | steps        (batch, steps: `igrid:key igrid:key ...`)
//   (stage SURR, exact dyadic numbers are written `n@e` = n * 2^e)
//   OPT lines of the surrogate tuner carry two more fields: ` | t,t,..;t,t,.. (to_surrogate of every grid value per space)
//       | n:valid:x,x,..;... (inner-solver answer min_state_opt.x() observed at the NANO_VERIF solver_t::done hook, n = evaluations so far)`
//   SGV id d | m,m,.. | x,x,.. = size | value | g,g,..                      (quadratic_surrogate_t)
//   SGF id d n | p,p;p,p;.. | y,y,.. | c,c,.. = size | value | g,g,.. | convex   (quadratic_surrogate_fit_t with the mse loss)
//   MAP id lin|log exact | grid | ts | x | v = point | closest value | from_surrogate(x) | to_surrogate(v) or throw
//   TUNE id folds | n1,n2,... | t:f t:f ...;... (observed tasks per batch, sorted) | M,M,..;... (trial x fold) | optimum
#include "common.h"
#include <algorithm>
#include <any>
#include <atomic>
#include <filesystem>
#include <map>
#include <mutex>
#include <nano/machine/params.h>
#include <nano/machine/result.h>
#include <nano/machine/tune.h>
#include <nano/splitter.h>
#include <nano/tuner.h>
#include <nano/tuner/util.h>
#include <nano/tuner/surrogate.h>
#include <nano/loss.h>
#include <nano/solver/state.h>
#include <nano/verif.h>
#include <set>
#include <thread>

using namespace nano;

namespace
{
using igr = std::vector<int64_t>;

int64_t vkey(const double v)
{
    if (v == 0.0) { return 0; }
    int64_t b = 0;
    std::memcpy(&b, &v, sizeof(b));
    return b >= 0 ? b : -(b & 0x7FFFFFFFFFFFFFFFLL);
}

std::string skey(const double v)
{
    return std::isfinite(v) ? std::to_string(vkey(v)) : std::string("nf");
}

std::string sg(const igr& g)
{
    return vh::join(g.begin(), g.end());
}

std::string sg(const indices_t& g)
{
    return vh::join(g.begin(), g.end());
}

uint64_t mix(uint64_t a, uint64_t b)
{
    vh::rng_t r(a * 0x9E3779B97F4A7C15ULL + b + 0x1234567ULL);
    r.next();
    return r.next();
}

int g_fail = 0;
void fail(const std::string& tag, const std::string& caseid, const std::string& what)
{
    ++g_fail;
    std::printf("FAIL %s %s :: %s\n", tag.c_str(), caseid.c_str(), what.c_str());
}

// ------------------------------------------------------------------------------------------------
// grids
// ------------------------------------------------------------------------------------------------
struct grids_t
{
    std::vector<std::vector<double>> m_values;
    std::vector<int>                 m_log;

    size_t dims() const { return m_values.size(); }

    param_spaces_t spaces() const
    {
        param_spaces_t sp;
        for (size_t i = 0; i < m_values.size(); ++i)
        {
            tensor1d_t v(static_cast<tensor_size_t>(m_values[i].size()));
            for (size_t k = 0; k < m_values[i].size(); ++k) { v(static_cast<tensor_size_t>(k)) = m_values[i][k]; }
            sp.emplace_back("p" + std::to_string(i), m_log[i] ? param_space_t::type::log10 : param_space_t::type::linear, v);
        }
        return sp;
    }

    // exact inverse of map_to_grid for one coordinate (-1: not a grid value)
    int64_t find(const size_t i, const double v) const
    {
        for (size_t k = 0; k < m_values[i].size(); ++k)
        {
            if (m_values[i][k] == v) { return static_cast<int64_t>(k); }
        }
        return -1;
    }

    int64_t total() const
    {
        int64_t t = 1;
        for (const auto& v : m_values) { t *= static_cast<int64_t>(v.size()); }
        return t;
    }

    int64_t flat(const igr& g) const
    {
        int64_t o = 0;
        for (size_t i = 0; i < g.size(); ++i) { o = o * static_cast<int64_t>(m_values[i].size()) + g[i]; }
        return o;
    }

    std::string sizes() const
    {
        igr s;
        for (const auto& v : m_values) { s.push_back(static_cast<int64_t>(v.size())); }
        return sg(s);
    }
};

int64_t pick_size(vh::rng_t& rng)
{
    switch (rng.range(0, 9))
    {
    case 0: return 2;
    case 1: return 3;
    case 2: return 31;
    case 3: return rng.range(4, 6);
    case 4: return rng.range(16, 17); // around powers of two: the coarse radius doubles
    default: return rng.range(2, 31);
    }
}

grids_t make_grids(vh::rng_t& rng, const int dims, const int64_t max_total)
{
    grids_t g;
    for (int i = 0; i < dims; ++i)
    {
        int64_t n = pick_size(rng);
        while (g.total() * n > max_total && n > 2) { n = std::max<int64_t>(2, n / 2); }
        const bool          lg = rng.range(0, 2) == 0;
        std::vector<double> v;
        if (lg)
        {
            static const double facs[] = {10.0, 2.0, 1.5, 3.1622776601683795};
            const double        fac    = facs[rng.range(0, 3)];
            double              x      = std::pow(10.0, static_cast<double>(-rng.range(0, 6)));
            for (int64_t k = 0; k < n; ++k)
            {
                v.push_back(x);
                x *= fac;
            }
        }
        else
        {
            static const double incs[] = {0.1, 0.25, 1.0, 0.01, 3.0};
            double              x      = static_cast<double>(rng.range(-5, 5));
            const auto          mode   = rng.range(0, 2);
            const double        inc    = incs[rng.range(0, 4)];
            for (int64_t k = 0; k < n; ++k)
            {
                v.push_back(x);
                x += (mode == 0) ? inc : (inc * (0.25 + rng.unit()));
            }
        }
        g.m_values.push_back(v);
        g.m_log.push_back(lg ? 1 : 0);
    }
    return g;
}

// ------------------------------------------------------------------------------------------------
// landscapes: a full table of doubles over the grid (row-major)
// ------------------------------------------------------------------------------------------------
std::string make_landscape(vh::rng_t& rng, const grids_t& g, std::vector<double>& table, const bool allow_nonfinite)
{
    const auto          d = g.dims();
    const auto          T = g.total();
    std::vector<int64_t> sz;
    for (const auto& v : g.m_values) { sz.push_back(static_cast<int64_t>(v.size())); }
    table.assign(static_cast<size_t>(T), 0.0);

    const auto unflat = [&](int64_t o)
    {
        igr x(d);
        for (size_t i = d; i-- > 0;)
        {
            x[i] = o % sz[i];
            o /= sz[i];
        }
        return x;
    };
    const auto corner_or_any = [&](const size_t i) -> int64_t
    {
        switch (rng.range(0, 4))
        {
        case 0: return 0;
        case 1: return sz[i] - 1;
        case 2: return sz[i] / 2;
        default: return rng.range(0, sz[i] - 1);
        }
    };

    const auto  kind = rng.range(0, 11);
    std::string name;
    igr         c(d), c2(d), w(d);
    for (size_t i = 0; i < d; ++i)
    {
        c[i]  = corner_or_any(i);
        c2[i] = corner_or_any(i);
        w[i]  = rng.range(1, 3);
    }
    const auto bowl = [&](const igr& x, const igr& cc)
    {
        int64_t s = 0;
        for (size_t i = 0; i < d; ++i) { s += w[i] * (x[i] - cc[i]) * (x[i] - cc[i]); }
        return s;
    };
    const int64_t K = rng.range(2, 40);
    for (int64_t o = 0; o < T; ++o)
    {
        const auto x = unflat(o);
        double     v = 0.0;
        switch (kind)
        {
        case 0: // integer bowl (ties by symmetry), minimum possibly at a corner
            name = "bowl";
            v    = static_cast<double>(bowl(x, c));
            break;
        case 1: // plateaus: floor(bowl / K)
            name = "plateau";
            v    = static_cast<double>(bowl(x, c) / K);
            break;
        case 2: // few distinct values: heavy ties
            name = "fewvalues";
            v    = static_cast<double>(static_cast<int64_t>(mix(rng.s, static_cast<uint64_t>(o)) % static_cast<uint64_t>(K < 6 ? K : 3)));
            break;
        case 3: // tie-free random doubles
            name = "randomdistinct";
            v    = static_cast<double>(mix(rng.s, static_cast<uint64_t>(o)) >> 11) * (1.0 / 9007199254740992.0) - 0.5;
            break;
        case 4: // constant: everything ties
            name = "constant";
            v    = 1.5;
            break;
        case 5: // ramp towards a corner (long walks: reaches the max_evals bound)
            name = "ramp";
            for (size_t i = 0; i < d; ++i) { v += static_cast<double>((c[i] == 0 ? x[i] : (sz[i] - 1 - x[i])) * w[i]); }
            break;
        case 6: // two basins
            name = "twobasins";
            v    = static_cast<double>(std::min(bowl(x, c), bowl(x, c2) + (K % 3)));
            break;
        case 7: // tie-free bowl with a tiny tie-breaking perturbation
            name = "bowldistinct";
            v    = static_cast<double>(bowl(x, c)) + static_cast<double>(o) * 1e-7;
            break;
        case 8: // wide dynamic range, negative values, denormals
            name = "extremes";
            {
                static const double ex[] = {-1e300, -1.0, -1e-310, -0.0, 0.0, 4.9e-324, 1e-310, 1.0, 1e300, 1.7976931348623157e308};
                v                        = ex[mix(rng.s, static_cast<uint64_t>(o)) % 10];
            }
            break;
        case 9: // ridge: only one coordinate matters (plateau along the others)
            name = "ridge";
            v    = static_cast<double>((x[0] - c[0]) * (x[0] - c[0]));
            break;
        case 10: // maximum in the middle: minima at the corners (ties among corners)
            name = "cap";
            v    = -static_cast<double>(bowl(x, c));
            break;
        default: // checkerboard of two values around a bowl
            name = "checker";
            {
                int64_t p = 0;
                for (size_t i = 0; i < d; ++i) { p += x[i]; }
                v = static_cast<double>(bowl(x, c) / K) + ((p % 2 == 0) ? 0.0 : 0.5);
            }
            break;
        }
        table[static_cast<size_t>(o)] = v;
    }
    if (allow_nonfinite && rng.range(0, 5) == 0)
    {
        // non-finite values: at the start point, next to it, or scattered
        const auto   where = rng.range(0, 3);
        const double bad[] = {std::nan(""), HUGE_VAL, -HUGE_VAL};
        const double b     = bad[rng.range(0, 2)];
        igr          a(d);
        for (size_t i = 0; i < d; ++i) { a[i] = sz[i] / 2; }
        if (where == 0) { table[static_cast<size_t>(g.flat(a))] = b; }
        else if (where == 1)
        {
            const auto i = static_cast<size_t>(rng.range(0, static_cast<int64_t>(d) - 1));
            a[i]         = std::clamp<int64_t>(a[i] + (rng.range(0, 1) ? 1 : -1) * (rng.range(0, 1) ? 1 : 2), 0, sz[i] - 1);
            table[static_cast<size_t>(g.flat(a))] = b;
        }
        else
        {
            const auto n = rng.range(1, std::max<int64_t>(1, T / 8));
            for (int64_t k = 0; k < n; ++k) { table[static_cast<size_t>(rng.range(0, T - 1))] = b; }
        }
        name += "+nonfinite";
    }
    return name;
}

// ------------------------------------------------------------------------------------------------
// direct calls of nano::local_search
// ------------------------------------------------------------------------------------------------
indices_t to_indices(const igr& g)
{
    indices_t t(static_cast<tensor_size_t>(g.size()));
    for (size_t i = 0; i < g.size(); ++i) { t(static_cast<tensor_size_t>(i)) = g[i]; }
    return t;
}

void run_ls(vh::rng_t& rng, const std::string& caseid)
{
    const auto d = static_cast<size_t>(rng.range(1, 4));
    igr        lo(d), hi(d), src(d);
    const bool zero_lo = rng.range(0, 2) != 0;
    for (size_t i = 0; i < d; ++i)
    {
        lo[i] = zero_lo ? 0 : rng.range(-3, 3);
        hi[i] = lo[i] + rng.range(0, 30);
        switch (rng.range(0, 5))
        {
        case 0: src[i] = lo[i]; break;
        case 1: src[i] = hi[i]; break;
        case 2: src[i] = rng.range(lo[i] - 2, hi[i] + 2); break; // possibly outside
        default: src[i] = rng.range(lo[i], hi[i]); break;
        }
    }
    static const int64_t radii[] = {1, 1, 1, 2, 2, 4, 8, 16, 32, 3, 5, 0, -1, 64};
    const int64_t        radius  = radii[rng.range(0, 13)];

    const auto out = local_search(to_indices(lo), to_indices(hi), to_indices(src), radius);

    std::string s;
    for (size_t k = 0; k < out.size(); ++k)
    {
        if (k) { s += ";"; }
        s += sg(out[k]);
    }
    std::printf("LS %s | %s | %s | %" PRId64 " = %s\n", sg(lo).c_str(), sg(hi).c_str(), sg(src).c_str(), radius, s.c_str());

    // direct oracle: in range, at offsets {-r,0,r}, pairwise distinct (r != 0), and as many as the product of the valid offsets
    int64_t           expected = 1;
    std::set<igr>     seen;
    const std::string id = caseid + " lo=" + sg(lo) + " hi=" + sg(hi) + " src=" + sg(src) + " radius=" + std::to_string(radius);
    for (size_t i = 0; i < d; ++i)
    {
        int64_t n = 0;
        for (int o = -1; o <= 1; ++o)
        {
            const auto x = src[i] + o * radius;
            if (x >= lo[i] && x <= hi[i]) { ++n; }
        }
        expected *= n;
    }
    for (const auto& g : out)
    {
        igr x(d);
        for (size_t i = 0; i < d; ++i)
        {
            x[i]         = g(static_cast<tensor_size_t>(i));
            const auto o = x[i] - src[i];
            if (x[i] < lo[i] || x[i] > hi[i]) { fail("LS-RANGE", id, "point " + sg(g) + " outside the grid"); }
            if (!(o == 0 || o == radius || o == -radius)) { fail("LS-OFFSET", id, "point " + sg(g) + " not at offset -r/0/+r"); }
        }
        if (radius != 0 && !seen.insert(x).second) { fail("LS-DUP", id, "point " + sg(g) + " returned twice"); }
    }
    if (static_cast<int64_t>(out.size()) != expected)
    {
        fail("LS-COUNT", id, "returned " + std::to_string(out.size()) + " points, expected " + std::to_string(expected));
    }
}


// ------------------------------------------------------------------------------------------------
// stage SURR: exact dyadic output, the solver hook, direct calls of the surrogate functions and of param_space_t
// ------------------------------------------------------------------------------------------------
// a finite double as `n@e` (= n * 2^e, n odd or zero)
std::string sq(const double v)
{
    if (!std::isfinite(v)) { return "nf"; }
    if (v == 0.0) { return "0@0"; }
    int        e  = 0;
    const auto fr = std::frexp(v, &e);
    auto       n  = static_cast<int64_t>(std::ldexp(fr, 53));
    e -= 53;
    while ((n % 2) == 0)
    {
        n /= 2;
        ++e;
    }
    return std::to_string(n) + "@" + std::to_string(e);
}

template <class tvec>
std::string sqv(const tvec& v)
{
    std::string s;
    for (tensor_size_t i = 0; i < v.size(); ++i)
    {
        if (i) { s += ","; }
        s += sq(v(i));
    }
    return s;
}

std::string sqv(const std::vector<double>& v)
{
    std::string s;
    for (size_t i = 0; i < v.size(); ++i)
    {
        if (i) { s += ","; }
        s += sq(v[i]);
    }
    return s;
}

// the inner-solver answers of one surrogate tuner run (solver_t::done exit events; the fit has more unknowns than the surrogate)
struct answer_t
{
    int64_t             m_evals{0};
    bool                m_valid{false};
    std::vector<double> m_x;
};
struct recorder_t
{
    bool                  m_on{false};
    tensor_size_t         m_dims{0};
    const std::map<igr, double>* m_evaluated{nullptr};
    bool                  m_last_is_opt{false};
    answer_t              m_cur;
    std::vector<answer_t> m_answers;

    void flush()
    {
        if (m_last_is_opt) { m_answers.push_back(m_cur); }
        m_last_is_opt = false;
    }
};
recorder_t g_rec;

void on_solver_event(const int kind, const void* object, const std::uint64_t, const std::uint64_t)
{
    if (!g_rec.m_on || kind != verif::ev_solver_exit) { return; }
    const auto* st = static_cast<const solver_state_t*>(object);
    if (st->x().size() == g_rec.m_dims)
    {
        g_rec.m_cur.m_evals = static_cast<int64_t>(g_rec.m_evaluated->size());
        g_rec.m_cur.m_valid = st->valid();
        g_rec.m_cur.m_x.assign(st->x().data(), st->x().data() + st->x().size());
        g_rec.m_last_is_opt = true;
    }
    else { g_rec.flush(); } // an event of the next fit: the previous surrogate minimisation is over
}

// the closed form of the coefficient index of the cross term (i, j), i <= j (independent of the library's walk)
int64_t cross_index(const int64_t d, const int64_t i, const int64_t j)
{
    return d + 1 + i * d - i * (i - 1) / 2 + (j - i);
}

struct surr_stats_t
{
    int64_t m_sgv{0}, m_sgf{0}, m_map{0}, m_map_ties{0}, m_map_log{0}, m_answers{0}, m_invalid_answers{0};
};

double dyadic(vh::rng_t& rng, const int64_t range, const double unit)
{
    return static_cast<double>(rng.range(-range, range)) * unit;
}

void run_sgv(vh::rng_t& rng, const std::string& caseid, surr_stats_t& stats)
{
    static const int64_t ds[] = {1, 2, 3, 3, 4, 4, 5, 6, 7, 3};
    const auto           d    = ds[rng.range(0, 9)];
    const auto           n    = (d + 1) * (d + 2) / 2;
    const auto           mode = rng.range(0, 3); // 0: dense, 1: one cross term only, 2: one coefficient only, 3: dense small
    vector_t             model(n);
    for (tensor_size_t k = 0; k < n; ++k) { model(k) = (mode == 0 || mode == 3) ? dyadic(rng, mode == 0 ? 64 : 8, 0.125) : 0.0; }
    if (mode == 1 && d >= 2)
    {
        const auto i = rng.range(0, d - 2);
        const auto j = rng.range(i + 1, d - 1);
        model(cross_index(d, i, j)) = dyadic(rng, 8, 0.5) + 0.25;
    }
    if (mode == 2) { model(rng.range(0, n - 1)) = 1.0; }
    vector_t x(d);
    for (tensor_size_t i = 0; i < d; ++i) { x(i) = dyadic(rng, 16, 0.25) + (mode == 1 ? static_cast<double>(i + 1) : 0.0); }

    const auto func = quadratic_surrogate_t{model};
    vector_t   gx(func.size());
    const auto fx = func.size() == d ? func.vgrad(x, gx) : std::nan("");
    ++stats.m_sgv;

    std::printf("SGV %s %" PRId64 " | %s | %s = %" PRId64 " | %s | %s\n", caseid.c_str(), d, sqv(model).c_str(), sqv(x).c_str(),
                static_cast<int64_t>(func.size()), sq(fx).c_str(), func.size() == d ? sqv(gx).c_str() : "");

    const std::string id = caseid + " d=" + std::to_string(d) + " model=" + sqv(model) + " x=" + sqv(x);
    if (func.size() != d)
    {
        fail("SGV-SIZE", id, "quadratic_surrogate_t of " + std::to_string(n) + " coefficients has size " + std::to_string(func.size()));
        return;
    }
    // direct oracle: value = p0 + sum p_i x_i + sum_{i<=j} p_ij x_i x_j with the closed-form index (all numbers small dyadics: exact)
    const auto value_at = [&](const vector_t& z)
    {
        double v = model(0);
        for (int64_t i = 0; i < d; ++i) { v += model(1 + i) * z(i); }
        for (int64_t i = 0; i < d; ++i)
        {
            for (int64_t j = i; j < d; ++j) { v += model(cross_index(d, i, j)) * z(i) * z(j); }
        }
        return v;
    };
    if (!(fx == value_at(x))) { fail("SGV-VALUE", id, "value " + vh::hexf(fx) + " differs from the polynomial " + vh::hexf(value_at(x))); }
    // the gradient is the derivative: central differences are exact for a quadratic (f(x + h e_i) - f(x - h e_i) = 2 h g_i), on the library
    for (int64_t i = 0; i < d; ++i)
    {
        auto xp = x, xm = x;
        xp(i) += 0.5;
        xm(i) -= 0.5;
        const auto diff = func.vgrad(xp) - func.vgrad(xm);
        if (!(diff == gx(i))) { fail("SGV-GRAD", id, "gradient component " + std::to_string(i) + " = " + vh::hexf(gx(i)) + " but the central difference is " + vh::hexf(diff)); }
    }
}

void run_sgf(vh::rng_t& rng, const std::string& caseid, surr_stats_t& stats)
{
    static const int64_t ds[] = {1, 2, 2, 3, 3, 3, 4, 5};
    const auto           d    = ds[rng.range(0, 7)];
    const auto           n    = (d + 1) * (d + 2) / 2;
    const auto           ns   = rng.range(1, 7);
    tensor2d_t           p(ns, d);
    tensor1d_t           y(ns);
    for (tensor_size_t s = 0; s < ns; ++s)
    {
        for (tensor_size_t i = 0; i < d; ++i) { p(s, i) = dyadic(rng, 8, 0.25) + static_cast<double>(rng.range(0, 1) * (i + 1)); }
        y(s) = dyadic(rng, 32, 0.125);
    }
    vector_t c(n), c2(n);
    const auto sparse = rng.range(0, 2) == 0;
    for (tensor_size_t k = 0; k < n; ++k)
    {
        c(k)  = sparse ? 0.0 : dyadic(rng, 16, 0.125);
        c2(k) = dyadic(rng, 16, 0.125);
    }
    if (sparse) { c(rng.range(0, n - 1)) = 1.0; }

    const auto loss = loss_t::all().get("mse");
    const auto func = quadratic_surrogate_fit_t{*loss, p, y};
    vector_t   gx(func.size());
    const auto fx = func.size() == n ? func.vgrad(c, gx) : std::nan("");
    ++stats.m_sgf;

    std::string sp;
    for (tensor_size_t s = 0; s < ns; ++s)
    {
        if (s) { sp += ";"; }
        for (tensor_size_t i = 0; i < d; ++i) { sp += (i ? "," : "") + sq(p(s, i)); }
    }
    std::printf("SGF %s %" PRId64 " %" PRId64 " | %s | %s | %s = %" PRId64 " | %s | %s | %d\n", caseid.c_str(), d, static_cast<int64_t>(ns), sp.c_str(),
                sqv(y).c_str(), sqv(c).c_str(), static_cast<int64_t>(func.size()), sq(fx).c_str(), func.size() == n ? sqv(gx).c_str() : "",
                func.convex() ? 1 : 0);

    const std::string id = caseid + " d=" + std::to_string(d) + " p=" + sp + " y=" + sqv(y) + " c=" + sqv(c);
    if (func.size() != n)
    {
        fail("SGF-SIZE", id, "the fit objective over " + std::to_string(d) + " parameters has size " + std::to_string(func.size()));
        return;
    }
    // direct oracle: 0.5 * sum_s (c . phi(p_s) - y_s)^2 with phi by the closed-form index
    double want = 0.0;
    for (tensor_size_t s = 0; s < ns; ++s)
    {
        double o = c(0);
        for (int64_t i = 0; i < d; ++i) { o += c(1 + i) * p(s, i); }
        for (int64_t i = 0; i < d; ++i)
        {
            for (int64_t j = i; j < d; ++j) { o += c(cross_index(d, i, j)) * p(s, i) * p(s, j); }
        }
        want += 0.5 * (o - y(s)) * (o - y(s));
    }
    if (!(fx == want)) { fail("SGF-VALUE", id, "value " + vh::hexf(fx) + " differs from the sum of squared residuals " + vh::hexf(want)); }
    for (int64_t k = 0; k < n; ++k)
    {
        auto cp = c, cm = c;
        cp(k) += 0.5;
        cm(k) -= 0.5;
        const auto diff = func.vgrad(cp) - func.vgrad(cm);
        if (!(diff == gx(k))) { fail("SGF-GRAD", id, "gradient component " + std::to_string(k) + " = " + vh::hexf(gx(k)) + " but the central difference is " + vh::hexf(diff)); }
    }
    // the declared convexity: midpoint inequality between two coefficient vectors (exact arithmetic)
    const vector_t mid = 0.5 * (c + c2);
    if (func.convex() && !(func.vgrad(mid) <= 0.5 * (fx + func.vgrad(c2))))
    {
        fail("SGF-CONVEX", id, "declared convex but f((a+b)/2) > (f(a)+f(b))/2 for b=" + sqv(c2));
    }
}

void run_map(vh::rng_t& rng, const std::string& caseid, surr_stats_t& stats)
{
    const bool lg    = rng.range(0, 2) == 0;
    const auto size  = rng.range(0, 3) == 0 ? rng.range(2, 3) : rng.range(2, 12);
    bool       exact = false;
    std::vector<double> grid;
    if (lg)
    {
        // powers of ten (log10 is an integer) or arbitrary positive values
        const auto pw = rng.range(0, 1) == 0;
        double     v  = pw ? std::pow(10.0, static_cast<double>(rng.range(-6, 0))) : (0.001 + rng.unit());
        for (int64_t k = 0; k < size; ++k)
        {
            grid.push_back(v);
            v *= pw ? (rng.range(0, 1) ? 10.0 : 100.0) : (1.25 + 3.0 * rng.unit());
        }
    }
    else
    {
        // dyadic values; `exact`: max - min is a power of two, hence (v - min) / (max - min) is exact
        exact          = rng.range(0, 3) != 0;
        const auto lo  = dyadic(rng, 40, 0.125);
        if (exact)
        {
            const auto            width = std::ldexp(1.0, static_cast<int>(rng.range(-1, 4)));
            std::set<int64_t>     inner;
            while (static_cast<int64_t>(inner.size()) < size - 2) { inner.insert(rng.range(1, 63)); }
            grid.push_back(lo);
            for (const auto k : inner) { grid.push_back(lo + width * static_cast<double>(k) / 64.0); }
            grid.push_back(lo + width);
        }
        else
        {
            double v = lo;
            for (int64_t k = 0; k < size; ++k)
            {
                grid.push_back(v);
                v += 0.1 * static_cast<double>(rng.range(1, 30));
            }
        }
    }
    tensor1d_t values(static_cast<tensor_size_t>(grid.size()));
    for (size_t k = 0; k < grid.size(); ++k) { values(static_cast<tensor_size_t>(k)) = grid[k]; }
    const auto space = param_space_t{"p", lg ? param_space_t::type::log10 : param_space_t::type::linear, values};

    std::vector<double> ts, own;
    for (const auto v : grid)
    {
        ts.push_back(space.to_surrogate(v));
        own.push_back(lg ? std::log10(v) : (v - grid.front()) / (grid.back() - grid.front()));
    }
    // the query: an image, the midpoint of two neighbouring images (a tie), just off a midpoint, inside, outside, far outside
    double     x    = 0.0;
    const auto k0   = static_cast<size_t>(rng.range(0, static_cast<int64_t>(grid.size()) - 2));
    const auto mode = rng.range(0, 7);
    switch (mode)
    {
    case 0: x = ts[k0]; break;
    case 1:
    case 2: x = 0.5 * (ts[k0] + ts[k0 + 1]); break;
    case 3: x = 0.5 * (ts[k0] + ts[k0 + 1]) + (rng.range(0, 1) ? 1.0 : -1.0) * std::ldexp(1.0, -static_cast<int>(rng.range(8, 30))); break;
    case 4: x = ts.front() + (ts.back() - ts.front()) * static_cast<double>(rng.range(0, 256)) / 256.0; break;
    case 5: x = (rng.range(0, 1) ? ts.back() : ts.front()) + dyadic(rng, 64, 0.125); break;
    case 6: x = (rng.range(0, 1) ? 1.0 : -1.0) * std::ldexp(1.0, static_cast<int>(rng.range(3, 40))); break;
    default: x = dyadic(rng, 1024, 1.0 / 1024.0); break;
    }
    const auto point  = space.closest_grid_point_from_surrogate(x);
    const auto cvalue = space.closest_grid_value_from_surrogate(x);
    const auto from   = space.from_surrogate(x);
    // to_surrogate of a value inside / outside the range
    const auto  v = (rng.range(0, 3) == 0) ? (rng.range(0, 1) ? grid.back() + 0.125 : grid.front() - 0.125) : grid[k0] + (grid[k0 + 1] - grid[k0]) * 0.5;
    std::string sto;
    try
    {
        sto = sq(space.to_surrogate(v));
    }
    catch (const std::exception&)
    {
        sto = "throw";
    }
    ++stats.m_map;
    if (lg) { ++stats.m_map_log; }

    std::printf("MAP %s %s %d | %s | %s | %s | %s = %" PRId64 " | %s | %s | %s\n", caseid.c_str(), lg ? "log" : "lin", exact ? 1 : 0, sqv(grid).c_str(),
                sqv(ts).c_str(), sq(x).c_str(), sq(v).c_str(), static_cast<int64_t>(point), sq(cvalue).c_str(), sq(from).c_str(), sto.c_str());

    // direct oracle (own images, own distances): in range, a closest grid value, the first among equally close ones
    const std::string id = caseid + (lg ? " log10" : " linear") + " grid=" + sqv(grid) + " x=" + vh::hexf(x);
    if (point < 0 || point >= static_cast<tensor_size_t>(grid.size()))
    {
        fail("MAP-RANGE", id, "closest_grid_point_from_surrogate returned " + std::to_string(point));
        return;
    }
    const auto dp   = std::fabs(x - own[static_cast<size_t>(point)]);
    int64_t    ties = 0;
    for (size_t k = 0; k < grid.size(); ++k)
    {
        const auto dk = std::fabs(x - own[k]);
        if (dk < dp) { fail("MAP-ARGMIN", id, "returned point " + std::to_string(point) + " but grid point " + std::to_string(k) + " is closer in the surrogate space"); }
        if (dk == dp && static_cast<tensor_size_t>(k) < point) { fail("MAP-ARGMIN", id, "returned point " + std::to_string(point) + " but the earlier grid point " + std::to_string(k) + " is equally close"); }
        if (dk == dp && static_cast<tensor_size_t>(k) != point) { ++ties; }
    }
    if (ties > 0) { ++stats.m_map_ties; }
    if (!(cvalue == grid[static_cast<size_t>(point)])) { fail("MAP-VALUE", id, "closest_grid_value_from_surrogate is not the grid value at the closest point"); }
    if (!(from >= grid.front() && from <= grid.back())) { fail("MAP-FROM", id, "from_surrogate left the range of the grid: " + vh::hexf(from)); }
    const bool inside = v >= grid.front() && v <= grid.back();
    if (inside == (sto == "throw")) { fail("MAP-TO", id, "to_surrogate(" + vh::hexf(v) + ") = " + sto); }
}

// ------------------------------------------------------------------------------------------------
// tuner_t::optimize
// ------------------------------------------------------------------------------------------------
int64_t pick_max_evals(vh::rng_t& rng, const bool small)
{
    static const int64_t a[] = {10, 10, 11, 12, 13, 15, 16, 20, 25, 31, 50, 64, 100, 100, 200, 300, 1000};
    return a[rng.range(0, small ? 9 : 16)];
}

struct opt_stats_t
{
    int64_t m_runs{0}, m_evals{0}, m_ties{0}, m_nonfinite{0}, m_abort{0}, m_bound_hit{0}, m_maxevals_reached{0}, m_min_slack{1000000};
};

void run_opt(vh::rng_t& rng, const std::string& caseid, const bool surrogate, const bool thorough, opt_stats_t& stats, surr_stats_t& sstats)
{
    const auto dims = static_cast<int>(rng.range(1, 3));
    const auto grids = make_grids(rng, dims, surrogate ? 2000 : 40000);
    const auto d     = grids.dims();

    std::vector<double> table;
    const auto          lname     = make_landscape(rng, grids, table, true);
    const auto          max_evals = pick_max_evals(rng, surrogate || !thorough ? rng.range(0, 3) != 0 : false);

    const auto tuner = tuner_t::all().get(surrogate ? "surrogate" : "local-search");
    tuner->parameter("tuner::max_evals") = max_evals;
    const auto spaces = grids.spaces();

    const std::string id = caseid + " kind=" + (surrogate ? "S" : "L") + " sizes=" + grids.sizes() + " max_evals=" + std::to_string(max_evals) +
                           " landscape=" + lname;

    std::vector<std::vector<std::pair<igr, double>>> batches;
    std::map<igr, double>                            evaluated;
    bool                                             returned_nonfinite = false;
    bool                                             grid_ok            = true;

    const auto callback = [&](const tensor2d_t& params)
    {
        if (returned_nonfinite) { fail("NONFINITE-CONTINUES", id, "callback invoked again after a non-finite value was returned"); }
        tensor1d_t values(params.size<0>());
        batches.emplace_back();
        if (params.size<1>() != static_cast<tensor_size_t>(d))
        {
            fail("GRID", id, "callback received " + std::to_string(params.size<1>()) + " columns");
            grid_ok = false;
            values.full(0.0);
            return values;
        }
        for (tensor_size_t t = 0; t < params.size<0>(); ++t)
        {
            igr  g(d);
            bool ok = true;
            for (size_t i = 0; i < d; ++i)
            {
                g[i] = grids.find(i, params(t, static_cast<tensor_size_t>(i)));
                ok   = ok && g[i] >= 0;
            }
            if (!ok)
            {
                fail("GRID", id, "callback received a parameter value that is not on the grid: row " + std::to_string(t) + " igrid=" + sg(g));
                grid_ok   = false;
                values(t) = 0.0;
                continue;
            }
            const auto v = table[static_cast<size_t>(grids.flat(g))];
            if (!evaluated.emplace(g, v).second) { fail("REPEAT", id, "grid point " + sg(g) + " evaluated twice"); }
            batches.back().emplace_back(g, v);
            values(t) = v;
            if (!std::isfinite(v)) { returned_nonfinite = true; }
        }
        return values;
    };

    tuner_steps_t steps;
    std::string   outcome = "ok";
    std::string   what;
    if (surrogate)
    {
        // stage SURR: record the answers of the inner solver (solver_t::done exit events of the NANO_VERIF build)
        g_rec             = recorder_t{};
        g_rec.m_on        = true;
        g_rec.m_dims      = static_cast<tensor_size_t>(d);
        g_rec.m_evaluated = &evaluated;
        verif::g_event_hook.store(&on_solver_event);
    }
    try
    {
        steps = tuner->optimize(spaces, callback, make_null_logger());
    }
    catch (const std::runtime_error& e)
    {
        what    = e.what();
        outcome = (what.find("invalid value") != std::string::npos) ? "nonfinite" : "abort";
    }
    catch (const std::exception& e)
    {
        what    = e.what();
        outcome = "abort";
    }
    if (surrogate)
    {
        verif::g_event_hook.store(nullptr);
        g_rec.flush();
        g_rec.m_on = false;
    }

    // ---- the property's oracle on the implementation ----
    int64_t pow3 = 1;
    for (size_t i = 0; i < d; ++i) { pow3 *= 3; }
    int64_t evals = 0;
    for (const auto& b : batches) { evals += static_cast<int64_t>(b.size()); }
    if (evals > max_evals + pow3)
    {
        fail("BOUND", id, std::to_string(evals) + " evaluations > max_evals + 3^d = " + std::to_string(max_evals + pow3));
    }
    if (returned_nonfinite && outcome != "nonfinite")
    {
        fail("NONFINITE-ACCEPTED", id, "a non-finite value was returned by the callback but optimize ended with `" + outcome + "` " + what);
    }
    if (!returned_nonfinite && outcome == "nonfinite") { fail("THROW", id, "optimize threw `" + what + "` although all values were finite"); }
    if (outcome == "abort" && !surrogate) { fail("THROW", id, "local-search tuner threw `" + what + "`"); }
    if (outcome == "ok")
    {
        if (steps.size() != evaluated.size())
        {
            fail("STEPS", id, std::to_string(steps.size()) + " steps returned for " + std::to_string(evaluated.size()) + " evaluations");
        }
        double            minv = HUGE_VAL;
        for (const auto& [g, v] : evaluated) { minv = std::min(minv, v); }
        std::set<igr> in_steps;
        for (size_t k = 0; k < steps.size(); ++k)
        {
            const auto& s = steps[k];
            igr         g(s.m_igrid.begin(), s.m_igrid.end());
            const auto  it = evaluated.find(g);
            if (it == evaluated.end()) { fail("STEPS", id, "step " + sg(g) + " was never evaluated"); }
            else if (!(it->second == s.m_value)) { fail("STEPS", id, "step " + sg(g) + " carries a value that differs from the callback's"); }
            if (!in_steps.insert(g).second) { fail("STEPS", id, "step " + sg(g) + " listed twice"); }
            if (g.size() == d && s.m_param.size() == static_cast<tensor_size_t>(d))
            {
                for (size_t i = 0; i < d; ++i)
                {
                    if (g[i] < 0 || g[i] >= static_cast<int64_t>(grids.m_values[i].size()) ||
                        !(grids.m_values[i][static_cast<size_t>(g[i])] == s.m_param(static_cast<tensor_size_t>(i))))
                    {
                        fail("STEPS", id, "step " + sg(g) + " has m_param different from the grid values");
                    }
                }
            }
            else { fail("STEPS", id, "step " + sg(g) + " has the wrong dimension"); }
            if (k > 0 && !(steps[k - 1].m_value <= s.m_value)) { fail("SORTED", id, "steps not sorted at position " + std::to_string(k)); }
        }
        if (!steps.empty() && !(steps[0].m_value == minv)) { fail("MINFIRST", id, "first step is not the minimum observed"); }
    }

    // ---- stage SURR: every surrogate batch lies in the radius-1 neighbourhood of the grid point closest to the recorded answer
    //      (own images, own argmin: independent of the model and of closest_grid_point_from_surrogate)
    std::string stss, sans;
    if (surrogate && grid_ok)
    {
        for (size_t i = 0; i < d; ++i)
        {
            if (i) { stss += ";"; }
            std::vector<double> ts;
            for (const auto v : grids.m_values[i]) { ts.push_back(spaces[i].to_surrogate(v)); }
            stss += sqv(ts);
        }
        // evaluations before each batch
        std::vector<int64_t> before;
        {
            int64_t acc = 0;
            for (const auto& b : batches)
            {
                before.push_back(acc);
                acc += static_cast<int64_t>(b.size());
            }
        }
        for (size_t a = 0; a < g_rec.m_answers.size(); ++a)
        {
            const auto& ans = g_rec.m_answers[a];
            if (a) { sans += ";"; }
            sans += std::to_string(ans.m_evals) + ":" + (ans.m_valid ? "1" : "0") + ":";
            for (size_t i = 0; i < ans.m_x.size(); ++i) { sans += (i ? "," : "") + (std::isfinite(ans.m_x[i]) ? sq(ans.m_x[i]) : std::string("nf")); }
            ++sstats.m_answers;
            if (!ans.m_valid)
            {
                ++sstats.m_invalid_answers;
                if (outcome != "abort") { fail("SURR-INVALID", id, "the inner solver returned an invalid state but optimize ended with `" + outcome + "`"); }
                continue;
            }
            if (ans.m_x.size() != d)
            {
                fail("SURR-PROPOSAL", id, "the inner solver's answer has " + std::to_string(ans.m_x.size()) + " components");
                continue;
            }
            igr  c(d);
            bool unique = true; // the closest point is unique up to rounding (else the oracle accepts either)
            for (size_t i = 0; i < d; ++i)
            {
                double best = HUGE_VAL;
                for (size_t k = 0; k < grids.m_values[i].size(); ++k)
                {
                    const auto v  = grids.m_values[i][k];
                    const auto t  = grids.m_log[i] ? std::log10(v) : (v - grids.m_values[i].front()) / (grids.m_values[i].back() - grids.m_values[i].front());
                    const auto dk = std::fabs(ans.m_x[i] - t);
                    if (dk < best)
                    {
                        if (best - dk <= 1e-12 * (1.0 + std::fabs(ans.m_x[i]))) { unique = false; }
                        best = dk;
                        c[i] = static_cast<int64_t>(k);
                    }
                    else if (dk - best <= 1e-12 * (1.0 + std::fabs(ans.m_x[i]))) { unique = false; }
                }
            }
            if (!unique) { continue; }
            // the batch evaluated after this answer (if any): all its points within +-1 of c, and c itself unless already evaluated
            for (size_t k = 0; k < batches.size(); ++k)
            {
                if (before[k] != ans.m_evals || k == 0) { continue; }
                bool has_c = false;
                for (const auto& [g, v] : batches[k])
                {
                    for (size_t i = 0; i < d; ++i)
                    {
                        if (std::llabs(g[i] - c[i]) > 1)
                        {
                            fail("SURR-PROPOSAL", id, "batch " + std::to_string(k) + " evaluates " + sg(g) + " which is not a neighbour of the grid point " + sg(c) +
                                                          " closest to the inner solver's answer");
                        }
                    }
                    has_c = has_c || g == c;
                }
                bool c_before = false;
                for (size_t kk = 0; kk < k; ++kk)
                {
                    for (const auto& [g, v] : batches[kk]) { c_before = c_before || g == c; }
                }
                if (!has_c && !c_before) { fail("SURR-PROPOSAL", id, "the proposed grid point " + sg(c) + " was not evaluated in batch " + std::to_string(k)); }
            }
        }
    }

    // ---- the line for the model ----
    if (grid_ok)
    {
        std::string sb;
        for (size_t k = 0; k < batches.size(); ++k)
        {
            if (k) { sb += ";"; }
            for (size_t j = 0; j < batches[k].size(); ++j)
            {
                if (j) { sb += " "; }
                sb += sg(batches[k][j].first) + ":" + skey(batches[k][j].second);
            }
        }
        std::string ss;
        for (size_t k = 0; k < steps.size(); ++k)
        {
            if (k) { ss += " "; }
            ss += sg(steps[k].m_igrid) + ":" + skey(steps[k].m_value);
        }
        if (surrogate)
        {
            std::printf("OPT %s %s %" PRId64 " %s | %s | %s | %s | %s | %s\n", caseid.c_str(), "S", max_evals, grids.sizes().c_str(),
                        sb.c_str(), outcome.c_str(), ss.c_str(), stss.c_str(), sans.c_str());
        }
        else
        {
            std::printf("OPT %s %s %" PRId64 " %s | %s | %s | %s\n", caseid.c_str(), "L", max_evals, grids.sizes().c_str(),
                        sb.c_str(), outcome.c_str(), ss.c_str());
        }
    }

    // ---- statistics of what was explored ----
    ++stats.m_runs;
    stats.m_evals += evals;
    std::set<double> distinct;
    for (const auto& [g, v] : evaluated) { distinct.insert(v); }
    if (distinct.size() < evaluated.size()) { ++stats.m_ties; }
    if (outcome == "nonfinite") { ++stats.m_nonfinite; }
    if (outcome == "abort") { ++stats.m_abort; }
    if (evals > max_evals) { ++stats.m_bound_hit; }
    if (evals >= max_evals) { ++stats.m_maxevals_reached; }
    stats.m_min_slack = std::min(stats.m_min_slack, max_evals + pow3 - evals);
}

// ------------------------------------------------------------------------------------------------
// ml::tune
// ------------------------------------------------------------------------------------------------
struct extra_t
{
    igr     m_igrid;
    int64_t m_fold{-1};
    int64_t m_serial{-1};
};

// counts the calls finished at the time params_t::log writes its "(average)" lines: batch boundaries
class marker_buf_t final : public std::streambuf
{
public:
    explicit marker_buf_t(const std::atomic<int64_t>& calls)
        : m_calls(calls)
    {
    }

    std::vector<int64_t> m_marks; ///< number of finished callback calls at each "(average)" line

protected:
    int overflow(int ch) override
    {
        if (ch != EOF)
        {
            m_line.push_back(static_cast<char>(ch));
            if (ch == '\n')
            {
                if (m_line.find("(average)") != std::string::npos) { m_marks.push_back(m_calls.load()); }
                m_line.clear();
            }
        }
        return ch;
    }

    std::streamsize xsputn(const char* s, std::streamsize n) override
    {
        for (std::streamsize i = 0; i < n; ++i) { overflow(static_cast<unsigned char>(s[i])); }
        return n;
    }

private:
    const std::atomic<int64_t>& m_calls;
    std::string                 m_line;
};

struct tune_stats_t
{
    int64_t m_runs{0}, m_calls{0}, m_trials{0}, m_optimum_ties{0}, m_throws{0};
};

void run_tune(vh::rng_t& rng, const std::string& caseid, tune_stats_t& stats)
{
    const auto dims      = static_cast<int>(rng.range(0, 9) == 0 ? 0 : rng.range(1, 2));
    const auto grids     = make_grids(rng, dims, 400);
    const auto d         = grids.dims();
    const auto folds     = rng.range(0, 3) == 0 ? rng.range(2, 3) : rng.range(2, 10);
    const auto nsamples  = rng.range(std::max<int64_t>(folds, 12), 80);
    const auto surrogate = rng.range(0, 4) == 0;
    const auto max_evals = rng.range(10, 24);
    const bool rsplit    = rng.range(0, 3) == 0;
    // (without hyper-parameters no tuner is involved and a NaN statistic is simply stored: not part of the property)
    const bool inject_nf = rng.range(0, 24) == 0 && dims > 0;

    // arbitrary (sorted, distinct) sample indices
    indices_t samples(nsamples);
    {
        int64_t x = rng.range(0, 5);
        for (tensor_size_t i = 0; i < nsamples; ++i)
        {
            samples(i) = x;
            x += rng.range(1, 3);
        }
    }

    auto fit_params = ml::params_t{};
    fit_params.tuner(surrogate ? "surrogate" : "local-search");
    fit_params.splitter(rsplit ? "random" : "k-fold");
    {
        auto splitter = fit_params.splitter().clone();
        splitter->parameter("splitter::folds") = folds;
        splitter->parameter("splitter::seed")  = rng.range(0, 1024);
        fit_params.splitter(std::move(splitter));
        auto tuner = fit_params.tuner().clone();
        tuner->parameter("tuner::max_evals") = max_evals;
        fit_params.tuner(std::move(tuner));
    }
    const auto splits = fit_params.splitter().split(samples);

    const std::string id = caseid + " sizes=" + grids.sizes() + " folds=" + std::to_string(folds) + " samples=" + std::to_string(nsamples) +
                           " tuner=" + (surrogate ? "S" : "L") + " max_evals=" + std::to_string(max_evals) + (rsplit ? " random-split" : " k-fold");

    // the splits must be pairwise distinct to identify the fold from the callback's arguments
    for (size_t a = 0; a < splits.size(); ++a)
    {
        for (size_t b = a + 1; b < splits.size(); ++b)
        {
            if (splits[a].first == splits[b].first && splits[a].second == splits[b].second) { return; }
        }
    }
    if (static_cast<int64_t>(splits.size()) != folds) { return; }

    // landscape of the mean validation error in units of 1/1024: M(igrid, fold) = base(igrid) + noise(igrid, fold)
    std::vector<double> base;
    vh::rng_t           lrng(rng.next());
    if (d > 0) { make_landscape(lrng, grids, base, false); }
    else { base.assign(1, 1.0); }
    const auto          noise_mode = rng.range(0, 2); // 0: none (ties across folds preserved), 1: small, 2: zero-sum across folds
    const uint64_t      nseed      = rng.next();
    const auto          Mval       = [&](const igr& g, const int64_t fold, const int which) -> int64_t
    {
        const auto o = grids.flat(g);
        const auto a = std::min(std::fabs(base[static_cast<size_t>(o)]), 1e6);
        auto       b = static_cast<int64_t>(std::llround(a * 8.0)) % 4096;
        if (a < 1.0) { b = static_cast<int64_t>(a * 4096.0); }
        int64_t n = 0;
        if (noise_mode == 1) { n = static_cast<int64_t>(mix(nseed, static_cast<uint64_t>(o * 64 + fold)) % 7); }
        if (noise_mode == 2) { n = (fold == 0) ? 5 : ((fold == 1) ? -5 : 0); }
        // which: 0 valid errors, 1 valid losses, 2 train errors, 3 train losses; only (valid, errors) may drive the tuning:
        // the other three are ordered differently (losses shifted and scrambled, train reversed)
        switch (which)
        {
        case 0: return 16 + b + n;
        case 1: return 10000 + ((b * 7 + n * 3) % 4099);
        case 2: return 30000 - (b + n);
        default: return 50000 - ((b * 5 + n) % 4099);
        }
    };
    const igr nf_point = [&]()
    {
        igr a(d);
        for (size_t i = 0; i < d; ++i) { a[i] = static_cast<int64_t>(grids.m_values[i].size()) / 2 + (i == 0 ? 1 : 0); }
        if (d > 0) { a[0] = std::min<int64_t>(a[0], static_cast<int64_t>(grids.m_values[0].size()) - 1); }
        return a;
    }();

    struct call_t
    {
        igr     m_igrid;
        int64_t m_fold;
        int64_t m_serial;
        bool    m_closest_has;
        igr     m_closest_igrid;
        int64_t m_closest_fold;
    };
    std::mutex           mutex;
    std::vector<call_t>  calls;
    std::atomic<int64_t> started{0}, finished{0};
    std::vector<std::string> cb_fail;

    const auto fill = [&](tensor2d_t& out, const tensor_size_t n, const int64_t Merr, const int64_t Mloss)
    {
        // per-sample values whose mean is exactly M/1024: m + delta_i with sum(delta) = 0, all multiples of 1/1024
        out.resize(2, n);
        for (int row = 0; row < 2; ++row)
        {
            const auto m = static_cast<double>(row == 0 ? Merr : Mloss) / 1024.0;
            for (tensor_size_t i = 0; i < n; ++i)
            {
                double delta = 0.0;
                if (i + 1 < n || n % 2 == 0) { delta = ((i % 2 == 0) ? 1.0 : -1.0) * static_cast<double>(1 + (i / 2) % 5) / 1024.0; }
                out(row, i) = m + delta;
            }
        }
    };

    const ml::tune_callback_t callback = [&](const indices_t& tr, const indices_t& vd, tensor1d_cmap_t params, const std::any& closest,
                                             const logger_t&)
    {
        const auto serial = started++;
        call_t     c;
        c.m_serial = serial;
        c.m_fold   = -1;
        for (size_t f = 0; f < splits.size(); ++f)
        {
            if (splits[f].first == tr && splits[f].second == vd) { c.m_fold = static_cast<int64_t>(f); }
        }
        c.m_igrid.assign(d, -1);
        bool ok = params.size() == static_cast<tensor_size_t>(d);
        for (size_t i = 0; ok && i < d; ++i) { c.m_igrid[i] = grids.find(i, params(static_cast<tensor_size_t>(i))); }
        c.m_closest_has = closest.has_value();
        c.m_closest_fold = -1;
        if (c.m_closest_has)
        {
            if (const auto* e = std::any_cast<extra_t>(&closest); e != nullptr)
            {
                c.m_closest_igrid = e->m_igrid;
                c.m_closest_fold  = e->m_fold;
            }
        }
        // shake the interleaving
        const auto z = mix(nseed, static_cast<uint64_t>(serial)) % 8;
        if (z == 0) { std::this_thread::sleep_for(std::chrono::microseconds(200)); }
        else if (z < 4) { std::this_thread::yield(); }

        tensor2d_t trv, vdv;
        const bool bad = c.m_fold < 0 || std::any_of(c.m_igrid.begin(), c.m_igrid.end(), [](int64_t x) { return x < 0; });
        const auto fold = std::max<int64_t>(c.m_fold, 0);
        if (bad)
        {
            fill(trv, tr.size(), 1, 1);
            fill(vdv, vd.size(), 1, 1);
        }
        else
        {
            fill(trv, tr.size(), Mval(c.m_igrid, fold, 2), Mval(c.m_igrid, fold, 3));
            fill(vdv, vd.size(), Mval(c.m_igrid, fold, 0), Mval(c.m_igrid, fold, 1));
            if (inject_nf && c.m_igrid == nf_point && fold == folds - 1 && vd.size() > 0) { vdv(0, 0) = std::nan(""); }
        }
        {
            const std::scoped_lock lock(mutex);
            calls.push_back(c);
        }
        ++finished;
        return std::make_tuple(std::move(trv), std::move(vdv), std::any{extra_t{c.m_igrid, c.m_fold, serial}});
    };

    marker_buf_t buf(finished);
    std::ostream os(&buf);
    fit_params.logger(logger_t{os});

    ml::result_t result;
    bool         threw = false;
    std::string  what;
    try
    {
        result = ml::tune("c13", samples, fit_params, grids.spaces(), callback);
    }
    catch (const std::exception& e)
    {
        threw = true;
        what  = e.what();
    }
    ++stats.m_runs;
    stats.m_calls += static_cast<int64_t>(calls.size());

    bool nf_returned = false;
    for (const auto& c : calls)
    {
        if (inject_nf && c.m_igrid == nf_point && c.m_fold == folds - 1) { nf_returned = true; }
    }
    if (threw)
    {
        ++stats.m_throws;
        if (!(nf_returned && what.find("invalid value") != std::string::npos))
        {
            if (!(surrogate && what.find("failed to") != std::string::npos)) { fail("TUNE-THROW", id, "ml::tune threw `" + what + "`"); }
        }
        return;
    }
    if (nf_returned) { fail("TUNE-NONFINITE", id, "a NaN validation error was stored without an exception"); }

    // ---- the property's oracle on the implementation ----
    const auto trials = result.trials();
    stats.m_trials += trials;
    if (result.folds() != folds) { fail("TUNE-FOLDS", id, "result has " + std::to_string(result.folds()) + " folds"); }
    std::map<igr, int64_t> trial_of;
    bool                   trials_ok = true;
    for (tensor_size_t t = 0; t < trials; ++t)
    {
        igr        g(d);
        const auto p = result.params(t);
        for (size_t i = 0; i < d; ++i) { g[i] = p.size() == static_cast<tensor_size_t>(d) ? grids.find(i, p(static_cast<tensor_size_t>(i))) : -1; }
        if (!trial_of.emplace(g, t).second)
        {
            fail("TUNE-TRIALS", id, "two trials with the same parameters " + sg(g));
            trials_ok = false;
        }
    }
    // exactly once per (trial, fold), with that fold's split
    std::map<std::pair<int64_t, int64_t>, int64_t> count;
    std::map<std::pair<int64_t, int64_t>, const call_t*> call_of;
    for (const auto& c : calls)
    {
        if (c.m_fold < 0)
        {
            fail("TUNE-SPLIT", id, "callback received (train, valid) indices that are not one of the splitter's folds");
            continue;
        }
        const auto it = trial_of.find(c.m_igrid);
        if (it == trial_of.end())
        {
            fail("TUNE-PARAMS", id, "callback received parameters " + sg(c.m_igrid) + " that are not a stored trial");
            continue;
        }
        ++count[{it->second, c.m_fold}];
        call_of[{it->second, c.m_fold}] = &c;
    }
    for (tensor_size_t t = 0; trials_ok && t < trials; ++t)
    {
        for (int64_t f = 0; f < folds; ++f)
        {
            const auto n = count[{t, f}];
            if (n != 1) { fail("TUNE-ONCE", id, "(trial " + std::to_string(t) + ", fold " + std::to_string(f) + ") evaluated " + std::to_string(n) + " times"); }
        }
    }
    if (static_cast<int64_t>(calls.size()) != trials * folds)
    {
        fail("TUNE-ONCE", id, std::to_string(calls.size()) + " callback calls for " + std::to_string(trials) + " trials x " + std::to_string(folds) + " folds");
    }
    // batches from the log marks
    std::vector<int64_t> marks;
    for (const auto m : buf.m_marks)
    {
        if (marks.empty() || marks.back() != m) { marks.push_back(m); }
    }
    std::vector<int64_t> batch_sizes;
    bool                 batches_ok = !marks.empty() && marks.back() == static_cast<int64_t>(calls.size());
    {
        int64_t prev = 0;
        for (const auto m : marks)
        {
            if ((m - prev) % folds != 0 || m <= prev) { batches_ok = false; }
            batch_sizes.push_back((m - prev) / folds);
            prev = m;
        }
    }
    if (!batches_ok) { fail("TUNE-BATCHES", id, "cannot recover the batches from the log marks"); }
    if (batches_ok && batch_sizes[0] != 1) { fail("TUNE-FIRST", id, "the first batch has " + std::to_string(batch_sizes[0]) + " trials"); }

    // stored statistics, extras, closest
    std::vector<std::vector<int64_t>> M(static_cast<size_t>(trials), std::vector<int64_t>(static_cast<size_t>(folds), 0));
    for (tensor_size_t t = 0; trials_ok && t < trials; ++t)
    {
        igr g;
        for (const auto& [gg, tt] : trial_of)
        {
            if (tt == t) { g = gg; }
        }
        if (std::any_of(g.begin(), g.end(), [](int64_t x) { return x < 0; }))
        {
            fail("TUNE-PARAMS", id, "trial " + std::to_string(t) + " has parameters that are not on the grid");
            continue;
        }
        int64_t old_trials = 0; // trials before the batch of t
        {
            int64_t acc = 0;
            for (const auto n : batch_sizes)
            {
                if (t >= acc + n) { acc += n; }
                else { break; }
            }
            old_trials = acc;
        }
        for (int64_t f = 0; f < folds; ++f)
        {
            M[static_cast<size_t>(t)][static_cast<size_t>(f)] = Mval(g, f, 0);
            const auto& sp = splits[static_cast<size_t>(f)];
            const auto  where = "(trial " + std::to_string(t) + ", fold " + std::to_string(f) + ")";
            for (int which = 0; which < 4; ++which)
            {
                const auto st = result.stats(t, f, which < 2 ? ml::split_type::valid : ml::split_type::train,
                                             which % 2 == 0 ? ml::value_type::errors : ml::value_type::losses);
                const auto want  = static_cast<double>(Mval(g, f, which)) / 1024.0;
                const auto wantn = static_cast<double>(which < 2 ? sp.second.size() : sp.first.size());
                if (!(st.m_mean == want) || !(st.m_count == wantn))
                {
                    fail("TUNE-STORE", id, "statistics " + std::to_string(which) + " stored under " + where + " are not the callback's: mean " +
                                               vh::hexf(st.m_mean) + " expected " + vh::hexf(want) + ", count " + vh::hexf(st.m_count));
                }
            }
            const auto* e = std::any_cast<extra_t>(&result.extra(t, f));
            if (e == nullptr || e->m_igrid != g || e->m_fold != f) { fail("TUNE-EXTRA", id, "extra stored under " + where + " is not the callback's"); }
            const auto it = call_of.find({t, f});
            if (it != call_of.end() && batches_ok)
            {
                const auto& c = *it->second;
                if (old_trials == 0)
                {
                    if (c.m_closest_has) { fail("TUNE-CLOSEST", id, "first batch received a non-empty closest model at " + where); }
                }
                else
                {
                    const auto ct = trial_of.find(c.m_closest_igrid);
                    if (!c.m_closest_has || c.m_closest_fold != f || ct == trial_of.end() || ct->second >= old_trials)
                    {
                        fail("TUNE-CLOSEST", id, "closest model at " + where + " is not from an earlier batch and the same fold");
                    }
                }
            }
        }
        // result_t::value = (sum of the folds' means) / folds, in this order
        double sum = 0.0;
        for (int64_t f = 0; f < folds; ++f) { sum += static_cast<double>(Mval(g, f, 0)) / 1024.0; }
        if (!(result.value(t) == sum / static_cast<double>(folds))) { fail("TUNE-VALUE", id, "value(trial " + std::to_string(t) + ") is not the mean over folds"); }
    }
    // optimum: smallest mean validation error, first on ties
    int64_t best = 0, best_sum = std::numeric_limits<int64_t>::max();
    int64_t nbest = 0;
    for (tensor_size_t t = 0; t < trials; ++t)
    {
        int64_t s = 0;
        for (int64_t f = 0; f < folds; ++f) { s += M[static_cast<size_t>(t)][static_cast<size_t>(f)]; }
        if (s < best_sum)
        {
            best_sum = s;
            best     = t;
            nbest    = 1;
        }
        else if (s == best_sum) { ++nbest; }
    }
    if (nbest > 1) { ++stats.m_optimum_ties; }
    // the property: the reported trial has the smallest mean validation error (which one among equal means is the model's business)
    if (trials_ok)
    {
        const auto o = result.optimum_trial();
        int64_t    s = std::numeric_limits<int64_t>::max();
        if (o >= 0 && o < trials)
        {
            s = 0;
            for (int64_t f = 0; f < folds; ++f) { s += M[static_cast<size_t>(o)][static_cast<size_t>(f)]; }
        }
        if (s != best_sum)
        {
            fail("TUNE-OPTIMUM", id, "optimum_trial() = " + std::to_string(o) + " (sum of fold means " + std::to_string(s) +
                                         "/1024) but the smallest mean validation error is at trial " + std::to_string(best) + " (" +
                                         std::to_string(best_sum) + "/1024)");
        }
    }

    // ---- the line for the model ----
    if (trials_ok && batches_ok)
    {
        // observed tasks per batch (by serial order of completion marks), sorted
        std::vector<std::vector<std::pair<int64_t, int64_t>>> per_batch(batch_sizes.size());
        {
            // a call belongs to the batch of its trial
            for (const auto& c : calls)
            {
                const auto it = trial_of.find(c.m_igrid);
                if (it == trial_of.end() || c.m_fold < 0) { continue; }
                int64_t acc = 0;
                size_t  b   = 0;
                for (; b < batch_sizes.size(); ++b)
                {
                    if (it->second < acc + batch_sizes[b]) { break; }
                    acc += batch_sizes[b];
                }
                if (b < per_batch.size()) { per_batch[b].emplace_back(it->second, c.m_fold); }
            }
        }
        std::string sb, st, sm;
        for (size_t b = 0; b < per_batch.size(); ++b)
        {
            std::sort(per_batch[b].begin(), per_batch[b].end());
            if (b) { st += ";"; }
            for (size_t k = 0; k < per_batch[b].size(); ++k)
            {
                if (k) { st += " "; }
                st += std::to_string(per_batch[b][k].first) + ":" + std::to_string(per_batch[b][k].second);
            }
        }
        for (tensor_size_t t = 0; t < trials; ++t)
        {
            if (t) { sm += ";"; }
            sm += vh::join(M[static_cast<size_t>(t)].begin(), M[static_cast<size_t>(t)].end());
        }
        std::printf("TUNE %s %" PRId64 " | %s | %s | %s | %" PRId64 "\n", caseid.c_str(), folds, vh::join(batch_sizes.begin(), batch_sizes.end()).c_str(),
                    st.c_str(), sm.c_str(), static_cast<int64_t>(result.optimum_trial()));
    }
}
} // namespace

int main(int argc, char** argv)
{
    std::setvbuf(stdout, nullptr, _IOLBF, 0);
    const bool    thorough = argc > 1 && std::string(argv[1]) == "thorough";
    const int64_t only     = argc > 2 ? std::atoll(argv[2]) : -1;
    const auto    seed     = vh::env_seed();

    // ml::tune writes one log file per (trial, fold) into temp_directory_path(): use a private directory
    char tmpl[] = "/tmp/c13-harness-XXXXXX";
    const char* tdir = mkdtemp(tmpl);
    if (tdir != nullptr) { setenv("TMPDIR", tdir, 1); }

    const int64_t n_ls    = thorough ? 100000 : 4000;
    const int64_t n_local = thorough ? 150000 : 3000;
    const int64_t n_surr  = thorough ? 5000 : 150;
    const int64_t n_tune  = thorough ? 5000 : 150;

    opt_stats_t  ostats;
    tune_stats_t tstats;
    int64_t      index = 0;
    const auto   each  = [&](const int64_t n, const auto& op)
    {
        for (int64_t k = 0; k < n; ++k, ++index)
        {
            if (only >= 0 && only != index) { continue; }
            vh::rng_t rng(mix(seed, static_cast<uint64_t>(index)));
            op(rng, "case=" + std::to_string(index));
        }
    };
    each(n_ls, [&](vh::rng_t& rng, const std::string& id) { run_ls(rng, id); });
    surr_stats_t sstats;
    each(n_local, [&](vh::rng_t& rng, const std::string& id) { run_opt(rng, id, false, thorough, ostats, sstats); });
    each(n_surr, [&](vh::rng_t& rng, const std::string& id) { run_opt(rng, id, true, thorough, ostats, sstats); });
    each(n_tune, [&](vh::rng_t& rng, const std::string& id) { run_tune(rng, id, tstats); });
    // stage SURR (appended: the case indices of the earlier stages are unchanged)
    each(thorough ? 40000 : 4000, [&](vh::rng_t& rng, const std::string& id) { run_sgv(rng, id, sstats); });
    each(thorough ? 20000 : 2000, [&](vh::rng_t& rng, const std::string& id) { run_sgf(rng, id, sstats); });
    each(thorough ? 100000 : 12000, [&](vh::rng_t& rng, const std::string& id) { run_map(rng, id, sstats); });
    each(thorough ? 4000 : 400, [&](vh::rng_t& rng, const std::string& id) { run_opt(rng, id, true, thorough, ostats, sstats); });

    if (tdir != nullptr)
    {
        std::error_code ec;
        std::filesystem::remove_all(tdir, ec);
    }
    std::printf("DONE fails=%d opt_runs=%" PRId64 " opt_evals=%" PRId64 " opt_with_ties=%" PRId64 " opt_nonfinite=%" PRId64 " opt_abort=%" PRId64
                " opt_over_max_evals=%" PRId64 " opt_reached_max_evals=%" PRId64 " opt_min_slack_to_bound=%" PRId64 " tune_runs=%" PRId64 " tune_calls=%" PRId64 " tune_trials=%" PRId64
                " tune_optimum_ties=%" PRId64 " tune_throws=%" PRId64 " sgv=%" PRId64 " sgf=%" PRId64 " map=%" PRId64 " map_exact_ties=%" PRId64 " map_log=%" PRId64
                " surr_answers=%" PRId64 " surr_invalid_answers=%" PRId64 "\n",
                g_fail, ostats.m_runs, ostats.m_evals, ostats.m_ties, ostats.m_nonfinite, ostats.m_abort, ostats.m_bound_hit, ostats.m_maxevals_reached, ostats.m_min_slack,
                tstats.m_runs, tstats.m_calls, tstats.m_trials, tstats.m_optimum_ties, tstats.m_throws, sstats.m_sgv, sstats.m_sgf, sstats.m_map, sstats.m_map_ties,
                sstats.m_map_log, sstats.m_answers, sstats.m_invalid_answers);
    return 0;
}
