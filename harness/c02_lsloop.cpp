// C02 extension harness: WHOLE RUNS of the real line-search solvers (gd; cgd-*, lbfgs, quasi-Newton) with
//   * a recording function_t (every evaluation: point, value, gradient),
//   * a recording lsearch0_t wrapped around the real lsearch0 (per outer iteration: the descent direction handed to
//     lsearch_t::get, m_last_step_size, t0, state.dg(descent) as the library computes it, the value-only trial evaluation
//     of lsearch0/cgdescent.cpp),
//   * the NANO_VERIF solver_t::done entry/exit hooks (iter_ok, converged, returned value).
// The extracted model `ls_solver_run` (coq/theories/C02_LsLoop_Defs.v) must request exactly the recorded sequence of
// evaluation points and end in the same state / status / counters (ocaml/c02ls_driver.ml). The property's own oracle
// (FAIL lines) is applied here, independently of the model.
//
//   c02_lsloop <quick|thorough> [only-run-id]            (every case derives from VERIF_SEED and its index)
//
//   LSRUN id solver body fname n | alg maxit interp c1 c2 safeguard tau1 tau2 tau3 delta cge cgt cgg cgr | eps maxev ls0 | x0
//   LSEV  id k withg it f | x | g|- | dg          it = outer iteration the evaluation belongs to (-1: the initial one),
//                                                 dg = g.dot(d_it) (nan when there is no gradient / no direction)
//   LSIT  id i last t0 ntrial trial_s dg0 evals_before | d
//   LSDN  id j iter_ok conv ret evals fx
//   LSRET id status fcalls gcalls fn_fcalls fn_gcalls fx | x | g
//   FAIL  id clause ...
//   LSEND id
//   DONE runs=.. evals=.. fails=..
#include "common.h"
#include <algorithm>
#include <functional>
#include <map>
#include <nano/function.h>
#include <nano/lsearch0.h>
#include <nano/lsearchk.h>
#include <nano/solver.h>
#include <nano/verif.h>

using namespace nano;

namespace
{
std::string hv(const vector_t& v)
{
    std::string s;
    for (tensor_size_t i = 0; i < v.size(); ++i)
    {
        if (i) s += ",";
        s += vh::hexf(v(i));
    }
    return s.empty() ? "-" : s;
}

bool same_bits(const double a, const double b)
{
    return (std::isnan(a) && std::isnan(b)) || std::memcmp(&a, &b, sizeof(a)) == 0;
}
bool same_bits(const vector_t& a, const vector_t& b)
{
    if (a.size() != b.size()) return false;
    for (tensor_size_t i = 0; i < a.size(); ++i)
        if (!same_bits(a(i), b(i))) return false;
    return true;
}
bool allfin(const vector_t& v)
{
    for (tensor_size_t i = 0; i < v.size(); ++i)
        if (!std::isfinite(v(i))) return false;
    return true;
}
vector_t copy_of(const vector_cmap_t& v)
{
    vector_t r(v.size());
    r.vector() = v.vector();
    return r;
}

struct eval_rec_t
{
    vector_t x, g;
    double   f{0};
    bool     withg{false};
};

// records every evaluation requested through the function_t interface (and is the counter the solver reads)
class recorder_t final : public function_t
{
public:
    explicit recorder_t(const function_t& inner)
        : function_t("recorder", inner.size()), m_inner(&inner)
    {
        convex(inner.convex() ? convexity::yes : convexity::no);
        smooth(inner.smooth() ? smoothness::yes : smoothness::no);
        strong_convexity(inner.strong_convexity());
    }
    rfunction_t clone() const override { return std::make_unique<recorder_t>(*this); }
    scalar_t    do_vgrad(vector_cmap_t x, vector_map_t gx) const override
    {
        const auto f = m_inner->vgrad(x, gx);
        eval_rec_t r;
        r.x     = copy_of(x);
        r.f     = f;
        r.withg = gx.size() == x.size();
        if (r.withg) r.g = copy_of(gx);
        m_log.push_back(std::move(r));
        return f;
    }
    const function_t*               m_inner;
    mutable std::vector<eval_rec_t> m_log;
};

// ---- objectives --------------------------------------------------------------------------------------------------
// 0.5 (x-c)'D(x-c) rotated by Givens rotations: plain scalar loops
class quad_t final : public function_t
{
public:
    quad_t(vh::rng_t& rng, const tensor_size_t n, const double kappa, const double s)
        : function_t("vquad", n), m_A(n, n), m_b(n)
    {
        convex(convexity::yes);
        smooth(smoothness::yes);
        matrix_t B(n, n);
        for (tensor_size_t i = 0; i < n; ++i)
        {
            m_b(i) = (2.0 * rng.unit() - 1.0) * 3.0;
            for (tensor_size_t j = 0; j < n; ++j) B(i, j) = (2.0 * rng.unit() - 1.0);
        }
        for (tensor_size_t i = 0; i < n; ++i)
            for (tensor_size_t j = 0; j < n; ++j)
            {
                double acc = (i == j) ? 1.0 : 0.0;
                for (tensor_size_t l = 0; l < n; ++l) acc += (kappa / static_cast<double>(n)) * B(i, l) * B(j, l);
                m_A(i, j) = s * acc;
            }
    }
    rfunction_t clone() const override { return std::make_unique<quad_t>(*this); }
    scalar_t    do_vgrad(vector_cmap_t x, vector_map_t gx) const override
    {
        const auto n = size();
        double     f = 0;
        for (tensor_size_t i = 0; i < n; ++i)
        {
            double acc = 0;
            for (tensor_size_t j = 0; j < n; ++j) acc += m_A(i, j) * x(j);
            if (gx.size() == n) gx(i) = acc + m_b(i);
            f += x(i) * (0.5 * acc + m_b(i));
        }
        return f;
    }
    matrix_t m_A;
    vector_t m_b;
};

// 1-D objective given by a closure
class fun1d_t final : public function_t
{
public:
    using op_t = std::function<std::pair<double, double>(double)>;
    fun1d_t(string_t name, op_t op)
        : function_t(std::move(name), 1), m_op(std::move(op))
    {
        smooth(smoothness::yes);
        convex(convexity::no);
    }
    rfunction_t clone() const override { return std::make_unique<fun1d_t>(*this); }
    scalar_t    do_vgrad(vector_cmap_t x, vector_map_t gx) const override
    {
        const auto [f, g] = m_op(x(0));
        if (gx.size() == 1) gx(0) = g;
        return f;
    }
    op_t m_op;
};

// inner(x) inside the box |x - c|_inf <= R, non-finite outside
class region_t final : public function_t
{
public:
    region_t(rfunction_t inner, vector_t center, const double radius, const int mode)
        : function_t("region", inner->size()), m_inner(std::move(inner)), m_center(std::move(center)), m_radius(radius), m_mode(mode)
    {
        convex(convexity::no);
        smooth(smoothness::yes);
    }
    region_t(const region_t& o)
        : function_t(o), m_inner(o.m_inner->clone()), m_center(o.m_center), m_radius(o.m_radius), m_mode(o.m_mode)
    {
    }
    rfunction_t clone() const override { return std::make_unique<region_t>(*this); }
    scalar_t    do_vgrad(vector_cmap_t x, vector_map_t gx) const override
    {
        const auto f = m_inner->vgrad(x, gx);
        double     d = 0;
        for (tensor_size_t i = 0; i < size(); ++i) d = std::max(d, std::fabs(x(i) - m_center(i)));
        if (d <= m_radius) return f;
        const bool withg = gx.size() == size();
        switch (m_mode)
        {
        case 0: if (withg) gx(0) = std::nan(""); return std::nan("");
        case 1: return HUGE_VAL;
        case 2: if (withg) gx(size() - 1) = std::nan(""); return f;
        default: if (withg) for (tensor_size_t i = 0; i < size(); ++i) gx(i) = 0.0; return HUGE_VAL;
        }
    }
    rfunction_t m_inner;
    vector_t    m_center;
    double      m_radius{1};
    int         m_mode{0};
};

// scale * inner(x) (scale down to 1e-200: products g.d underflow -> `not a descent direction`)
class scaled_t final : public function_t
{
public:
    scaled_t(rfunction_t inner, const double scale)
        : function_t("scaled", inner->size()), m_inner(std::move(inner)), m_scale(scale)
    {
        convex(convexity::no);
        smooth(smoothness::yes);
    }
    scaled_t(const scaled_t& o) : function_t(o), m_inner(o.m_inner->clone()), m_scale(o.m_scale) {}
    rfunction_t clone() const override { return std::make_unique<scaled_t>(*this); }
    scalar_t    do_vgrad(vector_cmap_t x, vector_map_t gx) const override
    {
        const auto f = m_inner->vgrad(x, gx);
        if (gx.size() == size())
            for (tensor_size_t i = 0; i < size(); ++i) gx(i) *= m_scale;
        return f * m_scale;
    }
    rfunction_t m_inner;
    double      m_scale{1};
};

double logu(vh::rng_t& rng, const double lo, const double hi)
{
    return std::exp(std::log(lo) + (std::log(hi) - std::log(lo)) * rng.unit());
}
double sym(vh::rng_t& rng) { return 2.0 * rng.unit() - 1.0; }

rfunction_t make_fun1d(vh::rng_t& rng)
{
    switch (rng.range(0, 7))
    {
    case 0: // hard wall: NaN at and beyond it
    {
        const auto wall = sym(rng) * 3, m = sym(rng) * 3;
        return std::make_unique<fun1d_t>("wall", [=](double x) {
            return x < wall ? std::make_pair((x - m) * (x - m), 2 * (x - m)) : std::make_pair(std::nan(""), std::nan(""));
        });
    }
    case 1: // finite value, infinite slope beyond a threshold
    {
        const auto wall = sym(rng) * 3, m = sym(rng) * 3;
        return std::make_unique<fun1d_t>("ginf", [=](double x) {
            return x < wall ? std::make_pair((x - m) * (x - m), 2 * (x - m)) : std::make_pair((wall - m) * (wall - m) - 1.0, HUGE_VAL);
        });
    }
    case 2: // oscillating
    {
        const auto w = logu(rng, 1e-1, 1e2), q = logu(rng, 1e-3, 1e0);
        return std::make_unique<fun1d_t>("osc", [=](double x) { return std::make_pair(std::sin(w * x) + q * x * x, w * std::cos(w * x) + 2 * q * x); });
    }
    case 3: // double well
    {
        const auto a = logu(rng, 1e-2, 1e1);
        return std::make_unique<fun1d_t>("well", [=](double x) { return std::make_pair(a * (x * x - 1) * (x * x - 1), 4 * a * x * (x * x - 1)); });
    }
    case 4: // exponential (overflows)
    {
        const auto k = logu(rng, 1e-1, 1e2);
        return std::make_unique<fun1d_t>("exp", [=](double x) { return std::make_pair(std::exp(k * x) - x, k * std::exp(k * x) - 1.0); });
    }
    case 5: // nearly flat
    {
        const auto s = logu(rng, 1e-14, 1e-9), q = logu(rng, 1e-16, 1e-8), k = sym(rng) * 10;
        return std::make_unique<fun1d_t>("flat", [=](double x) { return std::make_pair(k + s * x + q * x * x, s + 2 * q * x); });
    }
    case 6: // a hill behind the valley: stationary points with a value above the start are reachable by a long first step
    {
        const auto w = logu(rng, 0.5, 4.0);
        return std::make_unique<fun1d_t>("hill", [=](double x) { return std::make_pair(-std::cos(w * x) + 0.01 * x * x, w * std::sin(w * x) + 0.02 * x); });
    }
    default: // log barrier
    {
        const auto wall = sym(rng) * 3, c = logu(rng, 1e-3, 1e1);
        return std::make_unique<fun1d_t>("barrier", [=](double x) { return std::make_pair(-std::log(wall - x) + 0.5 * c * x * x, 1.0 / (wall - x) + c * x); });
    }
    }
}

// ---- recording lsearch0 ---------------------------------------------------------------------------------------------
struct it_rec_t
{
    vector_t d;
    double   last{0}, t0{0}, dg0{0}, trial_s{std::nan("")};
    size_t   evals_before{0}, evals_after{0};
};
std::vector<it_rec_t> g_its;
const recorder_t*     g_rec = nullptr;

class rec_lsearch0_t final : public lsearch0_t
{
public:
    explicit rec_lsearch0_t(rlsearch0_t inner)
        : lsearch0_t("recording"), m_inner(std::move(inner))
    {
    }
    rec_lsearch0_t(const rec_lsearch0_t& o) : lsearch0_t(o), m_inner(o.m_inner->clone()) {}
    rlsearch0_t clone() const override { return std::make_unique<rec_lsearch0_t>(*this); }
    scalar_t    get(const solver_state_t& state, const vector_t& descent, const scalar_t last) override
    {
        m_inner->parameter("lsearch0::epsilon") = parameter("lsearch0::epsilon").value<scalar_t>();
        it_rec_t r;
        r.d            = descent;
        r.last         = last;
        r.dg0          = state.dg(descent); // the library's own expression
        r.evals_before = g_rec ? g_rec->m_log.size() : 0;
        r.t0           = m_inner->get(state, descent, last);
        r.evals_after  = g_rec ? g_rec->m_log.size() : 0;
        if (r.evals_after > r.evals_before && m_inner->type_id() == "cgdescent")
        {
            const auto phi1 = m_inner->parameter("lsearch0::cgdescent::phi1").value<scalar_t>();
            r.trial_s       = last * phi1; // `prevt * phi1` of lsearch0/cgdescent.cpp
        }
        g_its.push_back(std::move(r));
        return g_its.back().t0;
    }
    rlsearch0_t m_inner;
};

// ---- done() events ---------------------------------------------------------------------------------------------------
struct dn_rec_t
{
    bool   iter_ok{false}, conv{false}, ret{false};
    size_t evals{0};
    double fx{0};
    bool   valid{false};
};
std::vector<dn_rec_t> g_dns;

void on_event(const int kind, const void* object, const std::uint64_t a, const std::uint64_t b)
{
    const auto* st = static_cast<const solver_state_t*>(object);
    if (kind == verif::ev_solver_done)
    {
        dn_rec_t e;
        e.iter_ok = a != 0;
        e.conv    = b != 0;
        e.evals   = g_rec ? g_rec->m_log.size() : 0;
        e.fx      = st->fx();
        e.valid   = st->valid();
        g_dns.push_back(e);
    }
    else if (kind == verif::ev_solver_exit && !g_dns.empty()) { g_dns.back().ret = a != 0; }
}

// ---- configuration ---------------------------------------------------------------------------------------------------
const char* const ALGS[] = {"backtrack", "lemarechal", "fletcher", "morethuente", "cgdescent"};

struct cfg_t
{
    int    alg{0};
    int    maxit{128};
    int    interp{2};
    double c1{1e-4}, c2{0.1};
    double safeguard{0.1}, tau1{9.0}, tau2{0.1}, tau3{0.5}, delta{0.66};
    double cge{1e-6}, cgt{0.5}, cgg{0.66}, cgr{5.0};
    double eps{1e-8};
    long   maxev{100};
    std::string ls0{"quadratic"};
};

rlsearchk_t make_lsearchk(const cfg_t& c)
{
    auto ls = lsearchk_t::all().get(ALGS[c.alg]);
    const auto it = static_cast<interpolation_type>(c.interp);
    ls->parameter("lsearchk::max_iterations") = c.maxit;
    switch (c.alg)
    {
    case 0:
        ls->parameter("lsearchk::backtrack::interpolation") = it;
        ls->parameter("lsearchk::backtrack::safeguard")     = c.safeguard;
        break;
    case 1:
        ls->parameter("lsearchk::lemarechal::interpolation") = it;
        ls->parameter("lsearchk::lemarechal::tau1")          = c.tau1;
        ls->parameter("lsearchk::lemarechal::safeguard")     = c.safeguard;
        break;
    case 2:
        ls->parameter("lsearchk::fletcher::interpolation") = it;
        ls->parameter("lsearchk::fletcher::tau1")          = c.tau1;
        ls->parameter("lsearchk::fletcher::tau23")         = std::make_tuple(c.tau2, c.tau3);
        break;
    case 3: ls->parameter("lsearchk::morethuente::delta") = c.delta; break;
    default:
        ls->parameter("lsearchk::cgdescent::epsilon") = c.cge;
        ls->parameter("lsearchk::cgdescent::theta")   = c.cgt;
        ls->parameter("lsearchk::cgdescent::gamma")   = c.cgg;
        ls->parameter("lsearchk::cgdescent::ro")      = c.cgr;
        break;
    }
    return ls;
}

long ls_bound(const int alg, const long n)
{
    switch (alg)
    {
    case 0: return 3 * n;
    case 1: return 3 * n - 1;
    case 2: return 4 * n - 1;
    case 3: return 3 * n;
    default: return 9 * n + 1;
    }
}

long g_fails = 0;
void fail(const long id, const std::string& what)
{
    ++g_fails;
    std::printf("FAIL %ld %s\n", id, what.c_str());
}

struct solver_desc_t
{
    const char* id;
    int         body; // 0 gd, 1 cgd, 2 lbfgs, 3 quasi
};
const solver_desc_t SOLVERS[] = {{"gd", 0},       {"cgd-n", 1},   {"cgd-hs", 1},   {"cgd-fr", 1},   {"cgd-pr", 1}, {"cgd-cd", 1},
                                 {"cgd-ls", 1},   {"cgd-dy", 1},  {"cgd-dycd", 1}, {"cgd-dyhs", 1}, {"cgd-frpr", 1}, {"lbfgs", 2},
                                 {"dfp", 3},      {"sr1", 3},     {"bfgs", 3},     {"hoshino", 3},  {"fletcher", 3}};
const size_t        NSOLVERS  = sizeof(SOLVERS) / sizeof(SOLVERS[0]);

long g_evals = 0;
std::map<std::string, long> g_hist;

void run_case(const uint64_t seed, const long id, const std::vector<std::string>& smooth_ids, const bool thorough)
{
    vh::rng_t rng(seed * 1000003ULL + static_cast<uint64_t>(id) * 7919ULL + 0xC02E);
    rng.next();

    // ---- solver: every third case is gd ----------------------------------------------------------------------------
    const auto& sd = (id % 3 == 0) ? SOLVERS[0] : SOLVERS[1 + rng.range(0, static_cast<int64_t>(NSOLVERS) - 2)];

    // ---- objective ---------------------------------------------------------------------------------------------------
    static const tensor_size_t DIMS[] = {1, 2, 2, 3, 4, 4, 8, 16};
    auto                       n      = DIMS[rng.range(0, thorough ? 7 : 6)];
    rfunction_t                fn;
    std::string                fname;
    const auto                 fk = rng.range(0, 11);
    if (fk <= 4)
    {
        const auto& fid = smooth_ids[static_cast<size_t>(rng.range(0, static_cast<int64_t>(smooth_ids.size()) - 1))];
        fn              = function_t::all().get(fid)->make(n, rng.range(10, 20));
    }
    else if (fk <= 7) { fn = std::make_unique<quad_t>(rng, n, logu(rng, 1, 1e3), logu(rng, 1e-2, 1e2)); }
    else { fn = make_fun1d(rng); }
    if (!fn) return;
    n     = fn->size();
    fname = fn->type_id();

    const auto radius = logu(rng, 1e-3, 10.0);
    vector_t   x0(n);
    for (tensor_size_t i = 0; i < n; ++i) x0(i) = sym(rng) * radius;
    const auto xk = rng.range(0, 15);
    if (xk == 0)
        for (tensor_size_t i = 0; i < n; ++i) x0(i) = 0.0; // often the exact minimiser: converged before the loop
    if (xk == 1)
        for (tensor_size_t i = 0; i < n; ++i) x0(i) = std::ldexp(static_cast<double>(rng.range(-16, 16)), -2);

    const auto wrapk = rng.range(0, 13);
    if (wrapk <= 2)
    {
        fn    = std::make_unique<region_t>(std::move(fn), x0, logu(rng, 1e-3, 3.0) * (1.0 + radius), static_cast<int>(rng.range(0, 3)));
        fname = "region[" + fname + "]";
    }
    else if (wrapk == 3)
    {
        fn    = std::make_unique<scaled_t>(std::move(fn), logu(rng, 1e-220, 1e-150));
        fname = "tiny[" + fname + "]";
    }
    else if (wrapk == 4)
    {
        fn    = std::make_unique<scaled_t>(std::move(fn), logu(rng, 1e100, 1e300));
        fname = "huge[" + fname + "]";
    }
    {
        vector_t   g0(n);
        const auto f0 = fn->vgrad(x0, g0);
        if (!std::isfinite(f0)) return; // outside the property's domain
    }

    // ---- configuration ------------------------------------------------------------------------------------------------
    cfg_t c;
    c.alg = static_cast<int>(rng.range(0, 4));
    if (rng.range(0, 2) == 0) c.alg = static_cast<int>(rng.range(0, 2)); // more Armijo-type searches (theorem 3)
    switch (rng.range(0, 15))
    {
    case 0: c.maxit = 1; break;
    case 1: c.maxit = static_cast<int>(rng.range(1, 3)); break;
    case 2: c.maxit = static_cast<int>(rng.range(2, 8)); break;
    case 3: case 4: c.maxit = static_cast<int>(rng.range(8, 40)); break;
    default: c.maxit = rng.range(0, 1) ? 128 : static_cast<int>(rng.range(20, 200)); break;
    }
    c.interp = static_cast<int>(rng.range(0, 2));
    switch (rng.range(0, 3))
    {
    case 0: c.c1 = 1e-4, c.c2 = 0.1; break;
    case 1: c.c1 = 1e-4, c.c2 = 0.9; break;
    case 2: c.c1 = 0.1, c.c2 = 0.9; break;
    default:
        c.c1 = logu(rng, 1e-8, 0.49);
        c.c2 = c.c1 + (1.0 - c.c1) * std::min(0.999, std::max(1e-3, rng.unit()));
        break;
    }
    if (!(c.c1 > 0.0 && c.c1 < c.c2 && c.c2 < 1.0)) { c.c1 = 1e-4, c.c2 = 0.1; }
    if (rng.range(0, 2) == 0)
    {
        c.safeguard = std::min(0.499, std::max(1e-6, 0.5 * rng.unit()));
        c.tau1      = 2.001 + 20.0 * rng.unit();
        c.tau3      = std::min(0.5, std::max(2e-3, 0.5 * rng.unit()));
        c.tau2      = c.tau3 * std::min(0.999, std::max(1e-3, rng.unit()));
        c.delta     = std::min(0.999, std::max(1e-3, rng.unit()));
        c.cge       = logu(rng, 1e-12, 1e2);
        c.cgt       = std::min(0.999, std::max(1e-3, rng.unit()));
        c.cgg       = std::min(0.999, std::max(1e-3, rng.unit()));
        c.cgr       = 1.0 + logu(rng, 1e-2, 1e2);
    }
    // epsilon in (0, 0.1]: large values end runs early (also before the loop), 1e-300 never converges on tiny functions
    switch (rng.range(0, 9))
    {
    case 0: c.eps = 1e-1; break;
    case 1: c.eps = logu(rng, 1e-3, 1e-1); break;
    case 2: case 3: c.eps = logu(rng, 1e-14, 1e-8); break;
    default: c.eps = logu(rng, 1e-9, 1e-3); break;
    }
    if (wrapk == 3 && rng.range(0, 1) == 0) c.eps = 1e-300;
    // max_evals >= 10: boundary-heavy (the loop condition is the subject of theorem 1)
    switch (rng.range(0, 7))
    {
    case 0: c.maxev = rng.range(10, 14); break;
    case 1: c.maxev = rng.range(10, 60); break;
    case 2: c.maxev = rng.range(60, 200); break;
    default: c.maxev = static_cast<long>(logu(rng, 20, thorough ? 3000 : 500)); break;
    }
    static const char* L0[] = {"cgdescent", "constant", "linear", "quadratic"};
    c.ls0 = L0[rng.range(0, 3)];

    auto solver = solver_t::all().get(sd.id);
    if (!solver) return;
    solver->parameter("solver::epsilon")   = c.eps;
    solver->parameter("solver::max_evals") = c.maxev;
    solver->parameter("solver::tolerance") = std::make_tuple(c.c1, c.c2);
    {
        auto inner = lsearch0_t::all().get(c.ls0);
        if (c.ls0 == "constant" && rng.range(0, 1)) inner->parameter("lsearch0::constant::t0") = logu(rng, 1e-3, 1e3);
        if (c.ls0 == "cgdescent" && rng.range(0, 1))
        {
            inner->parameter("lsearch0::cgdescent::phi1") = logu(rng, 1e-2, 0.9);
            inner->parameter("lsearch0::cgdescent::phi2") = 1.0 + logu(rng, 1e-1, 1e1);
        }
        solver->lsearch0(rec_lsearch0_t{std::move(inner)});
    }
    solver->lsearchk(*make_lsearchk(c));

    // ---- run the real thing -------------------------------------------------------------------------------------------
    const auto rec = recorder_t{*fn};
    g_rec          = &rec;
    g_its.clear();
    g_dns.clear();
    const auto state = solver->minimize(rec, x0, make_null_logger());
    g_rec            = nullptr;
    const auto& log  = rec.m_log;
    g_evals += static_cast<long>(log.size());

    // ---- print ----------------------------------------------------------------------------------------------------------
    {
        std::string line = "LSRUN " + std::to_string(id) + " " + sd.id + " " + std::to_string(sd.body) + " " + fname + " " +
                           std::to_string(n) + " | " + std::to_string(c.alg) + " " + std::to_string(c.maxit) + " " + std::to_string(c.interp);
        for (const auto v : {c.c1, c.c2, c.safeguard, c.tau1, c.tau2, c.tau3, c.delta, c.cge, c.cgt, c.cgg, c.cgr}) line += " " + vh::hexf(v);
        line += " | " + vh::hexf(c.eps) + " " + std::to_string(c.maxev) + " " + c.ls0 + " | " + hv(x0);
        std::puts(line.c_str());
    }
    // iteration of every evaluation
    std::vector<long> it_of(log.size(), -1);
    for (size_t i = 0; i < g_its.size(); ++i)
    {
        const auto end = (i + 1 < g_its.size()) ? g_its[i + 1].evals_before : log.size();
        for (size_t k = g_its[i].evals_before; k < end; ++k) it_of[k] = static_cast<long>(i);
    }
    size_t next_it = 0;
    for (size_t k = 0; k <= log.size(); ++k)
    {
        while (next_it < g_its.size() && g_its[next_it].evals_before == k)
        {
            const auto& r = g_its[next_it];
            std::printf("LSIT %ld %zu %s %s %zu %s %s %zu | %s\n", id, next_it, vh::hexf(r.last).c_str(), vh::hexf(r.t0).c_str(),
                        r.evals_after - r.evals_before, vh::hexf(r.trial_s).c_str(), vh::hexf(r.dg0).c_str(), r.evals_before, hv(r.d).c_str());
            ++next_it;
        }
        if (k == log.size()) break;
        const auto& e  = log[k];
        const auto  it = it_of[k];
        const auto  dg = (e.withg && it >= 0) ? e.g.dot(g_its[static_cast<size_t>(it)].d) : std::nan("");
        std::printf("LSEV %ld %zu %d %ld %s | %s | %s | %s\n", id, k, e.withg ? 1 : 0, it, vh::hexf(e.f).c_str(), hv(e.x).c_str(),
                    e.withg ? hv(e.g).c_str() : "-", vh::hexf(dg).c_str());
    }
    for (size_t j = 0; j < g_dns.size(); ++j)
    {
        const auto& e = g_dns[j];
        std::printf("LSDN %ld %zu %d %d %d %zu %s\n", id, j, e.iter_ok ? 1 : 0, e.conv ? 1 : 0, e.ret ? 1 : 0, e.evals, vh::hexf(e.fx).c_str());
    }
    std::printf("LSRET %ld %d %ld %ld %ld %ld %s | %s | %s\n", id, static_cast<int>(state.status()), static_cast<long>(state.fcalls()),
                static_cast<long>(state.gcalls()), static_cast<long>(rec.fcalls()), static_cast<long>(rec.gcalls()), vh::hexf(state.fx()).c_str(),
                hv(state.x()).c_str(), hv(state.gx()).c_str());

    // ---- the property's own oracle (independent of the model) ----------------------------------------------------------
    const auto status = static_cast<int>(state.status()); // 0 max_iters, 1 converged, 2 failed
    long       nf = 0, ng = 0;
    for (const auto& e : log) { nf += 1; ng += e.withg ? 1 : 0; }
    // (1) budget: evaluations <= max(2, max_evals - 1 + (2 * ls_bound + 1)); one line search <= ls_bound probes (+ 1 trial)
    const auto bound = std::max<long>(2, c.maxev - 1 + 2 * ls_bound(c.alg, c.maxit) + 1);
    if (nf + ng > bound) fail(id, "budget-overshoot evaluations=" + std::to_string(nf + ng) + " bound=" + std::to_string(bound));
    for (size_t i = 0; i < g_its.size(); ++i)
    {
        const auto end = (i + 1 < g_its.size()) ? g_its[i + 1].evals_before : log.size();
        if (g_its[i].evals_after - g_its[i].evals_before > 1) fail(id, "lsearch0-more-than-one-evaluation iteration=" + std::to_string(i));
        if (static_cast<long>(end - g_its[i].evals_after) > ls_bound(c.alg, c.maxit))
            fail(id, "line-search-evaluations iteration=" + std::to_string(i) + " probes=" + std::to_string(end - g_its[i].evals_after));
    }
    if (static_cast<long>(g_its.size()) * 2 > std::max<long>(nf + ng, 2)) fail(id, "more-iterations-than-evaluations");
    if (state.fcalls() > nf || state.gcalls() > ng) fail(id, "reported-calls-exceed-actual");
    if (rec.fcalls() != nf || rec.gcalls() != ng) fail(id, "function-counters-differ-from-actual");
    // (2) the returned triple is a recorded evaluation (with gradient)
    {
        bool found = false;
        for (const auto& e : log)
            if (e.withg && same_bits(e.x, state.x()) && same_bits(e.f, state.fx()) && same_bits(e.g, state.gx())) { found = true; break; }
        if (!found) fail(id, "returned-triple-not-evaluated");
    }
    // (3) Armijo-type searches: every accepted iterate does not increase the value; accepted steps are not negative
    if (c.alg <= 2)
    {
        for (size_t j = 1; j < g_dns.size(); ++j)
        {
            if (g_dns[j].iter_ok && !(g_dns[j].fx <= g_dns[j - 1].fx))
                fail(id, "accepted-iterate-increases-value done=" + std::to_string(j) + " f=" + vh::hexf(g_dns[j].fx) + " previous=" + vh::hexf(g_dns[j - 1].fx));
        }
        for (size_t i = 1; i < g_its.size() && i < g_dns.size(); ++i)
        {
            if (g_dns[i].iter_ok && !(g_its[i].last >= 0.0)) fail(id, "accepted-step-negative iteration=" + std::to_string(i - 1) + " t=" + vh::hexf(g_its[i].last));
        }
        bool all_ok = true;
        for (const auto& e : g_dns) all_ok = all_ok && e.iter_ok;
        if (all_ok && !g_dns.empty() && !(state.fx() <= g_dns[0].fx)) fail(id, "worse-than-start-with-armijo-search f=" + vh::hexf(state.fx()) + " f0=" + vh::hexf(g_dns[0].fx));
    }
    // (4) status facts
    {
        const auto valid = std::isfinite(state.fx()) && allfin(state.x()) && allfin(state.gx());
        double     gmax  = 0;
        for (tensor_size_t i = 0; i < n; ++i) gmax = std::max(gmax, std::fabs(state.gx()(i)));
        const auto gtest = gmax / std::max(1.0, std::fabs(state.fx()));
        if (status == 1 && !(valid && gtest < c.eps)) fail(id, "converged-without-criterion gtest=" + vh::hexf(gtest));
        if (status == 2 && !g_dns.empty() && g_dns.back().iter_ok && g_dns.back().valid) fail(id, "failed-without-cause");
        if (status != 2 && !valid) fail(id, "non-finite-result-without-failed-status");
        if (status == 0 && !g_dns.empty() && g_dns.back().ret && sd.body == 0) fail(id, "gd-max-iters-after-stop");
        if (sd.body != 0 && !valid && g_dns.size() > 1) fail(id, "invalid-state-returned-by-cstate-or-pstate-solver");
        // repo commit 85997bc (found by this stage: theorem C02_lsloop_not_worse_unless_failed, formerly ..._refuted): a FAILED line
        // search is never reported as `converged`, whatever the gradient test says at its last trial point
        if (status == 1 && !g_dns.empty() && !g_dns.back().iter_ok)
        {
            fail(id, std::string("converged-after-failed-line-search f=") + vh::hexf(state.fx()) + " f0=" + vh::hexf(g_dns[0].fx) + " solver=" + sd.id +
                         " lsearchk=" + ALGS[c.alg] + " max_iterations=" + std::to_string(c.maxit));
        }
        // ... hence, with an Armijo-type search: unless failed, the value is not larger than the starting value (binary64, no slack)
        if (status != 2 && c.alg <= 2 && !g_dns.empty() && !(state.fx() <= g_dns[0].fx))
        {
            fail(id, std::string("worse-than-start-unless-failed f=") + vh::hexf(state.fx()) + " f0=" + vh::hexf(g_dns[0].fx) + " status=" + std::to_string(status) +
                         " lsearchk=" + ALGS[c.alg] + " max_iterations=" + std::to_string(c.maxit));
        }
        if (status == 2 && !g_dns.empty() && !g_dns.back().iter_ok && g_dns.back().conv && g_dns.back().valid) g_hist["failed_line_search_on_a_point_passing_the_gradient_test"] += 1;
        if (g_dns.empty() || !g_dns[0].iter_ok) fail(id, "first-done-call");
        for (size_t j = 0; j + 1 < g_dns.size(); ++j)
            if (g_dns[j].ret) fail(id, "loop-continues-after-done-returned-true");
    }
    g_hist[std::string("status=") + std::to_string(status)] += 1;
    g_hist[std::string("alg=") + ALGS[c.alg]] += 1;
    g_hist[std::string("body=") + std::to_string(sd.body)] += 1;
    if (!g_dns.empty() && !g_dns.back().iter_ok) g_hist["last_iter_failed"] += 1;
    if (g_dns.size() == 1) g_hist["stopped_before_loop"] += 1;
    if (!g_dns.empty() && !g_dns.back().ret) g_hist["budget_exit"] += 1;
    for (const auto& r : g_its)
        if (r.evals_after > r.evals_before) { g_hist["ls0_trial_runs"] += 1; break; }
    std::printf("LSEND %ld\n", id);
}
} // namespace

int main(int argc, char** argv)
{
    std::setvbuf(stdout, nullptr, _IOLBF, 0);
    const std::string tier     = argc > 1 ? argv[1] : "quick";
    const long        only     = argc > 2 ? std::atol(argv[2]) : -1;
    const bool        thorough = tier == "thorough";
    const auto        seed     = vh::env_seed();
    verif::g_event_hook.store(&on_event);

    std::vector<std::string> smooth_ids;
    for (const auto& fid : function_t::all().ids())
    {
        const auto f = function_t::all().get(fid)->make(2, 10);
        if (f && f->smooth()) smooth_ids.push_back(fid);
    }
    const long cases = thorough ? 12000 : 600;
    long       runs  = 0;
    for (long id = 0; id < cases; ++id)
    {
        if (only >= 0 && id != only) continue;
        run_case(seed, id, smooth_ids, thorough);
        ++runs;
    }
    std::string h;
    for (const auto& kv : g_hist) h += " " + kv.first + "=" + std::to_string(kv.second);
    std::printf("LSHIST%s\n", h.c_str());
    std::printf("DONE runs=%ld evals=%ld fails=%ld smooth_functions=%zu\n", runs, g_evals, g_fails, smooth_ids.size());
    return 0;
}
