// C02 / C01 harness: the solver skeleton of libnano against (a) the extracted model and (b) the property's own oracle.
//
//   c02_solver <quick|thorough> <c02|c01> [only-run-id]        (every case derives from VERIF_SEED)
//
// Part A (mode c02)  SEQ: random client op sequences on the real nano::solver_state_t through its public API
//   (a scripted function_t supplies the values; solver_t::done is reached through a probe subclass):
//     S <seq> <OP> <args> = <result> # <fx> | <x> | <gx> | <status> <fcalls> <gcalls> <fn.fcalls> <fn.gcalls>
//     OP: I x|g|f (construct), E w (function evaluation, w = with gradient), C (update_calls), U x|g|f (update/3),
//         V x|g|f (update(x): evaluation + update), B x|g|f (update_if_better/3), b x|f (update_if_better/2),
//         T p (value_test(p)), G (gradient_test), K (valid), D i c (solver_t::done(state, i, c))
// Part B  RUN: real solvers on real functions with the NANO_VERIF hooks recording every solver_t::done entry/exit:
//     RUN <id> solver=.. kind=gd|ls|tight|loose type=ls|nm|c func=.. n=.. eps=<hex> maxev=.. ...
//     EV <id> <level> <iter_ok> <conv> <ret> <status> <fcalls> <gcalls> <fn.fcalls> <fn.gcalls> <status'> <fcalls'>
//        <gcalls'> <same> <fin> <fx> | <x or -> | <gx or ->
//     AL <id> criterion old_criterion ro epsilon iter_ok converged outer      (augmented lagrangian outer iteration)
//     RET <id> <status> <fcalls> <gcalls> <valid> <fx> | <x> | <gx>
//     ORA <id> key=value ...            (independent measurements: actual calls, f0, recomputed values, ...)
//     FAIL <id> <clause> ...            (the property's own oracle, independent of the model)
//     END <id>
#include "common.h"
#include <algorithm>
#include <nano/function/penalty.h>
#include <nano/solver.h>
#include <nano/solver/augmented.h>
#include <nano/solver/penalty.h>
#include <nano/verif.h>

using namespace nano;

namespace
{
std::string hv(const vector_t& v)
{
    std::string s;
    for (tensor_size_t i = 0; i < v.size(); ++i)
    {
        if (i) s += ",";
        s += vh::hexf(v(i));
    }
    return s.empty() ? std::string("-") : s;
}
std::string hv(const std::vector<double>& v)
{
    std::string s;
    for (size_t i = 0; i < v.size(); ++i)
    {
        if (i) s += ",";
        s += vh::hexf(v[i]);
    }
    return s.empty() ? std::string("-") : s;
}
vector_t tov(const std::vector<double>& v)
{
    vector_t x(static_cast<tensor_size_t>(v.size()));
    for (size_t i = 0; i < v.size(); ++i) x(static_cast<tensor_size_t>(i)) = v[i];
    return x;
}
std::vector<double> tos(const vector_t& v)
{
    return std::vector<double>(v.data(), v.data() + v.size());
}
bool same_bits(const double a, const double b)
{
    return std::memcmp(&a, &b, sizeof(a)) == 0 || (std::isnan(a) && std::isnan(b));
}
bool same_bits(const std::vector<double>& a, const vector_t& b)
{
    if (static_cast<tensor_size_t>(a.size()) != b.size()) return false;
    for (size_t i = 0; i < a.size(); ++i)
        if (!same_bits(a[i], b(static_cast<tensor_size_t>(i)))) return false;
    return true;
}
bool allfin(const vector_t& v)
{
    for (tensor_size_t i = 0; i < v.size(); ++i)
        if (!std::isfinite(v(i))) return false;
    return true;
}
double maxabs(const std::vector<double>& v)
{
    double m = 0.0;
    for (const auto x : v) m = std::max(m, std::fabs(x));
    return m;
}

// ------------------------------------------------------------------------------------------------------
// Part A: scripted function + probe solver
// ------------------------------------------------------------------------------------------------------
class scripted_function_t final : public function_t
{
public:
    explicit scripted_function_t(tensor_size_t n) : function_t("scripted", n) { convex(convexity::no); smooth(smoothness::no); }
    rfunction_t clone() const override { return std::make_unique<scripted_function_t>(*this); }
    scalar_t    do_vgrad(vector_cmap_t, vector_map_t gx) const override
    {
        if (gx.size() == size())
            for (tensor_size_t i = 0; i < size(); ++i) gx(i) = m_g[static_cast<size_t>(i)];
        return m_f;
    }
    mutable std::vector<double> m_g;
    mutable double              m_f{0};
};

struct probe_solver_t final : public solver_t
{
    probe_solver_t() : solver_t("probe") {}
    using solver_t::done;
    rsolver_t      clone() const override { return std::make_unique<probe_solver_t>(*this); }
    solver_state_t do_minimize(const function_t&, const vector_t&, const logger_t&) const override { return {}; }
};

const double kDenorm = 4.9406564584124654e-324;
const double kMax    = std::numeric_limits<double>::max();

double special(vh::rng_t& r)
{
    static const double tab[] = {0.0, -0.0, 1.0, -1.0, kDenorm, -kDenorm, 1e-310, kMax, -kMax, HUGE_VAL, -HUGE_VAL,
                                 std::nan(""), 1.0 + 0x1p-52, 1.0 - 0x1p-53, 0x1p-1022, 2.0, 0.5, 1e8, -1e8, 1e-8};
    return tab[r.range(0, static_cast<int64_t>(sizeof(tab) / sizeof(tab[0])) - 1)];
}
double finite_val(vh::rng_t& r)
{
    switch (r.range(0, 5))
    {
    case 0: return static_cast<double>(r.range(-8, 8)) / 4.0;
    case 1: return (r.unit() - 0.5) * 20.0;
    case 2: return std::ldexp(r.unit() - 0.5, static_cast<int>(r.range(-60, 60)));
    case 3:
    {
        double s = special(r);
        return std::isfinite(s) ? s : 1.0;
    }
    default: return (r.unit() - 0.5) * 2.0;
    }
}
std::vector<double> finite_vec(vh::rng_t& r, int n)
{
    std::vector<double> v(static_cast<size_t>(n));
    for (auto& x : v) x = finite_val(r);
    return v;
}
// next value for update_if_better: aimed at the df > 0 split (equal, one ulp up/down, tiny, non-finite)
double next_fx(vh::rng_t& r, double cur)
{
    if (!std::isfinite(cur)) return r.range(0, 2) ? finite_val(r) : special(r);
    switch (r.range(0, 11))
    {
    case 0: return cur;
    case 1: return std::nextafter(cur, -HUGE_VAL);
    case 2: return std::nextafter(cur, HUGE_VAL);
    case 3: return cur - kDenorm;
    case 4: return special(r);
    case 5: return -cur;
    case 6: return cur + std::fabs(cur) * r.unit() * 0.1 + 1e-3 * r.unit();
    case 7: return (cur == 0.0) ? -0.0 : cur * (1.0 - 0x1p-52);
    default: return cur - (std::fabs(cur) * 0.1 + 1e-3) * r.unit();
    }
}

std::string obs(const solver_state_t& s, const function_t& f)
{
    return " # " + vh::hexf(s.fx()) + " | " + hv(s.x()) + " | " + hv(s.gx()) + " | " + std::to_string(static_cast<int>(s.status())) +
           " " + std::to_string(s.fcalls()) + " " + std::to_string(s.gcalls()) + " " + std::to_string(f.fcalls()) + " " +
           std::to_string(f.gcalls());
}

long run_sequences(vh::rng_t& rng, const int count)
{
    long       ops    = 0;
    const auto logger = make_null_logger();
    const auto probe  = probe_solver_t{};
    for (int seq = 0; seq < count; ++seq)
    {
        const int n = static_cast<int>(rng.range(1, 4));
        auto      f = scripted_function_t{n};
        f.m_g       = finite_vec(rng, n);
        f.m_f       = rng.range(0, 9) ? finite_val(rng) : special(rng);
        if (rng.range(0, 19) == 0) f.m_g[0] = special(rng);
        auto x0 = finite_vec(rng, n);
        if (rng.range(0, 29) == 0) x0[0] = HUGE_VAL;
        auto state = solver_state_t{f, tov(x0)};
        std::printf("S %d I %s | %s | %s = -%s\n", seq, hv(x0).c_str(), hv(f.m_g).c_str(), vh::hexf(f.m_f).c_str(), obs(state, f).c_str());
        // style of the sequence: 0 = best-state client (update_if_better), 1 = line-search client (update), 2 = mixed
        const int style = static_cast<int>(rng.range(0, 2));
        const int len   = static_cast<int>(rng.range(5, 60));
        int       hist  = 0;
        for (int k = 0; k < len; ++k, ++ops)
        {
            int o = static_cast<int>(rng.range(0, 99));
            if (style == 0) o = o < 55 ? 0 : (o < 65 ? 1 : (o < 75 ? 2 : o));
            if (style == 1) o = o < 45 ? 3 : (o < 55 ? 4 : o);
            // 0: B, 1: b, 2: T, 3: U, 4: V, else by range
            char        buf[64];
            std::string line = "S " + std::to_string(seq) + " ";
            if (o == 0 || (o >= 5 && o < 25))
            {
                const auto x  = finite_vec(rng, n);
                auto       g  = finite_vec(rng, n);
                const auto fx = next_fx(rng, state.fx());
                if (rng.range(0, 19) == 0) g[0] = special(rng);
                const auto r = state.update_if_better(tov(x), tov(g), fx);
                ++hist;
                line += "B " + hv(x) + " | " + hv(g) + " | " + vh::hexf(fx) + " = " + (r ? "1" : "0");
            }
            else if (o == 1 || (o >= 25 && o < 32))
            {
                // the 2-argument overload; sometimes at the very same point (dx = 0) or with an infinite component in m_x
                auto x = finite_vec(rng, n);
                if (rng.range(0, 4) == 0) x = tos(state.x());
                for (auto& v : x)
                    if (!std::isfinite(v)) v = 1.0;
                const auto fx = next_fx(rng, state.fx());
                const auto r  = state.update_if_better(tov(x), fx);
                ++hist;
                line += "b " + hv(x) + " | " + vh::hexf(fx) + " = " + (r ? "1" : "0");
            }
            else if (o == 2 || (o >= 32 && o < 50))
            {
                // patience aimed at the boundaries of the three-way split of value_test
                int64_t p = rng.range(0, hist + 2);
                if (rng.range(0, 9) == 0) p = rng.range(0, 1000);
                const auto v = state.value_test(p);
                std::snprintf(buf, sizeof(buf), "T %lld = ", static_cast<long long>(p));
                line += buf + vh::hexf(v);
            }
            else if (o == 3 || (o >= 50 && o < 58))
            {
                auto x = finite_vec(rng, n);
                auto g = finite_vec(rng, n);
                if (rng.range(0, 14) == 0) x[static_cast<size_t>(rng.range(0, n - 1))] = rng.range(0, 1) ? HUGE_VAL : -HUGE_VAL;
                if (rng.range(0, 14) == 0) g[static_cast<size_t>(rng.range(0, n - 1))] = special(rng);
                const auto fx = rng.range(0, 9) ? finite_val(rng) : special(rng);
                const auto r  = state.update(tov(x), tov(g), fx);
                line += "U " + hv(x) + " | " + hv(g) + " | " + vh::hexf(fx) + " = " + (r ? "1" : "0");
            }
            else if (o == 4 || (o >= 58 && o < 64))
            {
                const auto x = finite_vec(rng, n);
                f.m_g        = finite_vec(rng, n);
                f.m_f        = rng.range(0, 9) ? finite_val(rng) : special(rng);
                const auto r = state.update(tov(x));
                line += "V " + hv(x) + " | " + hv(f.m_g) + " | " + vh::hexf(f.m_f) + " = " + (r ? "1" : "0");
            }
            else if (o < 72)
            {
                const bool w  = rng.range(0, 1) != 0;
                auto       gx = vector_t{n};
                const auto x  = tov(finite_vec(rng, n));
                if (w) f.vgrad(x, gx);
                else f.vgrad(x);
                line += std::string("E ") + (w ? "1" : "0") + " = -";
            }
            else if (o < 76)
            {
                state.update_calls();
                line += "C = -";
            }
            else if (o < 84)
            {
                line += "G = " + vh::hexf(state.gradient_test());
            }
            else if (o < 90)
            {
                line += std::string("K = ") + (state.valid() ? "1" : "0");
            }
            else
            {
                const bool i = rng.range(0, 3) != 0;
                const bool c = rng.range(0, 3) == 0;
                const auto r = probe.done(state, i, c, logger);
                line += std::string("D ") + (i ? "1" : "0") + " " + (c ? "1" : "0") + " = " + (r ? "1" : "0");
            }
            std::printf("%s%s\n", line.c_str(), obs(state, f).c_str());
        }
    }
    return ops;
}

// ------------------------------------------------------------------------------------------------------
// Part B: recording wrapper, generated functions, hooks
// ------------------------------------------------------------------------------------------------------
struct eval_rec_t
{
    std::vector<double> x, g;
    double              f{0};
    bool                withg{false};
};

class counting_function_t final : public function_t
{
public:
    explicit counting_function_t(const function_t& inner)
        : function_t("counting", inner.size()), m_inner(inner)
    {
        convex(inner.convex() ? convexity::yes : convexity::no);
        smooth(inner.smooth() ? smoothness::yes : smoothness::no);
        strong_convexity(inner.strong_convexity());
    }
    rfunction_t          clone() const override { return std::make_unique<counting_function_t>(*this); }
    const constraints_t& constraints() const override { return m_inner.constraints(); }
    scalar_t             do_vgrad(vector_cmap_t x, vector_map_t gx) const override
    {
        const bool withg = gx.size() == size();
        m_actual_f += 1;
        m_actual_g += withg ? 1 : 0;
        const auto f = m_inner.vgrad(x, gx);
        eval_rec_t rec;
        rec.x.assign(x.data(), x.data() + x.size());
        if (withg) rec.g.assign(gx.data(), gx.data() + gx.size());
        rec.f     = f;
        rec.withg = withg;
        m_log.push_back(std::move(rec));
        return f;
    }
    const function_t&               m_inner;
    mutable long                    m_actual_f{0}, m_actual_g{0};
    mutable std::vector<eval_rec_t> m_log;
};

// 0.5 x'Ax + a'x with A = s * Q diag(spectrum) Q'
class quad_function_t final : public function_t
{
public:
    quad_function_t(vh::rng_t& rng, const int n, const double kappa, const double s, const bool exact_ends)
        : function_t("vquad", n), m_A(n, n), m_a(n), m_xstar(n)
    {
        convex(convexity::yes);
        smooth(smoothness::yes);
        // random orthogonal Q: product of n Householder reflections
        matrix_t Q = matrix_t::identity(n, n);
        for (int k = 0; k < n; ++k)
        {
            vector_t v(n);
            double   nv = 0;
            for (int i = 0; i < n; ++i) { v(i) = rng.unit() - 0.5; nv += v(i) * v(i); }
            if (nv < 1e-12) { v(0) = 1.0; nv += 1.0; }
            matrix_t H = matrix_t::identity(n, n);
            for (int i = 0; i < n; ++i)
                for (int j = 0; j < n; ++j) H(i, j) -= 2.0 * v(i) * v(j) / nv;
            matrix_t P(n, n);
            for (int i = 0; i < n; ++i)
                for (int j = 0; j < n; ++j)
                {
                    double acc = 0;
                    for (int l = 0; l < n; ++l) acc += Q(i, l) * H(l, j);
                    P(i, j) = acc;
                }
            Q = P;
        }
        std::vector<double> spec(static_cast<size_t>(n));
        for (int i = 0; i < n; ++i) spec[static_cast<size_t>(i)] = std::exp(std::log(kappa) * rng.unit());
        spec[0] = 1.0;
        if (n > 1 && exact_ends) spec[1] = kappa;
        m_lmin = s * *std::min_element(spec.begin(), spec.end());
        m_lmax = s * *std::max_element(spec.begin(), spec.end());
        for (int i = 0; i < n; ++i)
            for (int j = 0; j < n; ++j)
            {
                double acc = 0;
                for (int l = 0; l < n; ++l) acc += Q(i, l) * spec[static_cast<size_t>(l)] * Q(j, l);
                m_A(i, j) = s * acc;
            }
        for (int i = 0; i < n; ++i)
            for (int j = i + 1; j < n; ++j) m_A(j, i) = m_A(i, j) = 0.5 * (m_A(i, j) + m_A(j, i));
        for (int i = 0; i < n; ++i) m_xstar(i) = (rng.unit() - 0.5) * 10.0;
        for (int i = 0; i < n; ++i)
        {
            double acc = 0;
            for (int j = 0; j < n; ++j) acc += m_A(i, j) * m_xstar(j);
            m_a(i) = -acc;
        }
        strong_convexity(m_lmin);
    }
    rfunction_t clone() const override { return std::make_unique<quad_function_t>(*this); }
    scalar_t    do_vgrad(vector_cmap_t x, vector_map_t gx) const override
    {
        // plain scalar loops: the same bits for every alignment of x
        const auto n = size();
        double     f = 0;
        for (tensor_size_t i = 0; i < n; ++i)
        {
            double acc = 0;
            for (tensor_size_t j = 0; j < n; ++j) acc += m_A(i, j) * x(j);
            if (gx.size() == n) gx(i) = acc + m_a(i);
            f += x(i) * (0.5 * acc + m_a(i));
        }
        return f;
    }
    matrix_t m_A;
    vector_t m_a, m_xstar;
    double   m_lmin{1}, m_lmax{1};
};

// max_i (a_i . x + b_i) + (optional) small quadratic: convex, non-smooth
class pwl_function_t final : public function_t
{
public:
    pwl_function_t(vh::rng_t& rng, const int n, const int pieces)
        : function_t("vpwl", n), m_W(pieces, n), m_b(pieces)
    {
        convex(convexity::yes);
        smooth(smoothness::no);
        for (int p = 0; p < pieces; ++p)
        {
            for (int i = 0; i < n; ++i) m_W(p, i) = (rng.unit() - 0.5) * 4.0;
            m_b(p) = (rng.unit() - 0.5) * 2.0;
        }
        // make it bounded below: the pieces come in +/- pairs
        for (int p = 0; p + 1 < pieces; p += 2)
            for (int i = 0; i < n; ++i) m_W(p + 1, i) = -m_W(p, i);
    }
    rfunction_t clone() const override { return std::make_unique<pwl_function_t>(*this); }
    scalar_t    do_vgrad(vector_cmap_t x, vector_map_t gx) const override
    {
        const auto n    = size();
        double     best = -HUGE_VAL;
        tensor_size_t arg = 0;
        for (tensor_size_t p = 0; p < m_W.rows(); ++p)
        {
            double acc = m_b(p);
            for (tensor_size_t i = 0; i < n; ++i) acc += m_W(p, i) * x(i);
            if (acc > best) { best = acc; arg = p; }
        }
        if (gx.size() == n)
            for (tensor_size_t i = 0; i < n; ++i) gx(i) = m_W(arg, i);
        return best;
    }
    matrix_t m_W;
    vector_t m_b;
};

// inner(x) inside the box |x - c|_inf <= R, non-finite outside (NaN / +inf value, or only a NaN gradient): a function
// with a bounded domain -- line-search trial points leave it, which is what exercises the invalid-state paths
// (`return cstate.valid() ? cstate : pstate`, status failed)
class region_function_t final : public function_t
{
public:
    region_function_t(rfunction_t inner, vector_t center, const double radius, const int mode)
        : function_t("region", inner->size()), m_inner(std::move(inner)), m_center(std::move(center)), m_radius(radius), m_mode(mode)
    {
        convex(m_inner->convex() ? convexity::yes : convexity::no);
        smooth(m_inner->smooth() ? smoothness::yes : smoothness::no);
        strong_convexity(m_inner->strong_convexity());
    }
    region_function_t(const region_function_t& o)
        : function_t(o), m_inner(o.m_inner->clone()), m_center(o.m_center), m_radius(o.m_radius), m_mode(o.m_mode)
    {
    }
    rfunction_t clone() const override { return std::make_unique<region_function_t>(*this); }
    string_t    rname() const { return "region[" + m_inner->name() + ",R=" + vh::hexf(m_radius) + ",mode=" + std::to_string(m_mode) + "]"; }
    scalar_t    do_vgrad(vector_cmap_t x, vector_map_t gx) const override
    {
        const auto f = m_inner->vgrad(x, gx);
        double     d = 0;
        for (tensor_size_t i = 0; i < size(); ++i) d = std::max(d, std::fabs(x(i) - m_center(i)));
        if (d <= m_radius) return f;
        const bool withg = gx.size() == size();
        switch (m_mode)
        {
        case 0: if (withg) gx(0) = std::nan(""); return std::nan("");
        case 1: return HUGE_VAL;
        case 2: if (withg) gx(size() - 1) = std::nan(""); return f;
        default: if (withg) for (tensor_size_t i = 0; i < size(); ++i) gx(i) = 0.0; return HUGE_VAL;
        }
    }
    rfunction_t m_inner;
    vector_t    m_center;
    double      m_radius{1};
    int         m_mode{0};
};

struct ev_rec_t
{
    int                 level{0};
    bool                iter_ok{false}, conv{false}, ret{false}, same{false}, fin{false}, closed{false};
    int                 status{0}, status2{0};
    long                fcalls{0}, gcalls{0}, ffc{0}, fgc{0}, fcalls2{0}, gcalls2{0};
    double              fx{0};
    std::vector<double> x, gx;
    long                actual_total{0}; // evaluations of the top-level function actually performed so far
};
struct al_rec_t
{
    size_t at{0}; // number of events recorded before
    double v[7]{};
};

std::vector<ev_rec_t>      g_events;
std::vector<al_rec_t>      g_al;
const counting_function_t* g_top = nullptr;
long                       g_max_inner_evals = 0; // max of fcalls+gcalls seen on entry of done() of an inner solve

void on_event(const int kind, const void* object, const std::uint64_t a, const std::uint64_t b)
{
    if (kind != verif::ev_solver_done && kind != verif::ev_solver_exit) return;
    const auto* st = static_cast<const solver_state_t*>(object);
    if (kind == verif::ev_solver_done)
    {
        ev_rec_t e;
        const auto& fn = st->function();
        e.level        = (&fn == static_cast<const function_t*>(g_top)) ? 0 : 1;
        e.iter_ok      = a != 0;
        e.conv         = b != 0;
        e.status       = static_cast<int>(st->status());
        e.fcalls       = st->fcalls();
        e.gcalls       = st->gcalls();
        e.ffc          = fn.fcalls();
        e.fgc          = fn.gcalls();
        e.fx           = st->fx();
        e.x            = tos(st->x());
        e.gx           = tos(st->gx());
        e.fin          = allfin(st->x()) && allfin(st->gx()) && allfin(st->ceq()) && allfin(st->cineq());
        e.actual_total = g_top ? g_top->m_actual_f + g_top->m_actual_g : 0;
        if (e.level == 1) g_max_inner_evals = std::max(g_max_inner_evals, e.ffc + e.fgc);
        g_events.push_back(std::move(e));
    }
    else if (!g_events.empty())
    {
        auto& e   = g_events.back();
        e.closed  = true;
        e.ret     = a != 0;
        e.status2 = static_cast<int>(st->status());
        e.fcalls2 = st->fcalls();
        e.gcalls2 = st->gcalls();
        e.same    = same_bits(e.fx, st->fx()) && same_bits(e.x, st->x()) && same_bits(e.gx, st->gx());
    }
}
void on_values(const int kind, const void*, const double* values, const int count)
{
    if (kind != verif::ev_al_outer || count < 7) return;
    al_rec_t r;
    r.at = g_events.size();
    std::copy(values, values + 7, r.v);
    g_al.push_back(r);
}

struct solver_desc_t
{
    std::string id, kind, type;
};

std::vector<solver_desc_t> all_solvers()
{
    std::vector<solver_desc_t> out;
    for (const auto& id : solver_t::all().ids())
    {
        const auto s = solver_t::all().get(id);
        std::string kind, type;
        if (s->type() == solver_type::line_search) { type = "ls"; kind = (id == "gd") ? "gd" : "ls"; }
        else
        {
            type = "nm";
            const bool loose = id == "rqb" || id == "fpba1" || id == "fpba2" || id == "gs" || id == "ags" || id == "gs-lbfgs" || id == "ags-lbfgs";
            kind             = loose ? "loose" : "tight";
        }
        out.push_back({id, kind, type});
    }
    return out;
}

rsolver_t make_solver_by_id(const std::string& id)
{
    if (id == "linear-penalty") return std::make_unique<solver_linear_penalty_t>();
    if (id == "quadratic-penalty") return std::make_unique<solver_quadratic_penalty_t>();
    if (id == "augmented-lagrangian") return std::make_unique<solver_augmented_lagrangian_t>();
    return solver_t::all().get(id);
}

struct run_cfg_t
{
    bool keep_defaults{false};
    long        id{0};
    std::string solver, kind, type, fname;
    double      eps{1e-8};
    long        maxev{1000};
    std::string ls0, lsk;
    double      c1{1e-4}, c2{0.9};
    double      radius{1.0};
    bool        quad{false};
    const quad_function_t* q{nullptr};
};

long g_fails = 0;
bool g_c02_clauses = true; // mode c01 applies only C01's clauses (truthful `converged`, quadratic class)
void fail(const long id, const std::string& what)
{
    if (!g_c02_clauses && what.compare(0, 9, "converged") != 0 && what.compare(0, 9, "quadratic") != 0) return;
    ++g_fails;
    std::printf("FAIL %ld %s\n", id, what.c_str());
}

// runs one solver on one function from x0, prints the trace and applies the property's oracle
void run_one(const run_cfg_t& cfg, solver_t& solver, const function_t& inner, const vector_t& x0, const bool print)
{
    const auto n = inner.size();
    auto       wrapped = counting_function_t{inner};
    // the starting value, measured independently
    vector_t   g0(n);
    const auto f0 = inner.vgrad(x0, g0);
    if (!std::isfinite(f0)) return; // outside the property's domain ("starting point with a finite value")
    const auto g0max = maxabs(tos(g0));

    g_events.clear();
    g_al.clear();
    g_top             = &wrapped;
    g_max_inner_evals = 0;
    const auto state  = solver.minimize(wrapped, x0, make_null_logger());
    g_top             = nullptr;

    const bool ls   = cfg.type == "ls";
    const bool cons = cfg.type == "c";
    if (print)
    {
        std::printf("RUN %ld solver=%s kind=%s type=%s func=%s n=%ld eps=%s maxev=%ld ls0=%s lsk=%s c1=%s c2=%s radius=%s smooth=%d convex=%d\n",
                    cfg.id, cfg.solver.c_str(), cfg.kind.c_str(), cfg.type.c_str(), cfg.fname.c_str(), static_cast<long>(n),
                    vh::hexf(cfg.eps).c_str(), cfg.maxev, cfg.ls0.c_str(), cfg.lsk.c_str(), vh::hexf(cfg.c1).c_str(),
                    vh::hexf(cfg.c2).c_str(), vh::hexf(cfg.radius).c_str(), inner.smooth() ? 1 : 0, inner.convex() ? 1 : 0);
        std::printf("X0 %ld %s\n", cfg.id, hv(x0).c_str());
        // the last two level-0 events carry x; line-search events always carry gx
        std::vector<size_t> lvl0;
        for (size_t i = 0; i < g_events.size(); ++i)
            if (g_events[i].level == 0) lvl0.push_back(i);
        size_t ial = 0;
        for (size_t i = 0; i < g_events.size(); ++i)
        {
            for (; ial < g_al.size() && g_al[ial].at <= i; ++ial)
            {
                const auto* v = g_al[ial].v;
                std::printf("AL %ld %s %s %s %s %d %d %d\n", cfg.id, vh::hexf(v[0]).c_str(), vh::hexf(v[1]).c_str(), vh::hexf(v[2]).c_str(),
                            vh::hexf(v[3]).c_str(), static_cast<int>(v[4]), static_cast<int>(v[5]), static_cast<int>(v[6]));
            }
            const auto& e     = g_events[i];
            const bool  tail  = e.level == 0 && lvl0.size() >= 1 && (i == lvl0.back() || (lvl0.size() >= 2 && i == lvl0[lvl0.size() - 2]));
            const bool  withg = e.level == 0 && (ls || tail);
            std::printf("EV %ld %d %d %d %d %d %ld %ld %ld %ld %d %ld %ld %d %d %s | %s | %s\n", cfg.id, e.level, e.iter_ok ? 1 : 0,
                        e.conv ? 1 : 0, e.ret ? 1 : 0, e.status, e.fcalls, e.gcalls, e.ffc, e.fgc, e.status2, e.fcalls2, e.gcalls2,
                        (e.same && e.closed) ? 1 : 0, e.fin ? 1 : 0, vh::hexf(e.fx).c_str(), tail ? hv(e.x).c_str() : "-",
                        withg ? hv(e.gx).c_str() : "-");
        }
        std::printf("RET %ld %d %ld %ld %d %s | %s | %s\n", cfg.id, static_cast<int>(state.status()), static_cast<long>(state.fcalls()),
                    static_cast<long>(state.gcalls()), state.valid() ? 1 : 0, vh::hexf(state.fx()).c_str(), hv(state.x()).c_str(),
                    hv(state.gx()).c_str());
    }

    // ---- the property's own oracle (independent of the model) ------------------------------------------
    const auto st     = static_cast<int>(state.status());
    const long actual = wrapped.m_actual_f + wrapped.m_actual_g;
    char       buf[512];
    if (state.x().size() != n) fail(cfg.id, "dimension");
    if (st < 0 || st > 2) fail(cfg.id, "status-not-in-{max_iters,converged,failed} status=" + std::to_string(st));
    // (x, fx) is one of the evaluated pairs, bit for bit; gx too for line-search solvers
    const eval_rec_t* hit  = nullptr;
    const eval_rec_t* hitg = nullptr;
    for (auto it = wrapped.m_log.rbegin(); it != wrapped.m_log.rend(); ++it)
    {
        if (same_bits(it->x, state.x()) && same_bits(it->f, state.fx()))
        {
            if (!hit) hit = &*it;
            if (it->withg && same_bits(it->g, state.gx())) { hitg = &*it; break; }
        }
    }
    vector_t   gre(n);
    const auto fre  = inner.vgrad(state.x(), gre);
    const bool bad  = st == 2; // failed
    if (state.x().size() == n && !hit && !(bad && !state.valid()))
    {
        std::snprintf(buf, sizeof(buf), "value-not-evaluated-at-returned-point fx=%s recomputed=%s", vh::hexf(state.fx()).c_str(), vh::hexf(fre).c_str());
        fail(cfg.id, buf);
    }
    if (std::isfinite(fre) && std::isfinite(state.fx()) && std::fabs(fre - state.fx()) > 1e-9 * (1.0 + std::fabs(fre)))
    {
        std::snprintf(buf, sizeof(buf), "value-differs-from-recomputed fx=%s recomputed=%s", vh::hexf(state.fx()).c_str(), vh::hexf(fre).c_str());
        fail(cfg.id, buf);
    }
    if (ls && hit && !hitg && !(bad && !state.valid()))
    {
        fail(cfg.id, "gradient-not-evaluated-at-returned-point gx=" + hv(state.gx()) + " recomputed=" + hv(gre));
    }
    if (ls && state.valid() && allfin(gre))
    {
        double d = 0, m = 0;
        for (tensor_size_t i = 0; i < n; ++i) { d = std::max(d, std::fabs(gre(i) - state.gx()(i))); m = std::max(m, std::fabs(gre(i))); }
        if (d > 1e-9 * (1.0 + m)) fail(cfg.id, "gradient-differs-from-recomputed gx=" + hv(state.gx()) + " recomputed=" + hv(gre));
    }
    if (state.fcalls() > wrapped.m_actual_f || state.gcalls() > wrapped.m_actual_g)
    {
        std::snprintf(buf, sizeof(buf), "reported-calls-exceed-actual fcalls=%ld actual_f=%ld gcalls=%ld actual_g=%ld", static_cast<long>(state.fcalls()),
                      wrapped.m_actual_f, static_cast<long>(state.gcalls()), wrapped.m_actual_g);
        fail(cfg.id, buf);
    }
    if (!bad && !(std::isfinite(state.fx()) && allfin(state.x())))
    {
        fail(cfg.id, "non-finite-result-without-failed-status status=" + std::to_string(st) + " fx=" + vh::hexf(state.fx()));
    }
    // repo commit 85997bc: `converged` is only reported by a done(state, iter_ok = true, converged = true) call -- a failed
    // iteration (e.g. a failed line search ending on a point that happens to pass the stopping criterion) is `failed`
    if (st == 1)
    {
        const ev_rec_t* last = nullptr;
        for (const auto& e : g_events)
            if (e.level == 0 && e.closed && e.ret) last = &e;
        if (!last || !last->iter_ok || !last->conv)
        {
            fail(cfg.id, std::string("converged-after-failed-iteration last_done=") + (last ? (std::string("iter_ok:") + (last->iter_ok ? "1" : "0") + ",conv:" + (last->conv ? "1" : "0")) : "none"));
        }
    }
    // not worse than the start, in the solver's documented class
    const bool in_class = ls ? inner.smooth() : (cfg.solver == "rqb" ? inner.convex() : true);
    // (a non-finite result is reported by the clause above, not a second time here)
    if (!bad && !cons && in_class && std::fabs(f0) < 1e8 && g0max < 1e8 && std::isfinite(g0max) && std::isfinite(state.fx()) &&
        !(state.fx() <= f0 + 5e-4 * (1.0 + std::fabs(f0))))
    {
        std::snprintf(buf, sizeof(buf), "worse-than-start fx=%s f0=%s", vh::hexf(state.fx()).c_str(), vh::hexf(f0).c_str());
        fail(cfg.id, buf);
    }
    // budget: at most one outer iteration's worth beyond max_evals (per inner solve for the constrained solvers)
    const long bound = cfg.maxev + 1100 + 8 * static_cast<long>(n);
    if (!cons && actual > bound)
    {
        std::snprintf(buf, sizeof(buf), "budget-overshoot actual=%ld max_evals=%ld bound=%ld", actual, cfg.maxev, bound);
        fail(cfg.id, buf);
    }
    if (cons && g_max_inner_evals > bound)
    {
        std::snprintf(buf, sizeof(buf), "budget-overshoot-inner-solve evals=%ld max_evals=%ld bound=%ld", g_max_inner_evals, cfg.maxev, bound);
        fail(cfg.id, buf);
    }
    // C01 truthfulness: converged => recomputed criterion below epsilon (exact on the recorded evaluation,
    // a few ulps of slack on the fresh one: the two may differ in the last bits for vectorised functions)
    double gt_log = -1, gt_fresh = -1;
    if (ls && st == 1)
    {
        gt_fresh = maxabs(tos(gre)) / std::max(1.0, std::fabs(fre));
        if (hitg) gt_log = maxabs(hitg->g) / std::max(1.0, std::fabs(hitg->f));
        if (hitg && !(gt_log < cfg.eps))
        {
            std::snprintf(buf, sizeof(buf), "converged-but-gradient-test-not-below-epsilon gtest=%s eps=%s", vh::hexf(gt_log).c_str(), vh::hexf(cfg.eps).c_str());
            fail(cfg.id, buf);
        }
        if (!(gt_fresh < cfg.eps * (1.0 + 1e-6) + 1e-300))
        {
            std::snprintf(buf, sizeof(buf), "converged-but-recomputed-gradient-test-not-below-epsilon gtest=%s eps=%s", vh::hexf(gt_fresh).c_str(),
                          vh::hexf(cfg.eps).c_str());
            fail(cfg.id, buf);
        }
    }
    double err = -1, errbound = -1;
    if (cfg.quad && cfg.q)
    {
        // C01: converged within 1500 evaluations, error bound sqrt(n) eps max(1,|f|) / lambda_min
        double e2 = 0, xs = 0;
        for (tensor_size_t i = 0; i < n; ++i) { const auto d = state.x()(i) - cfg.q->m_xstar(i); e2 += d * d; xs = std::max(xs, std::fabs(cfg.q->m_xstar(i))); }
        err      = std::sqrt(e2);
        errbound = std::sqrt(static_cast<double>(n)) * cfg.eps * std::max(1.0, std::fabs(state.fx())) / cfg.q->m_lmin;
        if (st != 1) fail(cfg.id, "quadratic-not-converged status=" + std::to_string(st) + " evals=" + std::to_string(actual));
        if (actual > 1500) fail(cfg.id, "quadratic-more-than-1500-evaluations evals=" + std::to_string(actual));
        // rounding of the reference minimiser itself: kappa * 2^-52 * |x*| * n
        const double slack = 4.0 * static_cast<double>(n) * (cfg.q->m_lmax / cfg.q->m_lmin) * 0x1p-52 * (1.0 + xs);
        if (st == 1 && !(err <= errbound * (1.0 + 1e-6) + slack))
        {
            std::snprintf(buf, sizeof(buf), "quadratic-error-bound err=%s bound=%s lmin=%s", vh::hexf(err).c_str(), vh::hexf(errbound).c_str(), vh::hexf(cfg.q->m_lmin).c_str());
            fail(cfg.id, buf);
        }
    }
    if (print)
    {
        std::printf("ORA %ld actual_f=%ld actual_g=%ld f0=%s g0=%s inlog=%d inlogg=%d frecomp=%s gt_log=%s gt_fresh=%s inner_max=%ld err=%s errbound=%s events=%zu\n",
                    cfg.id, wrapped.m_actual_f, wrapped.m_actual_g, vh::hexf(f0).c_str(), vh::hexf(g0max).c_str(), hit ? 1 : 0, hitg ? 1 : 0,
                    vh::hexf(fre).c_str(), vh::hexf(gt_log).c_str(), vh::hexf(gt_fresh).c_str(), g_max_inner_evals, vh::hexf(err).c_str(),
                    vh::hexf(errbound).c_str(), g_events.size());
        std::printf("END %ld\n", cfg.id);
    }
}

double log_uniform(vh::rng_t& r, const double lo, const double hi)
{
    return std::exp(std::log(lo) + (std::log(hi) - std::log(lo)) * r.unit());
}

vector_t make_x0(vh::rng_t& r, const tensor_size_t n, const double radius)
{
    vector_t x(n);
    for (tensor_size_t i = 0; i < n; ++i) x(i) = (r.unit() * 2.0 - 1.0) * radius;
    if (r.range(0, 3) == 0) x(r.range(0, n - 1)) = r.range(0, 1) ? radius : -radius;
    return x;
}

void configure(vh::rng_t& r, solver_t& solver, run_cfg_t& cfg, const bool ls)
{
    solver.parameter("solver::epsilon")   = cfg.eps;
    solver.parameter("solver::max_evals") = cfg.maxev;
    if (ls)
    {
        static const char* l0[] = {"cgdescent", "constant", "linear", "quadratic"};
        static const char* lk[] = {"backtrack", "cgdescent", "fletcher", "lemarechal", "morethuente"};
        if (r.range(0, 3) != 0)
        {
            cfg.ls0 = l0[r.range(0, 3)];
            cfg.lsk = lk[r.range(0, 4)];
            solver.lsearch0(cfg.ls0);
            solver.lsearchk(cfg.lsk);
            cfg.c1 = log_uniform(r, 1e-5, 0.4);
            cfg.c2 = cfg.c1 + 0.05 + (0.94 - cfg.c1) * r.unit();
            if (cfg.c2 >= 0.999) cfg.c2 = 0.99;
            solver.parameter("solver::tolerance") = std::make_tuple(cfg.c1, cfg.c2);
        }
        else
        {
            cfg.ls0 = solver.lsearch0().type_id();
            cfg.lsk = solver.lsearchk().type_id();
        }
    }
    // solver-specific parameters from their domains: patience of the value test, L-BFGS history
    for (const auto& p : solver.parameters())
    {
        if (cfg.keep_defaults) break; // targeted family T1: the solver-specific parameters stay at their defaults
        const auto& name = p.name();
        if (name.size() > 10 && name.compare(name.size() - 10, 10, "::patience") == 0 && r.range(0, 1) == 0)
        {
            solver.parameter(name) = static_cast<int64_t>(r.range(10, 80));
        }
        if (name == "solver::lbfgs::history" && r.range(0, 1) == 0) solver.parameter(name) = static_cast<int64_t>(r.range(1, 30));
    }
}

const tensor_size_t kDims[] = {1, 2, 3, 4, 5, 8, 16, 32};

// targeted family T3 (repo commit 85997bc): a line search that FAILS on a point passing the stopping criterion -- stiff convex
// quadratic (curvature 1e2..1e3: the unit first step overshoots to a value ~1e6 times the start, where |g| / max(1, |f|) ~ 2 / distance
// is below a loose epsilon), lsearchk with max_iterations 1..3 (lemarechal / fletcher give up at once). The run must end `failed`.
void run_t3(vh::rng_t& r, const long id, const solver_desc_t& sd, long& runs)
{
    run_cfg_t cfg;
    cfg.id     = id;
    cfg.solver = sd.id;
    cfg.kind   = sd.kind;
    cfg.type   = sd.type;
    cfg.eps    = r.range(0, 1) ? 0.1 : log_uniform(r, 1e-2, 1e-1);
    cfg.maxev  = r.range(20, 200);
    cfg.radius = log_uniform(r, 0.1, 5.0);
    const auto n = kDims[r.range(0, 4)];
    auto       q = quad_function_t{r, static_cast<int>(n), log_uniform(r, 1, 30), log_uniform(r, 1e2, 1e3), true};
    static const char* lk[] = {"lemarechal", "fletcher", "backtrack", "morethuente"};
    static const char* l0[] = {"constant", "linear", "quadratic"};
    cfg.lsk     = lk[r.range(0, 3)];
    cfg.ls0     = l0[r.range(0, 2)];
    cfg.c1      = 1e-4;
    cfg.c2      = r.range(0, 1) ? 0.1 : 0.9;
    cfg.fname   = "vquad/T3";
    auto solver = make_solver_by_id(sd.id);
    solver->parameter("solver::epsilon")   = cfg.eps;
    solver->parameter("solver::max_evals") = cfg.maxev;
    solver->parameter("solver::tolerance") = std::make_tuple(cfg.c1, cfg.c2);
    solver->lsearch0(cfg.ls0);
    auto lsk = lsearchk_t::all().get(cfg.lsk);
    lsk->parameter("lsearchk::max_iterations") = static_cast<int64_t>(r.range(1, 3));
    solver->lsearchk(*lsk);
    const auto x0 = make_x0(r, n, cfg.radius);
    run_one(cfg, *solver, q, x0, true);
    ++runs;
}

} // namespace

int main(int argc, char** argv)
{
    std::setvbuf(stdout, nullptr, _IOLBF, 0);
    const std::string tier = argc > 1 ? argv[1] : "quick";
    const std::string mode = argc > 2 ? argv[2] : "c02";
    const long        only = argc > 3 ? std::atol(argv[3]) : -1;
    const bool        thorough = tier == "thorough";
    const auto        seed = vh::env_seed();
    vh::rng_t         rng(seed ^ (mode == "c01" ? 0xC01C01ULL : 0xC02C02ULL));

    g_c02_clauses = mode != "c01";
    verif::g_event_hook.store(&on_event);
    verif::g_values_hook.store(&on_values);
    verif::g_rng_seed.store(seed | 1U);

    long seq_ops = 0;
    if (mode == "c02" && only < 0)
    {
        vh::rng_t srng(seed * 31 + 7);
        seq_ops = run_sequences(srng, thorough ? 20000 : 1500);
    }

    const auto solvers = all_solvers();
    const auto fids    = function_t::all().ids();
    long       runs    = 0;
    long       id      = 0;

    if (mode == "c02")
    {
        const long per_solver = thorough ? 200 : 12;
        for (const auto& sd : solvers)
        {
            for (long k = 0; k < per_solver; ++k, ++id)
            {
                vh::rng_t r(seed * 1000003ULL + static_cast<uint64_t>(id) * 7919ULL + 11);
                if (only >= 0 && id != only) continue;
                run_cfg_t cfg;
                cfg.id     = id;
                cfg.solver = sd.id;
                cfg.kind   = sd.kind;
                cfg.type   = sd.type;
                cfg.eps    = log_uniform(r, 1e-10, 1e-2);
                cfg.maxev  = r.range(0, 3) == 0 ? r.range(10, 60) : static_cast<long>(log_uniform(r, 10, 5000));
                const bool gs = sd.id == "gs" || sd.id == "ags" || sd.id == "gs-lbfgs" || sd.id == "ags-lbfgs";
                cfg.radius = log_uniform(r, 1e-3, 10.0);
                auto n     = kDims[r.range(0, 7)];
                if ((gs || sd.id == "ellipsoid") && n > 8) n = kDims[r.range(0, 5)];
                if (gs) cfg.maxev = std::min<long>(cfg.maxev, 600);
                rfunction_t                      fn;
                std::unique_ptr<quad_function_t> q;
                const auto                       pickf = r.range(0, 9);
                if (pickf == 0) { fn = std::make_unique<quad_function_t>(r, static_cast<int>(n), log_uniform(r, 1, 1e3), log_uniform(r, 1e-3, 1e3), true); }
                else if (pickf == 1) { fn = std::make_unique<pwl_function_t>(r, static_cast<int>(n), static_cast<int>(r.range(2, 12))); }
                else { fn = function_t::all().get(fids[static_cast<size_t>(r.range(0, static_cast<int64_t>(fids.size()) - 1))])->make(n, r.range(10, 40)); }
                if (!fn) continue;
                cfg.fname   = fn->name();
                auto solver = make_solver_by_id(sd.id);
                configure(r, *solver, cfg, sd.type == "ls");
                const auto x0 = make_x0(r, fn->size(), cfg.radius);
                // targeted case (repo commit 3c2475d): gd -- the one line-search solver that returns its state without the
                // validity test -- on a function that is +inf (finite gradient) outside a box around the start
                const bool target_gd = sd.id == "gd" && k % 2 == 0;
                if (target_gd || r.range(0, 6) == 0)
                {
                    // bounded domain around the start: radius between "one step" and "a few steps"
                    auto rf   = std::make_unique<region_function_t>(std::move(fn), x0, log_uniform(r, 1e-3, 3.0) * (1.0 + cfg.radius),
                                                                    target_gd ? (r.range(0, 1) ? 1 : 3) : static_cast<int>(r.range(0, 3)));
                    cfg.fname = rf->rname();
                    fn        = std::move(rf);
                }
                run_one(cfg, *solver, *fn, x0, true);
                ++runs;
            }
        }
        // ---- targeted families (conditions that random configurations meet in < 1 % of the runs) ------------------------
        // T1 "stalled": a precision the solver cannot reach (epsilon 1e-10 .. 1e-12) with a generous budget on badly scaled /
        //    overflowing smooth functions: the run ends through its budget tests, possibly inside an inner loop (curve search,
        //    backtracking) -- the budget clause `evaluations <= max_evals + 1100 + 8 n` is what is at stake;
        // T2 "tiny budget": max_evals 12..80 on non-convex smooth functions: the run stops in the middle of whatever the solver
        //    was doing (momentum overshoot, extrapolation) -- `not worse than the start` and honesty are what is at stake.
        {
            static const char* t1f[] = {"trid", "dixon-price", "exponential", "rosenbrock", "exponential", "sphere", "powell"};
            static const char* t2f[] = {"styblinski-tang", "qing", "rosenbrock", "dixon-price", "trid", "powell"};
            const long per_t1 = thorough ? 60 : 10;
            const long per_t2 = thorough ? 150 : 24;
            for (const auto& sd : solvers)
            {
                const bool gs = sd.id == "gs" || sd.id == "ags" || sd.id == "gs-lbfgs" || sd.id == "ags-lbfgs";
                for (long k = 0; k < per_t1 + per_t2; ++k, ++id)
                {
                    vh::rng_t r(seed * 1000003ULL + static_cast<uint64_t>(id) * 7919ULL + 17);
                    if (only >= 0 && id != only) continue;
                    const bool t1 = k < per_t1;
                    if (t1 && (gs || sd.type == "ls")) continue; // T1 is about the non-line-search solvers' inner loops
                    run_cfg_t cfg;
                    cfg.id     = id;
                    cfg.solver = sd.id;
                    cfg.kind   = sd.kind;
                    cfg.type   = sd.type;
                    cfg.keep_defaults = t1 && k % 2 == 0;
                    cfg.eps    = t1 ? log_uniform(r, 1e-12, 1e-10) : log_uniform(r, 1e-10, 1e-4);
                    cfg.maxev  = t1 ? r.range(1200, 3000) : r.range(12, 80);
                    cfg.radius = t1 ? log_uniform(r, 1.0, r.range(0, 2) == 0 ? 300.0 : 10.0) : log_uniform(r, 0.5, 10.0);
                    auto n     = t1 ? kDims[r.range(1, 6)] : kDims[r.range(1, 5)];
                    if ((gs || sd.id == "ellipsoid") && n > 8) n = kDims[r.range(1, 5)];
                    const char* fname = t1 ? t1f[r.range(0, 6)] : t2f[r.range(0, 5)];
                    auto        proto = function_t::all().get(fname);
                    if (!proto) continue;
                    auto fn = proto->make(n, 10);
                    if (!fn) continue;
                    cfg.fname   = fn->name() + (t1 ? "/T1" : "/T2");
                    auto solver = make_solver_by_id(sd.id);
                    configure(r, *solver, cfg, sd.type == "ls");
                    const auto x0 = make_x0(r, fn->size(), cfg.radius);
                    run_one(cfg, *solver, *fn, x0, true);
                    ++runs;
                }
            }
        }
        for (const auto& sd : solvers)
        {
            if (sd.type != "ls") continue;
            for (long k = 0; k < (thorough ? 40 : 4); ++k, ++id)
            {
                vh::rng_t r(seed * 1000003ULL + static_cast<uint64_t>(id) * 7919ULL + 23);
                if (only >= 0 && id != only) continue;
                run_t3(r, id, sd, runs);
            }
        }
        // the three constrained solvers on box / linear-equality constrained smooth convex functions
        static const char* cs[] = {"linear-penalty", "quadratic-penalty", "augmented-lagrangian"};
        const long         per_c = thorough ? 150 : 10;
        for (const auto* sid : cs)
        {
            for (long k = 0; k < per_c; ++k, ++id)
            {
                vh::rng_t r(seed * 1000003ULL + static_cast<uint64_t>(id) * 7919ULL + 13);
                if (only >= 0 && id != only) continue;
                run_cfg_t cfg;
                cfg.id     = id;
                cfg.solver = sid;
                cfg.kind   = "tight";
                cfg.type   = "c";
                cfg.eps    = log_uniform(r, 1e-8, 1e-3);
                cfg.maxev  = static_cast<long>(log_uniform(r, 50, 800));
                cfg.radius = log_uniform(r, 1e-2, 5.0);
                const auto  n  = kDims[r.range(0, 4)];
                rfunction_t fn;
                if (r.range(0, 1) == 0) fn = std::make_unique<quad_function_t>(r, static_cast<int>(n), log_uniform(r, 1, 1e2), log_uniform(r, 1e-1, 1e1), true);
                else fn = function_t::all().get(r.range(0, 1) ? "sphere" : "trid")->make(n, 10);
                if (!fn) continue;
                const auto lo = -1.0 - r.unit(), hi = 0.5 + r.unit();
                fn->constrain(lo, hi);
                if (r.range(0, 2) == 0)
                {
                    vector_t qv(n);
                    for (tensor_size_t i = 0; i < n; ++i) qv(i) = 1.0;
                    fn->constrain(constraint::linear_equality_t{qv, -0.25});
                }
                cfg.fname   = fn->name() + "+box";
                auto solver = make_solver_by_id(sid);
                configure(r, *solver, cfg, false);
                const auto x0 = make_x0(r, n, cfg.radius);
                run_one(cfg, *solver, *fn, x0, true);
                ++runs;
            }
        }
        // ---- targeted family T4 (repo commit 31bf93f): the budget runs out INSIDE the curve search of a proximal bundle solver -----
        // csearch_t::search keeps its result in a member; before the fix its status was not reset at entry, so a call that left
        // its loop through the budget guard (after a trial that did not classify) returned the status of the PREVIOUS call (e.g.
        // descent_step) together with the rejected trial point: rqb then moved to a point worse than the start (status max_iters).
        // Needs max_evals 10..20 (found: 5 of 56 550 random rqb runs, all with max_evals <= 16): every value of 10..20 is cycled,
        // rqb (1/2) / fpba1 / fpba2 on the registered convex functions and the generated convex ones, dims 1..8, x0 radius up to 3,
        // default (1/2) and random bundle / csearch / proximity parameters. Case 0 is the fixed corpus input of the finding.
        // Only every 16th run is printed (the traces of the others are printed when the direct oracle fails on them).
        {
            std::vector<std::string> cvx;
            for (const auto& fid : fids)
            {
                const auto f4 = function_t::all().get(fid)->make(4, 10);
                if (f4 && f4->convex()) cvx.push_back(fid);
            }
            static const char* t4s[] = {"rqb", "fpba1", "rqb", "fpba2"};
            const long         per_t4 = thorough ? 40000 : 3000;
            for (long k = 0; k < per_t4; ++k, ++id)
            {
                vh::rng_t r(seed * 1000003ULL + static_cast<uint64_t>(id) * 7919ULL + 29);
                if (only >= 0 && id != only) continue;
                run_cfg_t cfg;
                cfg.id     = id;
                cfg.solver = k == 0 ? "rqb" : t4s[k % 4];
                cfg.kind   = "loose";
                cfg.type   = "nm";
                cfg.eps    = r.range(0, 1) ? 1e-9 : log_uniform(r, 1e-10, 1e-4);
                cfg.maxev  = 10 + (k / 4) % 11;
                cfg.radius = r.range(0, 2) == 0 ? 3.0 : log_uniform(r, 0.3, 3.0);
                const auto  n = static_cast<tensor_size_t>(r.range(1, 8));
                rfunction_t fn;
                const auto  pickf = r.range(0, 5);
                if (k == 0) fn = function_t::all().get("zakharov")->make(4, 10);
                else if (pickf == 0) fn = std::make_unique<quad_function_t>(r, static_cast<int>(n), log_uniform(r, 1, 1e2), log_uniform(r, 1e-1, 1e1), true);
                else if (pickf == 1) fn = std::make_unique<pwl_function_t>(r, static_cast<int>(n), static_cast<int>(r.range(2, 12)));
                else if (!cvx.empty()) fn = function_t::all().get(cvx[static_cast<size_t>(r.range(0, static_cast<int64_t>(cvx.size()) - 1))])->make(n, r.range(10, 40));
                if (!fn || !fn->convex()) continue;
                cfg.fname   = fn->name() + "/T4";
                auto solver = make_solver_by_id(cfg.solver);
                auto x0     = make_x0(r, fn->size(), cfg.radius);
                if (k == 0)
                {
                    cfg.eps   = 1e-9;
                    cfg.maxev = 11;
                    x0(0) = -0x1.2946bad998674p+1; x0(1) = 0x1.5905d6abf772cp+0; x0(2) = 0x1.054625f210dp+1; x0(3) = -0x1.cf56d7281c8fp-1;
                }
                solver->parameter("solver::epsilon")   = cfg.eps;
                solver->parameter("solver::max_evals") = cfg.maxev;
                if (k % 2 == 1)
                {
                    const auto p  = std::string("solver::") + cfg.solver;
                    const auto m1 = 0.05 + 0.8 * r.unit();
                    // NB: not below 6 -- with max_size 3 (always) or 4 (sometimes) bundle_t::append writes one slot past its buffers
                    // (heap-buffer-overflow under ASan, notes/C02.md "bundle::max_size"; C03's area) -- kept out of this family
                    solver->parameter(p + "::bundle::max_size") = static_cast<int64_t>(r.range(6, 100));
                    solver->parameter(p + "::csearch::m3")       = log_uniform(r, 1e-2, 1e2);
                    solver->parameter(p + "::csearch::m4")       = log_uniform(r, 1e-2, 1e2);
                    solver->parameter(p + "::csearch::interpol") = 0.05 + 0.9 * r.unit();
                    solver->parameter(p + "::csearch::extrapol") = log_uniform(r, 1.1, 50.0);
                    solver->parameter(p + "::csearch::m1m2")     = std::make_tuple(m1, m1 + (0.99 - m1) * (0.05 + 0.9 * r.unit()));
                    if (r.range(0, 1))
                    {
                        const auto lo = log_uniform(r, 1e-2, 1e3);
                        solver->parameter(p + "::prox::miu0_range") = std::make_tuple(lo, lo * log_uniform(r, 1.5, 1e2));
                    }
                }
                const bool print  = only >= 0 || k % 16 == 0;
                const auto before = g_fails;
                run_one(cfg, *solver, *fn, x0, print);
                if (!print && g_fails != before)
                {
                    // print the trace of the failing run (deterministic: same solver object configuration, same function, same x0)
                    auto again = solver->clone();
                    const auto keep = g_fails;
                    run_one(cfg, *again, *fn, x0, true);
                    g_fails = keep;
                }
                ++runs;
            }
        }
    }
    else
    {
        // C01 (a): L-BFGS / BFGS on the quadratic class, epsilon = 1e-8
        // the last `nstiff` instances are a targeted sub-family of the class: stiff AND well conditioned (curvature scale
        // 1e2..1e3, kappa 2..30, n >= 8) -- where a quasi-Newton update whose scaling is only right for unit curvature degrades
        const long nstiff = thorough ? 1500 : 240;
        const long nq     = (thorough ? 3000 : 160) + nstiff;
        for (long k = 0; k < nq; ++k, ++id)
        {
            vh::rng_t r(seed * 1000003ULL + static_cast<uint64_t>(id) * 7919ULL + 17);
            if (only >= 0 && id != only) continue;
            const bool   stiff = k >= nq - nstiff;
            const int    n     = stiff ? static_cast<int>(r.range(8, 16)) : static_cast<int>(r.range(1, 16));
            // boundary cases of the class: kappa in {1, 1e3}, scale in {1e-3, 1e3}
            const double kappa = stiff ? log_uniform(r, 2, 30) : ((k % 7 == 0) ? 1e3 : ((k % 7 == 1) ? 1.0 : log_uniform(r, 1, 1e3)));
            const double s     = stiff ? log_uniform(r, 1e2, 1e3) : ((k % 5 == 0) ? 1e3 : ((k % 5 == 1) ? 1e-3 : log_uniform(r, 1e-3, 1e3)));
            auto         q     = quad_function_t{r, n, kappa, s, true};
            run_cfg_t    cfg;
            cfg.id     = id;
            cfg.solver = (k % 2 == 0) ? "lbfgs" : "bfgs";
            cfg.kind   = "ls";
            cfg.type   = "ls";
            cfg.eps    = 1e-8;
            cfg.maxev  = 5000;
            cfg.radius = (k % 3 == 0) ? 10.0 : log_uniform(r, 1e-3, 10.0);
            cfg.quad   = true;
            cfg.q      = &q;
            cfg.fname  = "vquad[k=" + vh::hexf(kappa) + ",s=" + vh::hexf(s) + "]";
            auto solver = make_solver_by_id(cfg.solver);
            solver->parameter("solver::epsilon")   = cfg.eps;
            solver->parameter("solver::max_evals") = cfg.maxev;
            cfg.ls0 = solver->lsearch0().type_id();
            cfg.lsk = solver->lsearchk().type_id();
            const auto x0 = make_x0(r, n, cfg.radius);
            run_one(cfg, *solver, q, x0, true);
            ++runs;
        }
        // C01 (b): truthfulness of `converged` for every line-search solver x lsearch0 x lsearchk x tolerances x epsilon
        const long per_solver = thorough ? 400 : 22;
        for (const auto& sd : solvers)
        {
            if (sd.type != "ls") continue;
            for (long k = 0; k < per_solver; ++k, ++id)
            {
                vh::rng_t r(seed * 1000003ULL + static_cast<uint64_t>(id) * 7919ULL + 19);
                if (only >= 0 && id != only) continue;
                run_cfg_t cfg;
                cfg.id     = id;
                cfg.solver = sd.id;
                cfg.kind   = sd.kind;
                cfg.type   = sd.type;
                cfg.eps    = log_uniform(r, 1e-12, 1e-2);
                cfg.maxev  = static_cast<long>(log_uniform(r, 10, 5000));
                cfg.radius = log_uniform(r, 1e-3, 10.0);
                const auto  n = kDims[r.range(0, 7)];
                rfunction_t fn;
                for (int t = 0; t < 20 && !(fn && fn->smooth()); ++t)
                {
                    if (r.range(0, 7) == 0) fn = std::make_unique<quad_function_t>(r, static_cast<int>(n), log_uniform(r, 1, 1e3), log_uniform(r, 1e-3, 1e3), false);
                    else fn = function_t::all().get(fids[static_cast<size_t>(r.range(0, static_cast<int64_t>(fids.size()) - 1))])->make(n, r.range(10, 40));
                }
                if (!fn || !fn->smooth()) continue;
                cfg.fname   = fn->name();
                auto solver = make_solver_by_id(sd.id);
                configure(r, *solver, cfg, true);
                const auto x0 = make_x0(r, fn->size(), cfg.radius);
                if (r.range(0, 7) == 0)
                {
                    auto rf   = std::make_unique<region_function_t>(std::move(fn), x0, log_uniform(r, 1e-3, 3.0) * (1.0 + cfg.radius), static_cast<int>(r.range(0, 3)));
                    cfg.fname = rf->rname();
                    fn        = std::move(rf);
                }
                run_one(cfg, *solver, *fn, x0, true);
                ++runs;
            }
        }
        // C01 (c): targeted family T3 -- `converged` is never reported after a failed line search (repo commit 85997bc)
        for (const auto& sd : solvers)
        {
            if (sd.type != "ls") continue;
            for (long k = 0; k < (thorough ? 40 : 4); ++k, ++id)
            {
                vh::rng_t r(seed * 1000003ULL + static_cast<uint64_t>(id) * 7919ULL + 23);
                if (only >= 0 && id != only) continue;
                run_t3(r, id, sd, runs);
            }
        }
    }
    std::printf("DONE mode=%s runs=%ld seq_ops=%ld fails=%ld solvers=%zu functions=%zu\n", mode.c_str(), runs, seq_ops, g_fails, solvers.size(),
                fids.size());
    return 0;
}
