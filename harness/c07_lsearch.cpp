// C07 harness: runs the real line-searches (lsearchk_t::get of backtrack / lemarechal / fletcher / morethuente /
// cgdescent) on registered smooth functions, random convex quadratics and adversarial 1-D objectives, with the
// objective wrapped in a recording function_t. Prints one line per run for the extracted model (which must replay
// the run bit for bit) and applies the property's own oracle -- recomputed from the *user function*, independent of
// the model and of solver_state_t's predicates -- to every result (FAIL lines).
//
//   c07_lsearch <quick|thorough> [case-index]        (every case derives from VERIF_SEED and its index)
//
// line formats (doubles as C99 hex floats; J = the coordinates of x that are printed, at most 4):
//   CONST eps0 eps1 stpmin stpmax
//   INTERP kind | ut uf ug vt vf vg = value                      kind: 0 bisection(interpolate) 1 quadratic(interpolate)
//                                                                2 cubic(interpolate) 3 cubic 4 quadratic 5 secant 6 bisection
//   LS id fname | alg maxit interp c1 c2 safeguard tau1 tau2 tau3 delta cg_eps cg_theta cg_gamma cg_ro | v0 f0 dg0 t0 |
//      nJ x0_J.. d_J.. | v,f,dg,x_J..;v,f,dg,x_J..;... = ok t
//   FAIL id fname kind=<which clause> ...
//   DONE cases=.. ok=.. ...
#include "common.h"
#include <functional>
#include <map>
#include <nano/function.h>
#include <nano/logger.h>
#include <nano/lsearchk.h>
#include <nano/solver/lstep.h>

using namespace nano;

namespace
{
struct rec_t
{
    vector_t x;
    scalar_t f{0};
    vector_t g;
};

vector_t copy_of(const vector_cmap_t& v)
{
    vector_t r(v.size());
    r.vector() = v.vector();
    return r;
}

// records every evaluation requested through the function_t interface
class recorder_t final : public function_t
{
public:
    explicit recorder_t(const function_t& inner)
        : function_t("recorder", inner.size())
        , m_inner(&inner)
    {
        smooth(smoothness::yes);
        convex(inner.convex() ? convexity::yes : convexity::no);
    }

    rfunction_t clone() const override { return std::make_unique<recorder_t>(*this); }

    scalar_t do_vgrad(vector_cmap_t x, vector_map_t gx) const override
    {
        const auto f = m_inner->vgrad(x, gx);
        rec_t      r;
        r.x = copy_of(x);
        r.f = f;
        if (gx.size() == x.size())
        {
            r.g = copy_of(gx);
        }
        m_log.push_back(std::move(r));
        return f;
    }

    const function_t*          m_inner;
    mutable std::vector<rec_t> m_log;
};

// 1-D objective given by a closure x -> (f, f')
class fun1d_t final : public function_t
{
public:
    using op_t = std::function<std::pair<double, double>(double)>;

    fun1d_t(string_t name, op_t op, const bool is_convex)
        : function_t(std::move(name), 1)
        , m_op(std::move(op))
    {
        smooth(smoothness::yes);
        convex(is_convex ? convexity::yes : convexity::no);
    }

    rfunction_t clone() const override { return std::make_unique<fun1d_t>(*this); }

    scalar_t do_vgrad(vector_cmap_t x, vector_map_t gx) const override
    {
        const auto [f, g] = m_op(x(0));
        if (gx.size() == 1)
        {
            gx(0) = g;
        }
        return f;
    }

    op_t m_op;
};

// random convex quadratic f(x) = 0.5 x'Ax + b'x, A = lambda I + B B'
class quad_t final : public function_t
{
public:
    quad_t(const tensor_size_t dims, vh::rng_t& rng)
        : function_t("rquad", dims)
        , m_A(dims, dims)
        , m_b(dims)
    {
        smooth(smoothness::yes);
        convex(convexity::yes);
        Eigen::MatrixXd B(dims, dims);
        const auto      spread = std::pow(10.0, 3.0 * rng.unit()); // conditioning
        for (tensor_size_t i = 0; i < dims; ++i)
        {
            m_b(i) = (2.0 * rng.unit() - 1.0) * 10.0;
            for (tensor_size_t j = 0; j < dims; ++j)
            {
                B(i, j) = (2.0 * rng.unit() - 1.0) * std::pow(spread, static_cast<double>(j) / static_cast<double>(dims));
            }
        }
        const auto lambda = std::pow(10.0, -3.0 + 4.0 * rng.unit());
        m_A               = lambda * Eigen::MatrixXd::Identity(dims, dims) + B * B.transpose();
    }

    rfunction_t clone() const override { return std::make_unique<quad_t>(*this); }

    scalar_t do_vgrad(vector_cmap_t x, vector_map_t gx) const override
    {
        const Eigen::VectorXd Ax = m_A * x.vector();
        if (gx.size() == x.size())
        {
            gx.vector() = Ax + m_b;
        }
        return x.vector().dot(0.5 * Ax + m_b);
    }

    Eigen::MatrixXd m_A;
    Eigen::VectorXd m_b;
};

bool same(const double a, const double b)
{
    return (std::isnan(a) && std::isnan(b)) || (std::memcmp(&a, &b, sizeof(a)) == 0);
}

bool same(const vector_t& a, const vector_t& b)
{
    if (a.size() != b.size()) { return false; }
    for (tensor_size_t i = 0; i < a.size(); ++i)
    {
        if (!same(a(i), b(i))) { return false; }
    }
    return true;
}

bool all_finite(const vector_t& v)
{
    for (tensor_size_t i = 0; i < v.size(); ++i)
    {
        if (!std::isfinite(v(i))) { return false; }
    }
    return true;
}

double logu(vh::rng_t& rng, const double lo, const double hi)
{
    return std::exp(std::log(lo) + (std::log(hi) - std::log(lo)) * rng.unit());
}

double sym(vh::rng_t& rng)
{
    return 2.0 * rng.unit() - 1.0;
}

uint64_t mix(uint64_t a, uint64_t b)
{
    vh::rng_t r(a * 0x9E3779B97F4A7C15ULL + b + 0xC07C07ULL);
    r.next();
    return r.next();
}

const char* const ALGS[] = {"backtrack", "lemarechal", "fletcher", "morethuente", "cgdescent"};

struct cfg_t
{
    int    alg{0};
    int    maxit{128};
    int    interp{2};
    double c1{1e-4}, c2{0.1};
    double safeguard{0.1}, tau1{9.0}, tau2{0.1}, tau3{0.5}, delta{0.66};
    double cge{1e-6}, cgt{0.5}, cgg{0.66}, cgr{5.0};
    bool   custom{false}; // method-specific parameters away from their defaults
};

// a 1-D adversarial objective; also returns whether it is a convex quadratic
std::unique_ptr<fun1d_t> make_fun1d(vh::rng_t& rng, bool& convex_quadratic)
{
    convex_quadratic = false;
    const auto kind  = rng.range(0, 11);
    switch (kind)
    {
    case 0: // convex quadratic with dyadic coefficients (exact arithmetic for small dyadic inputs)
    {
        const auto a     = std::ldexp(static_cast<double>(rng.range(1, 64)), static_cast<int>(rng.range(-6, 6)));
        const auto b     = std::ldexp(static_cast<double>(rng.range(-64, 64)), static_cast<int>(rng.range(-6, 6)));
        convex_quadratic = true;
        return std::make_unique<fun1d_t>(
            "q1d", [=](double x) { return std::make_pair(0.5 * a * x * x + b * x, a * x + b); }, true);
    }
    case 1: // quartic polynomial
    {
        const auto a = logu(rng, 1e-3, 1e2), b = sym(rng) * 3, c = sym(rng) * 5, d = sym(rng) * 5;
        return std::make_unique<fun1d_t>(
            "poly4",
            [=](double x) {
                return std::make_pair(a * x * x * x * x + b * x * x * x + c * x * x + d * x,
                                      4 * a * x * x * x + 3 * b * x * x + 2 * c * x + d);
            },
            false);
    }
    case 2: // log barrier: NaN beyond the wall (drives the *0.3 loop and invalid trial points inside the searches)
    {
        const auto wall = sym(rng) * 3, c = logu(rng, 1e-3, 1e1);
        return std::make_unique<fun1d_t>(
            "barrier",
            [=](double x) { return std::make_pair(-std::log(wall - x) + 0.5 * c * x * x, 1.0 / (wall - x) + c * x); },
            false);
    }
    case 3: // nearly flat: |f - f0| < epsilon1 for a while (drives the *3 loop)
    {
        const auto s = logu(rng, 1e-14, 1e-9), q = logu(rng, 1e-16, 1e-8), k = sym(rng) * 10;
        return std::make_unique<fun1d_t>(
            "flat", [=](double x) { return std::make_pair(k + s * x + q * x * x, s + 2 * q * x); }, false);
    }
    case 4: // oscillating
    {
        const auto w = logu(rng, 1e-1, 1e2), q = logu(rng, 1e-3, 1e0);
        return std::make_unique<fun1d_t>(
            "osc",
            [=](double x) { return std::make_pair(std::sin(w * x) + q * x * x, w * std::cos(w * x) + 2 * q * x); },
            false);
    }
    case 5: // exponential (overflows to inf)
    {
        const auto k = logu(rng, 1e-1, 1e2);
        return std::make_unique<fun1d_t>(
            "exp", [=](double x) { return std::make_pair(std::exp(k * x) - x, k * std::exp(k * x) - 1.0); }, false);
    }
    case 6: // hard wall: invalid (NaN) at and beyond it, parabola before it
    {
        const auto wall = sym(rng) * 3, m = sym(rng) * 3;
        return std::make_unique<fun1d_t>(
            "wall",
            [=](double x) {
                return x < wall ? std::make_pair((x - m) * (x - m), 2 * (x - m)) :
                                  std::make_pair(std::nan(""), std::nan(""));
            },
            false);
    }
    case 7: // finite value, infinite slope beyond a threshold (invalid state with a finite function value)
    {
        const auto wall = sym(rng) * 3, m = sym(rng) * 3;
        const auto sgn  = rng.range(0, 1) ? 1.0 : -1.0;
        return std::make_unique<fun1d_t>(
            "ginf",
            [=](double x) {
                return x < wall ? std::make_pair((x - m) * (x - m), 2 * (x - m)) :
                                  std::make_pair((wall - m) * (wall - m) - 1.0, sgn * HUGE_VAL);
            },
            false);
    }
    case 8: // |x|^1.5 + small quadratic
    {
        const auto q = logu(rng, 1e-4, 1e0);
        return std::make_unique<fun1d_t>(
            "pow15",
            [=](double x) {
                const auto a = std::fabs(x);
                return std::make_pair(a * std::sqrt(a) + q * x * x, (x < 0 ? -1.5 : 1.5) * std::sqrt(a) + 2 * q * x);
            },
            false);
    }
    case 9: // badly scaled quadratic
    {
        const auto a = logu(rng, 1e-10, 1e10), b = sym(rng) * logu(rng, 1e-6, 1e6);
        convex_quadratic = true;
        return std::make_unique<fun1d_t>(
            "q1dscaled", [=](double x) { return std::make_pair(0.5 * a * x * x + b * x, a * x + b); }, true);
    }
    case 10: // log-cosh like (convex, gradient saturates)
    {
        const auto k = logu(rng, 1e-2, 1e2);
        return std::make_unique<fun1d_t>(
            "softabs",
            [=](double x) { return std::make_pair(std::sqrt(1.0 + k * x * x), k * x / std::sqrt(1.0 + k * x * x)); },
            true);
    }
    default: // double well
    {
        const auto a = logu(rng, 1e-2, 1e1);
        return std::make_unique<fun1d_t>(
            "well",
            [=](double x) { return std::make_pair(a * (x * x - 1) * (x * x - 1), 4 * a * x * (x * x - 1)); }, false);
    }
    }
}

cfg_t make_cfg(vh::rng_t& rng)
{
    cfg_t c;
    c.alg = static_cast<int>(rng.range(0, 4));
    // max_iterations in [1, 10000]: boundary-heavy
    switch (rng.range(0, 19))
    {
    case 0: case 1: c.maxit = static_cast<int>(rng.range(1, 3)); break;
    case 2: case 3: c.maxit = static_cast<int>(rng.range(1, 10)); break;
    case 4: case 5: c.maxit = static_cast<int>(rng.range(10, 40)); break;
    case 6: c.maxit = static_cast<int>(rng.range(1000, 10000)); break;
    case 7: c.maxit = rng.range(0, 1) ? 10000 : 128; break;
    case 8: case 9: case 10: c.maxit = static_cast<int>(rng.range(20, 100)); break;
    default: c.maxit = static_cast<int>(rng.range(100, 300)); break;
    }
    c.interp = static_cast<int>(rng.range(0, 2));
    // 0 < c1 < c2 < 1
    switch (rng.range(0, 5))
    {
    case 0: c.c1 = 1e-4, c.c2 = 0.1; break;
    case 1: c.c1 = 1e-4, c.c2 = 0.9; break;
    case 2: c.c1 = 0.1, c.c2 = 0.9; break;
    case 3: // anywhere, including c1 > 1/2 and c2 close to c1
        c.c1 = std::min(0.999, std::max(1e-12, rng.unit()));
        c.c2 = c.c1 + (1.0 - c.c1) * std::max(1e-6, rng.unit());
        break;
    default:
        c.c1 = logu(rng, 1e-8, 0.49);
        c.c2 = c.c1 + (1.0 - c.c1) * rng.unit();
        break;
    }
    if (!(c.c1 > 0.0 && c.c1 < c.c2 && c.c2 < 1.0))
    {
        c.c1 = 1e-4, c.c2 = 0.1;
    }
    if (rng.range(0, 2) == 0)
    {
        c.custom    = true;
        c.safeguard = std::min(0.499, std::max(1e-6, 0.5 * rng.unit()));
        c.tau1      = rng.range(0, 3) == 0 ? logu(rng, 2.001, 1e5) : 2.001 + 20.0 * rng.unit();
        c.tau3      = std::min(0.5, std::max(2e-3, 0.5 * rng.unit() + (rng.range(0, 3) == 0 ? 0.5 : 0.0)));
        c.tau2      = c.tau3 * std::min(0.999, std::max(1e-3, rng.unit()));
        c.delta     = std::min(0.999, std::max(1e-3, rng.unit()));
        c.cge       = logu(rng, 1e-12, 1e2);
        c.cgt       = std::min(0.999, std::max(1e-3, rng.unit()));
        c.cgg       = std::min(0.999, std::max(1e-3, rng.unit()));
        c.cgr       = 1.0 + logu(rng, 1e-2, 1e2);
    }
    return c;
}

rlsearchk_t make_lsearch(const cfg_t& c)
{
    auto ls = lsearchk_t::all().get(ALGS[c.alg]);
    if (!ls)
    {
        std::printf("FAIL - - kind=setup cannot create %s\n", ALGS[c.alg]);
        std::exit(3);
    }
    const auto it                         = static_cast<interpolation_type>(c.interp);
    ls->parameter("lsearchk::tolerance")  = std::make_tuple(c.c1, c.c2);
    ls->parameter("lsearchk::max_iterations") = c.maxit;
    switch (c.alg)
    {
    case 0:
        ls->parameter("lsearchk::backtrack::interpolation") = it;
        ls->parameter("lsearchk::backtrack::safeguard")     = c.safeguard;
        break;
    case 1:
        ls->parameter("lsearchk::lemarechal::interpolation") = it;
        ls->parameter("lsearchk::lemarechal::tau1")          = c.tau1;
        ls->parameter("lsearchk::lemarechal::safeguard")     = c.safeguard;
        break;
    case 2:
        ls->parameter("lsearchk::fletcher::interpolation") = it;
        ls->parameter("lsearchk::fletcher::tau1")          = c.tau1;
        ls->parameter("lsearchk::fletcher::tau23")         = std::make_tuple(c.tau2, c.tau3);
        break;
    case 3: ls->parameter("lsearchk::morethuente::delta") = c.delta; break;
    default:
        ls->parameter("lsearchk::cgdescent::epsilon") = c.cge;
        ls->parameter("lsearchk::cgdescent::theta")   = c.cgt;
        ls->parameter("lsearchk::cgdescent::gamma")   = c.cgg;
        ls->parameter("lsearchk::cgdescent::ro")      = c.cgr;
        break;
    }
    return ls;
}

struct stats_t
{
    long cases{0}, ok{0}, refused{0}, failed{0}, probes{0}, fails{0}, shrink{0}, grow{0}, invalid_probe{0};
    long quad_runs{0}, quad_ok{0}, quad_required{0}, state0_invalid{0}, corner{0}, interp{0}, quad_outside{0}, quad_outside_fail{0};
    std::map<std::string, long> by_alg_ok, by_alg_fail, by_fun, by_dims;
    long                        quad_fail_by_alg[5] = {0, 0, 0, 0, 0};
};

double t0_of(vh::rng_t& rng)
{
    switch (rng.range(0, 15))
    {
    case 0: return std::nan("");
    case 1: return HUGE_VAL;
    case 2: return -HUGE_VAL;
    case 3: return 0.0;
    case 4: return -logu(rng, 1e-3, 1e3);
    case 5: return logu(rng, 1e-20, 1e-12);
    case 6: return 1.0;
    case 7: return lsearchk_t::stpmin();
    default: return logu(rng, 1e-3, 1e3);
    }
}

void emit_interp(vh::rng_t& rng, stats_t& st)
{
    // direct comparison of the public interpolation helpers on structured inputs (ties, zero slopes, non-finite)
    const auto val = [&]() {
        switch (rng.range(0, 11))
        {
        case 0: return 0.0;
        case 1: return std::nan("");
        case 2: return HUGE_VAL;
        case 3: return static_cast<double>(rng.range(-4, 4));
        case 4: return sym(rng) * 1e-300;
        case 5: return sym(rng) * 1e300;
        default: return sym(rng) * logu(rng, 1e-6, 1e6);
        }
    };
    auto u = lsearch_step_t{val(), val(), val()};
    auto v = lsearch_step_t{val(), val(), val()};
    if (rng.range(0, 5) == 0) { v.t = u.t; }
    if (rng.range(0, 7) == 0) { v = u; }
    const auto kind = static_cast<int>(rng.range(0, 6));
    double     r    = 0;
    switch (kind)
    {
    case 0: r = lsearch_step_t::interpolate(u, v, interpolation_type::bisection); break;
    case 1: r = lsearch_step_t::interpolate(u, v, interpolation_type::quadratic); break;
    case 2: r = lsearch_step_t::interpolate(u, v, interpolation_type::cubic); break;
    case 3: r = lsearch_step_t::cubic(u, v); break;
    case 4: r = lsearch_step_t::quadratic(u, v); break;
    case 5: r = lsearch_step_t::secant(u, v); break;
    default: r = lsearch_step_t::bisection(u, v); break;
    }
    std::printf("INTERP %d | %s %s %s %s %s %s = %s\n", kind, vh::hexf(u.t).c_str(), vh::hexf(u.f).c_str(),
                vh::hexf(u.g).c_str(), vh::hexf(v.t).c_str(), vh::hexf(v.f).c_str(), vh::hexf(v.g).c_str(),
                vh::hexf(r).c_str());
    ++st.interp;
}

void run_case(const uint64_t seed, const long id, const rfunctions_t& registered, stats_t& st, const bool verbose)
{
    vh::rng_t rng(mix(seed, static_cast<uint64_t>(id)));

    // ---- objective ------------------------------------------------------------------------------------------
    std::unique_ptr<function_t> own;
    const function_t*           fun              = nullptr;
    bool                        convex_quadratic = false;
    bool                        artificial       = false;
    const auto                  fkind            = rng.range(0, 9);
    if (fkind <= 3)
    {
        fun = registered[static_cast<size_t>(rng.range(0, static_cast<int64_t>(registered.size()) - 1))].get();
        const auto& tid  = fun->type_id();
        convex_quadratic = tid == "sphere" || tid == "quadratic" || tid == "axis-ellipsoid" ||
                           tid == "rotated-ellipsoid" || tid == "trid";
    }
    else if (fkind <= 6)
    {
        static const tensor_size_t DIMS[] = {1, 1, 2, 3, 4, 5, 8, 13, 16};
        own              = std::make_unique<quad_t>(DIMS[rng.range(0, 8)], rng);
        fun              = own.get();
        convex_quadratic = true;
    }
    else
    {
        own        = make_fun1d(rng, convex_quadratic);
        fun        = own.get();
        artificial = true;
    }
    const auto n     = fun->size();
    const auto fname = fun->type_id() + "[" + std::to_string(n) + "D]";

    // ---- x0 in a box of radius 1e-2..1e3, direction, t0, configuration ----------------------------------------
    const auto radius = artificial ? logu(rng, 1e-2, 1e1) : logu(rng, 1e-2, 1e3);
    vector_t   x0(n);
    for (tensor_size_t i = 0; i < n; ++i)
    {
        x0(i) = sym(rng) * radius;
    }
    if (artificial && rng.range(0, 3) == 0)
    {
        x0(0) = std::ldexp(static_cast<double>(rng.range(-32, 32)), -3); // dyadic start
    }

    vector_t   g0(n);
    const auto f0 = fun->vgrad(x0, g0); // independent evaluation of the user function

    vector_t   d(n);
    const auto dkind = rng.range(0, 11);
    const auto scale = rng.range(0, 2) == 0 ? logu(rng, 1e-3, 1e3) : 1.0;
    for (tensor_size_t i = 0; i < n; ++i)
    {
        switch (dkind)
        {
        case 0: d(i) = g0(i); break;                                           // ascent: must be refused
        case 1: d(i) = sym(rng); break;                                        // random: half are not descent
        case 2: d(i) = 0.0; break;                                             // dg = 0: must be refused
        case 3: case 4: case 5: d(i) = -g0(i) * (1.0 + 0.9 * sym(rng)); break; // perturbed negative gradient
        case 6: case 7: d(i) = -g0(i) * logu(rng, 1e-3, 1e3); break;           // quasi-Newton-like (diagonal SPD metric)
        default: d(i) = -g0(i); break;
        }
        d(i) *= scale;
    }
    if (artificial && n == 1 && dkind >= 3 && rng.range(0, 2) == 0)
    {
        d(0) = (g0(0) > 0 ? -1.0 : 1.0) * std::ldexp(1.0, static_cast<int>(rng.range(-4, 6))); // power-of-two step
    }
    if (dkind == 11 && rng.range(0, 3) == 0)
    {
        // a non-finite component: dg0 is NaN (refused) or -inf (accepted as descent, every trial point is invalid)
        static const double BAD[] = {std::nan(""), HUGE_VAL, -HUGE_VAL};
        d(rng.range(0, n - 1)) = BAD[rng.range(0, 2)];
    }
    const auto t0  = t0_of(rng);
    const auto cfg = make_cfg(rng);
    const auto ls  = make_lsearch(cfg);

    // ---- run the real thing -----------------------------------------------------------------------------------
    const auto rec    = recorder_t{*fun};
    const auto state0 = solver_state_t{rec, x0};
    rec.m_log.clear();
    auto       state          = state0;
    const auto logger         = make_null_logger();
    const auto [ok, step]     = ls->get(state, d, t0, logger);
    const auto& log           = rec.m_log;
    const auto  dg0           = g0.dot(d);
    const auto  valid0        = std::isfinite(f0) && all_finite(x0) && all_finite(g0);

    // coordinates printed for the t-consistency check of the driver: the (at most) 4 largest |d_j|
    std::vector<tensor_size_t> J;
    {
        std::vector<tensor_size_t> idx(static_cast<size_t>(n));
        for (tensor_size_t i = 0; i < n; ++i) { idx[static_cast<size_t>(i)] = i; }
        std::stable_sort(idx.begin(), idx.end(),
                         [&](tensor_size_t a, tensor_size_t b) { return std::fabs(d(a)) > std::fabs(d(b)); });
        for (size_t k = 0; k < idx.size() && k < 4; ++k) { J.push_back(idx[k]); }
    }

    std::string line = "LS " + std::to_string(id) + " " + fname + " | " + std::to_string(cfg.alg) + " " +
                       std::to_string(cfg.maxit) + " " + std::to_string(cfg.interp);
    for (const auto v : {cfg.c1, cfg.c2, cfg.safeguard, cfg.tau1, cfg.tau2, cfg.tau3, cfg.delta, cfg.cge, cfg.cgt,
                         cfg.cgg, cfg.cgr})
    {
        line += " " + vh::hexf(v);
    }
    line += " | " + std::to_string(valid0 ? 1 : 0) + " " + vh::hexf(f0) + " " + vh::hexf(dg0) + " " + vh::hexf(t0);
    line += " | " + std::to_string(J.size());
    for (const auto j : J) { line += " " + vh::hexf(x0(j)); }
    for (const auto j : J) { line += " " + vh::hexf(d(j)); }
    line += " | ";
    bool any_invalid = false;
    for (size_t k = 0; k < log.size(); ++k)
    {
        const auto& r = log[k];
        const auto  v = std::isfinite(r.f) && all_finite(r.x) && r.g.size() == n && all_finite(r.g);
        any_invalid   = any_invalid || !v;
        if (k > 0) { line += ";"; }
        line += std::to_string(v ? 1 : 0) + "," + vh::hexf(r.f) + "," + vh::hexf(r.g.size() == n ? r.g.dot(d) : std::nan(""));
        for (const auto j : J) { line += "," + vh::hexf(r.x(j)); }
    }
    if (log.empty()) { line += "-"; }
    line += " = " + std::to_string(ok ? 1 : 0) + " " + vh::hexf(step);
    std::puts(line.c_str());

    // ---- the property's own oracle (from the user function) ---------------------------------------------------
    const auto fail = [&](const char* kind, const std::string& detail) {
        std::printf("FAIL %ld %s kind=%s alg=%s %s\n", id, fname.c_str(), kind, ALGS[cfg.alg], detail.c_str());
        ++st.fails;
    };

    ++st.cases;
    st.probes += static_cast<long>(log.size());
    st.by_fun[fun->type_id()] += 1;
    st.by_dims[std::to_string(n)] += 1;
    if (!valid0) { ++st.state0_invalid; }
    if (any_invalid) { ++st.invalid_probe; }

    // the state handed to get() is the evaluation of the user function at x0
    if (!same(state0.fx(), f0) || !same(state0.gx(), g0))
    {
        fail("state0", "solver_state_t(function, x0) differs from the user function at x0");
    }

    const auto descent_dir = dg0 < 0.0; // NaN and 0 are not descent
    if (!descent_dir)
    {
        ++st.refused;
        if (ok) { fail("refuse", "success reported along a non-descent direction dg0=" + vh::hexf(dg0)); }
        if (!same(step, t0)) { fail("refuse", "step changed on refusal: " + vh::hexf(step)); }
        if (!log.empty()) { fail("refuse", "function evaluated although the direction is refused"); }
        if (!same(state.x(), x0) || !same(state.fx(), f0) || !same(state.gx(), g0))
        {
            fail("refuse", "state modified on refusal");
        }
        return;
    }

    // "on convex quadratics all five succeed and satisfy their advertised conditions" is a floating-point success claim
    // that depends on the budget; it is demanded on: a valid origin, t0 in [1e-3, 1e3] or non-finite, default method
    // parameters, max_iterations >= 100 (default 128), c1 <= 0.99, finite evaluations, 1e-10 <= t* <= 1e10. Outside: counted only.
    const auto t0dom    = !std::isfinite(t0) || (t0 >= 1e-3 && t0 <= 1e3);
    const auto quadcase = convex_quadratic && valid0 && std::isfinite(dg0) && !any_invalid;
    // ... and the exact minimiser along d, t* = -dg0 / d'Ad, must lie well inside [stpmin, stpmax] = [2e-15, 4.5e14]
    // (the searches are confined to that interval: More-Thuente legitimately stops at stpmax otherwise)
    auto tstar = std::nan("");
    if (quadcase)
    {
        vector_t x1(n), g1(n);
        x1.vector() = x0.vector() + d.vector();
        fun->vgrad(x1, g1);
        tstar = -dg0 / (g1.dot(d) - dg0);
    }
    const auto demanded = quadcase && t0dom && !cfg.custom && cfg.maxit >= 100 && cfg.c1 <= 0.99 &&
                          std::isfinite(tstar) && tstar >= 1e-10 && tstar <= 1e10;
    if (demanded) { ++st.quad_runs; }
    if (quadcase && !demanded)
    {
        ++st.quad_outside;
        if (!ok) { ++st.quad_outside_fail; }
    }

    // the initial `*0.3` loop used up max_iterations on invalid trial points: the state is the evaluation at the
    // previous trial (see notes/C07.md); classified separately below
    bool exhausted = static_cast<long>(log.size()) >= cfg.maxit;
    for (size_t k = 0; exhausted && k < log.size(); ++k)
    {
        const auto& r = log[k];
        exhausted     = !(std::isfinite(r.f) && all_finite(r.x) && r.g.size() == n && all_finite(r.g));
    }

    if (!ok)
    {
        ++st.failed;
        st.by_alg_fail[ALGS[cfg.alg]] += 1;
        if (demanded)
        {
            // CG_DESCENT's approximate Wolfe conditions presuppose c1 < 1/2 (assert in has_approx_wolfe); with
            // c1 >= 1/2 it fails honestly on quadratics: candidate finding (notes/C07.md), reported separately
            const auto cghalf = cfg.alg == 4 && cfg.c1 >= 0.5;
            if (cghalf) { ++st.corner; }
            else
            {
                ++st.quad_required;
                st.quad_fail_by_alg[cfg.alg] += 1;
            }
            std::printf("%s %ld %s kind=%s alg=%s maxit=%d t0=%s c1=%s c2=%s t=%s\n", cghalf ? "CAND" : "QFAIL", id,
                        fname.c_str(), cghalf ? "cgdescent-c1-ge-half" : "quadratic-no-success", ALGS[cfg.alg],
                        cfg.maxit, vh::hexf(t0).c_str(), vh::hexf(cfg.c1).c_str(), vh::hexf(cfg.c2).c_str(),
                        vh::hexf(step).c_str());
        }
        return;
    }

    ++st.ok;
    st.by_alg_ok[ALGS[cfg.alg]] += 1;
    if (demanded) { ++st.quad_ok; }

    // candidate finding (notes/C07.md, theorem C07_invalid_success_only_after_exhausted_shrink): the `*0.3` loop used up
    // max_iterations on invalid trial points and the search accepted the stale invalid state (t may even be 0)
    if (exhausted && !state.valid())
    {
        ++st.corner;
        std::printf("CAND %ld %s kind=stale-invalid-state alg=%s t=%s f(state)=%s state.valid=0 valid0=%d maxit=%d probes=%zu\n",
                    id, fname.c_str(), ALGS[cfg.alg], vh::hexf(step).c_str(), vh::hexf(state.fx()).c_str(),
                    valid0 ? 1 : 0, cfg.maxit, log.size());
        return;
    }

    // (a) finite positive step
    if (!std::isfinite(step)) { fail("step", "non-finite step " + vh::hexf(step)); }
    if (!(step > 0.0)) { fail("step", "non-positive step " + vh::hexf(step)); }

    // (b) the state is the evaluation of the user function at x0 + t*d
    vector_t xt(n);
    xt.vector() = x0.vector() + step * d.vector();
    vector_t   gt(n);
    const auto ft      = fun->vgrad(xt, gt);
    const auto valid_t = std::isfinite(ft) && all_finite(xt) && all_finite(gt);
    if (!same(state.x(), xt) || !same(state.fx(), ft) || !same(state.gx(), gt) || !valid_t || !state.valid())
    {
        const auto detail = "t=" + vh::hexf(step) + " f(state)=" + vh::hexf(state.fx()) + " f(x0+t*d)=" +
                            vh::hexf(ft) + " state.valid=" + std::to_string(state.valid() ? 1 : 0) + " maxit=" +
                            std::to_string(cfg.maxit) + " probes=" + std::to_string(log.size());
        fail("state", "returned state is not the (valid) evaluation at x0+t*d: " + detail);
        return;
    }
    if (log.empty() || !same(log.back().x, xt))
    {
        fail("state", "the accepted point is not the last evaluated point");
    }

    // (c) the advertised conditions, recomputed in extended precision from the user function ("up to rounding")
    const long double F0 = f0, FT = ft, T = step, C1 = cfg.c1, C2 = cfg.c2, DG0 = dg0, DGT = gt.dot(d);
    const long double u   = 0x1p-50L;
    const auto        arm = FT <= F0 + T * C1 * DG0 + u * (std::fabs(F0) + std::fabs(T * C1 * DG0));
    const auto        wol = DGT >= C2 * DG0 - u * std::fabs(C2 * DG0);
    const auto        swo = std::fabs(DGT) <= C2 * std::fabs(DG0) + u * std::fabs(C2 * DG0);
    const auto        eps = static_cast<long double>(cfg.cge) * std::fabs(F0);
    const auto        aar = FT <= F0 + eps + u * (std::fabs(F0) + eps);
    const auto        awo = (2 * C1 - 1) * DG0 + u * std::fabs(DG0) >= DGT && wol;
    const auto detail = "t=" + vh::hexf(step) + " f0=" + vh::hexf(f0) + " ft=" + vh::hexf(ft) + " dg0=" +
                        vh::hexf(dg0) + " dgt=" + vh::hexf(static_cast<double>(DGT)) + " c1=" + vh::hexf(cfg.c1) +
                        " c2=" + vh::hexf(cfg.c2);
    switch (cfg.alg)
    {
    case 0:
        if (!arm) { fail("armijo", detail); }
        break;
    case 1:
        if (!arm) { fail("armijo", detail); }
        if (!wol) { fail("wolfe", detail); }
        break;
    case 2:
        if (!arm) { fail("armijo", detail); }
        if (!swo) { fail("strong-wolfe", detail); }
        break;
    case 3:
        // More-Thuente also reports success when no further progress is possible: demanded on quadratics only
        if (demanded && (!arm || !swo))
        {
            ++st.quad_required;
            st.quad_fail_by_alg[cfg.alg] += 1;
            std::printf("QFAIL %ld %s kind=quadratic-conditions alg=%s maxit=%d t0=%s %s\n", id, fname.c_str(),
                        ALGS[cfg.alg], cfg.maxit, vh::hexf(t0).c_str(), detail.c_str());
        }
        break;
    default:
        if (demanded && !((arm && wol) || (aar && awo)))
        {
            const auto cghalf = cfg.c1 >= 0.5;
            if (cghalf) { ++st.corner; }
            else
            {
                ++st.quad_required;
                st.quad_fail_by_alg[cfg.alg] += 1;
            }
            std::printf("%s %ld %s kind=%s alg=%s maxit=%d t0=%s %s\n", cghalf ? "CAND" : "QFAIL", id, fname.c_str(),
                        cghalf ? "cgdescent-c1-ge-half" : "quadratic-conditions", ALGS[cfg.alg], cfg.maxit,
                        vh::hexf(t0).c_str(), detail.c_str());
        }
        break;
    }
    if (ls->type() != (cfg.alg == 0 ? lsearch_type::armijo :
                       cfg.alg == 1 ? lsearch_type::wolfe :
                       cfg.alg == 4 ? lsearch_type::wolfe_approx_wolfe : lsearch_type::strong_wolfe))
    {
        fail("type", "advertised lsearch_type changed");
    }
}
} // namespace

int main(int argc, char** argv)
{
    std::setvbuf(stdout, nullptr, _IOLBF, 0);
    const std::string tier   = argc > 1 ? argv[1] : "quick";
    const long        only   = argc > 2 ? std::atol(argv[2]) : -1;
    const auto        seed   = vh::env_seed();
    const long        ncases = tier == "thorough" ? 1000000 : 100000;

    std::printf("CONST %s %s %s %s\n", vh::hexf(epsilon0<scalar_t>()).c_str(), vh::hexf(epsilon1<scalar_t>()).c_str(),
                vh::hexf(lsearchk_t::stpmin()).c_str(), vh::hexf(lsearchk_t::stpmax()).c_str());

    const auto registered = function_t::make({1, 16, convexity::ignore, smoothness::yes, 10});
    stats_t    st;
    if (only >= 0)
    {
        run_case(seed, only, registered, st, true);
    }
    else
    {
        vh::rng_t irng(mix(seed, 0xABCDEFULL));
        for (long k = 0; k < ncases / 8; ++k) { emit_interp(irng, st); }
        for (long id = 0; id < ncases; ++id) { run_case(seed, id, registered, st, false); }
    }

    std::string algs;
    for (int a = 0; a < 5; ++a)
    {
        algs += std::string(" ") + ALGS[a] + "=" + std::to_string(st.by_alg_ok[ALGS[a]]) + "/" +
                std::to_string(st.by_alg_fail[ALGS[a]]) + "/" + std::to_string(st.quad_fail_by_alg[a]);
    }
    std::string funs;
    for (const auto& [k, v] : st.by_fun) { funs += " " + k + "=" + std::to_string(v); }
    std::string dims;
    for (const auto& [k, v] : st.by_dims) { dims += " " + k + "=" + std::to_string(v); }
    std::printf("STATS algs(ok/fail/quadfail):%s\n", algs.c_str());
    std::printf("STATS funs:%s\n", funs.c_str());
    std::printf("STATS dims:%s\n", dims.c_str());
    std::printf("DONE cases=%ld ok=%ld refused=%ld failed=%ld probes=%ld fails=%ld invalid_probe=%ld state0_invalid=%ld "
                "quad_runs=%ld quad_ok=%ld quad_demanded_failures=%ld quad_outside=%ld quad_outside_failed=%ld corner=%ld interp=%ld "
                "registered=%zu\n",
                st.cases, st.ok, st.refused, st.failed, st.probes, st.fails, st.invalid_probe, st.state0_invalid,
                st.quad_runs, st.quad_ok, st.quad_required, st.quad_outside, st.quad_outside_fail, st.corner, st.interp,
                registered.size());
    return 0;
}
