// C04 harness: drives nano::program::solver_t (primal-dual interior point) on generated linear / convex quadratic
// programs and prints, per solve, the program as the caller stated it, the reduced equality system and the three
// normalisation denominators (obtained with the library's own program::reduce and the same Eigen norms), the optional
// starting point, the constructed optimum (x*,u*,v*) when known, and the returned state.
//
// Output (doubles as C hex floats, `-` = empty, matrices row;row, vectors a,b,c):
//   CONST eps=<solver::epsilon> eps2=<epsilon2> minnorm=<1e-3>
//   SOLVE <id> kind=<k> base=<id|-> x0=<def|user> expect=<0 unknown|1 optimum known|2 infeasible|3 unbounded> n=<n>
//         | Q | c | A | b | G | h | Ar | br | dQ,dA,dG | x0 | x* | u* | v*
//         = status iters fx kkt eta | x | u | v | rdual | rprim
//   REDUCE <id> kind=<k> r=<rows> n=<cols> | A | b | P | Q | L | U | rank | ret | Ar | br
//         program::reduce(A, b) of the library on an equality system, next to Eigen's fullPivLu of [A|b]^T recomputed here with
//         the same call: P, Q as index lists ((P X) row k = X row P[k]; (X Q) column j = X column Q[j]), L = unit lower
//         trapezoid (cols+1 x min), U = upper trapezoid (min x rows), rank = dd.rank(), ret = returned flag
//   ISOLVE <id> par=<s0,miu,alpha,beta,eps,eps0,max_iters,max_lsearch_iters> :: <SOLVE text of the stated program ... | x0 | - | - | ->
//   IPROG <id> n=<n> m=<m> p=<p> q=<0|1> | mufx | Q | c | A | b | G | h | x0     the program AS SOLVED (ev_program_start: reduced, normalised)
//   ITER <id> <k> exit=<0..5> | s0*smax,s1,s2,iters1,iters2,r0 | miu,alpha,beta,s0 | x | u | v | rdual | rcent | rprim | dx | du | dv
//         | x' | u' | v' | eta',residual',status'                  one pass of the loop of solve_with_inequality (ev_program_iter)
//   IFINAL <id> status iters fx eta rcond | x | u | v | rdual | rprim | rcent            the returned state
//   FAIL <clause> id=<id> ...   direct property violations (oracle coded here in long double, independent of the Coq model)
//   DONE solves=<n> converged=<n> ...
// Usage: c04_program <quick|thorough> [count [chunk]]   (seed = VERIF_SEED, perturbed by the chunk id)
//        c04_program replay "<the text of a SOLVE line up to (excluding) ' = '>"
//        c04_program reduce <cols> "<A>" "<b>"     (one REDUCE line for the given equality system)
//        c04_program iter <quick|thorough> [count [chunk]]     (ITER stage: own generator stream, solver parameters across their domains)
//        c04_program iterreplay "<text after `:: ` of an ISOLVE line>" "<par>"     (one solve with the values hook installed)
//        c04_program rest <quick|thorough> [count [chunk]]     (REST stage: equality-only programs as SOLVE lines with kind=eq-*, and
//                                                                make_strictly_feasible / make_x0 / the default start as MSF + MSTART lines)
//        c04_program restreplay "<SOLVE text>"                  (one program through the REST stage: SOLVE line if it has no inequality, MSF + MSTART otherwise)
//   MSF <id> kind=<k> n=<n> m=<m> ret=<0|1> strict_known=<0|1> | G | h | x returned | y:x;y:x;...   linear_constrained_t::make_strictly_feasible of the
//         library next to the trial loop recomputed here with the same Eigen calls (trials in evaluation order: ym, yM, ym*g, yM/g, ...)
//   MSTART <id> expect=<e> status=<s> iters=<k> started=<0|1> | x0 of ev_program_start (the starting point make_x0 handed to solve_with_inequality)
#include "common.h"
#include <Eigen/Dense>
#include <algorithm>
#include <iostream>
#include <map>
#include <nano/program/solver.h>
#include <nano/program/util.h>
#include <nano/tensor/stack.h>
#include <nano/verif.h>

using namespace nano;
using namespace nano::program;

namespace
{
using ld   = long double;
using dvec = std::vector<double>;
using dmat = std::vector<dvec>;

struct prog_t
{
    int         n{0};
    dmat        Q, A, G; // Q empty = linear program
    dvec        c, b, h;
    int         expect{0}; // 0 unknown, 1 optimum known (xs,us,vs), 2 infeasible, 3 unbounded
    dvec        xs, us, vs;
    dvec        x0; // empty = default starting point
    dvec        din; // interior direction (xs + din strictly satisfies the inequalities), generator bookkeeping only
    std::string kind;
    long        base{-1};
};

// ---------------------------------------------------------------------------------------------------
// conversions / printing
// ---------------------------------------------------------------------------------------------------
matrix_t to_matrix(const dmat& M, const int cols)
{
    auto R = matrix_t{static_cast<tensor_size_t>(M.size()), static_cast<tensor_size_t>(cols)};
    for (size_t i = 0; i < M.size(); ++i)
        for (int j = 0; j < cols; ++j) R(static_cast<tensor_size_t>(i), j) = M[i][static_cast<size_t>(j)];
    return R;
}

vector_t to_vector(const dvec& v)
{
    auto r = vector_t{static_cast<tensor_size_t>(v.size())};
    for (size_t i = 0; i < v.size(); ++i) r(static_cast<tensor_size_t>(i)) = v[i];
    return r;
}

std::string svec(const dvec& v)
{
    if (v.empty()) return "-";
    std::string s;
    for (size_t i = 0; i < v.size(); ++i)
    {
        if (i) s += ",";
        s += vh::hexf(v[i]);
    }
    return s;
}

std::string svec(const vector_t& v)
{
    dvec d(static_cast<size_t>(v.size()));
    for (tensor_size_t i = 0; i < v.size(); ++i) d[static_cast<size_t>(i)] = v(i);
    return svec(d);
}

std::string smat(const dmat& M)
{
    if (M.empty()) return "-";
    std::string s;
    for (size_t i = 0; i < M.size(); ++i)
    {
        if (i) s += ";";
        s += svec(M[i]);
    }
    return s;
}

std::string smat(const matrix_t& M)
{
    dmat d(static_cast<size_t>(M.rows()), dvec(static_cast<size_t>(M.cols())));
    for (tensor_size_t i = 0; i < M.rows(); ++i)
        for (tensor_size_t j = 0; j < M.cols(); ++j) d[static_cast<size_t>(i)][static_cast<size_t>(j)] = M(i, j);
    return smat(d);
}

dvec pvec(const std::string& s)
{
    dvec v;
    if (s == "-" || s.empty()) return v;
    for (const auto& t : vh::split(s, ',')) v.push_back(vh::parsef(t));
    return v;
}

dmat pmat(const std::string& s)
{
    dmat M;
    if (s == "-" || s.empty()) return M;
    for (const auto& t : vh::split(s, ';')) M.push_back(pvec(t));
    return M;
}

std::string trim(std::string s)
{
    while (!s.empty() && s.back() == ' ') s.pop_back();
    size_t i = 0;
    while (i < s.size() && s[i] == ' ') ++i;
    return s.substr(i);
}

// ---------------------------------------------------------------------------------------------------
// exact-ish helpers in long double (inputs are small dyadics: every sum below is exact in 64 bits of mantissa)
// ---------------------------------------------------------------------------------------------------
ld ldot(const dvec& a, const dvec& b)
{
    ld s = 0;
    for (size_t i = 0; i < a.size() && i < b.size(); ++i) s += static_cast<ld>(a[i]) * static_cast<ld>(b[i]);
    return s;
}

bool exact(const ld v)
{
    return static_cast<ld>(static_cast<double>(v)) == v;
}

// ---------------------------------------------------------------------------------------------------
// generators (everything derives from one splitmix64 state)
// ---------------------------------------------------------------------------------------------------
double p2(const int k)
{
    return std::ldexp(1.0, k);
}

double dy(vh::rng_t& rng, const int maxint, const double den)
{
    return static_cast<double>(rng.range(-maxint, maxint)) / den;
}

bool chance(vh::rng_t& rng, const int percent)
{
    return rng.range(0, 99) < percent;
}

// c := -(Q xs + A'vs + G'us); false if some entry is not exactly representable
bool set_kkt_c(prog_t& P)
{
    const auto n = static_cast<size_t>(P.n);
    P.c.assign(n, 0.0);
    for (size_t j = 0; j < n; ++j)
    {
        ld s = 0;
        if (!P.Q.empty()) s += ldot(P.Q[j], P.xs);
        for (size_t i = 0; i < P.A.size(); ++i) s += static_cast<ld>(P.A[i][j]) * static_cast<ld>(P.vs[i]);
        for (size_t i = 0; i < P.G.size(); ++i) s += static_cast<ld>(P.G[i][j]) * static_cast<ld>(P.us[i]);
        if (!exact(-s)) return false;
        P.c[j] = static_cast<double>(-s);
    }
    return true;
}

dmat make_Q(vh::rng_t& rng, const int n, const int r, const double scale)
{
    dmat D(static_cast<size_t>(r), dvec(static_cast<size_t>(n)));
    for (auto& row : D)
        for (auto& v : row) v = chance(rng, 25) ? 0.0 : dy(rng, 4, 2.0);
    dmat Q(static_cast<size_t>(n), dvec(static_cast<size_t>(n), 0.0));
    for (int i = 0; i < n; ++i)
        for (int j = 0; j < n; ++j)
        {
            double s = 0;
            for (int k = 0; k < r; ++k) s += D[static_cast<size_t>(k)][static_cast<size_t>(i)] * D[static_cast<size_t>(k)][static_cast<size_t>(j)];
            Q[static_cast<size_t>(i)][static_cast<size_t>(j)] = s * scale;
        }
    return Q;
}

// a program whose optimum (xs,us,vs) is fixed by construction (exact KKT point in rational arithmetic)
prog_t gen_kkt(vh::rng_t& rng)
{
    for (;;)
    {
        prog_t P;
        P.kind       = "kkt";
        const int n  = chance(rng, 40) ? static_cast<int>(rng.range(1, 4)) : static_cast<int>(rng.range(1, 12));
        const int p  = static_cast<int>(rng.range(0, n - 1));
        const int m  = static_cast<int>(rng.range(1, 2 * n + 2));
        const auto N = static_cast<size_t>(n);
        P.n          = n;
        const int  qk     = static_cast<int>(rng.range(0, 9)); // 0-3 LP, 4-6 full rank, 7-9 rank deficient
        const bool mixed  = chance(rng, 50);                   // row magnitudes spanning 2^-7..2^7 (about 1e-2..1e2)
        const bool boxes  = chance(rng, 25);
        const bool sparse = chance(rng, 30);
        P.xs.resize(N);
        for (auto& v : P.xs) v = dy(rng, 12, 4.0);
        P.din.assign(N, 0.0);
        bool nz = false;
        while (!nz)
        {
            for (auto& v : P.din) { v = dy(rng, 8, 4.0); nz = nz || v != 0.0; }
        }
        // active set
        int kact = static_cast<int>(rng.range(0, std::min(m, n - p)));
        if (chance(rng, 15)) kact = static_cast<int>(rng.range(0, m));
        std::vector<int> idx(static_cast<size_t>(m));
        for (int i = 0; i < m; ++i) idx[static_cast<size_t>(i)] = i;
        for (int i = m - 1; i > 0; --i) std::swap(idx[static_cast<size_t>(i)], idx[static_cast<size_t>(rng.range(0, i))]);
        std::vector<bool> active(static_cast<size_t>(m), false);
        for (int i = 0; i < kact; ++i) active[static_cast<size_t>(idx[static_cast<size_t>(i)])] = true;
        const double os = mixed ? p2(static_cast<int>(rng.range(-7, 7))) : 1.0; // objective scale

        P.G.assign(static_cast<size_t>(m), dvec(N, 0.0));
        P.h.assign(static_cast<size_t>(m), 0.0);
        P.us.assign(static_cast<size_t>(m), 0.0);
        for (int i = 0; i < m; ++i)
        {
            auto&        g = P.G[static_cast<size_t>(i)];
            const double s = mixed ? p2(static_cast<int>(rng.range(-7, 7))) : 1.0;
            ld           gd = 0;
            for (int tries = 0; tries < 100; ++tries)
            {
                std::fill(g.begin(), g.end(), 0.0);
                if (boxes) g[static_cast<size_t>(rng.range(0, n - 1))] = chance(rng, 50) ? s : -s;
                else
                    for (auto& v : g) v = (sparse && chance(rng, 50)) ? 0.0 : dy(rng, 8, 4.0) * s;
                gd = ldot(g, P.din);
                if (gd != 0) break;
            }
            if (gd == 0) { g[0] = s; gd = ldot(g, P.din); if (gd == 0) { P.din[0] = 1.0; gd = ldot(g, P.din); } }
            const ld gx = ldot(g, P.xs);
            if (active[static_cast<size_t>(i)])
            {
                if (gd > 0) { for (auto& v : g) v = -v; }
                P.h[static_cast<size_t>(i)]  = static_cast<double>(gd > 0 ? -gx : gx);
                P.us[static_cast<size_t>(i)] = chance(rng, 85) ? static_cast<double>(rng.range(1, 16)) / 4.0 * p2(static_cast<int>(rng.range(-3, 3))) * os / s : 0.0;
            }
            else
            {
                const ld slack = static_cast<ld>(rng.range(1, 16)) / 4 * static_cast<ld>(s);
                P.h[static_cast<size_t>(i)] = static_cast<double>(std::max(gx, gx + gd) + slack);
            }
        }
        // NB: din may have been touched above (degenerate corner): re-establish strict feasibility of xs + din
        bool ok = true;
        for (int i = 0; i < m && ok; ++i)
        {
            dvec xin(N);
            for (size_t j = 0; j < N; ++j) xin[j] = P.xs[j] + P.din[j];
            ok = ldot(P.G[static_cast<size_t>(i)], xin) < static_cast<ld>(P.h[static_cast<size_t>(i)]) &&
                 ldot(P.G[static_cast<size_t>(i)], P.xs) <= static_cast<ld>(P.h[static_cast<size_t>(i)]);
            if (active[static_cast<size_t>(i)]) ok = ok && ldot(P.G[static_cast<size_t>(i)], P.xs) == static_cast<ld>(P.h[static_cast<size_t>(i)]);
        }
        if (!ok) continue;
        P.A.assign(static_cast<size_t>(p), dvec(N, 0.0));
        P.b.assign(static_cast<size_t>(p), 0.0);
        P.vs.assign(static_cast<size_t>(p), 0.0);
        for (int i = 0; i < p; ++i)
        {
            const double s = mixed ? p2(static_cast<int>(rng.range(-7, 7))) : 1.0;
            bool         any = false;
            while (!any)
                for (auto& v : P.A[static_cast<size_t>(i)]) { v = (sparse && chance(rng, 40)) ? 0.0 : dy(rng, 8, 4.0) * s; any = any || v != 0.0; }
            P.b[static_cast<size_t>(i)]  = static_cast<double>(ldot(P.A[static_cast<size_t>(i)], P.xs));
            P.vs[static_cast<size_t>(i)] = dy(rng, 16, 4.0) * p2(static_cast<int>(rng.range(-3, 3))) * os / s;
        }
        if (qk >= 4)
        {
            const int r = (qk <= 6 || n == 1) ? n : static_cast<int>(rng.range(1, n - 1));
            P.Q         = make_Q(rng, n, r, os * (mixed ? p2(static_cast<int>(rng.range(-3, 3))) : 1.0));
        }
        if (!set_kkt_c(P)) continue;
        P.expect = 1;
        if (chance(rng, 50))
        {
            P.x0.resize(N);
            for (size_t j = 0; j < N; ++j) P.x0[j] = P.xs[j] + P.din[j];
        }
        return P;
    }
}

// equivalent restatements (all exact: powers of two, small integer combinations, permutations)
prog_t restate(vh::rng_t& rng, const prog_t& B, const long base_id)
{
    prog_t P = B;
    P.base   = base_id;
    const auto p = P.A.size(), m = P.G.size(), N = static_cast<size_t>(P.n);
    std::string what;
    const int   ntr = static_cast<int>(rng.range(1, 2));
    for (int t = 0; t < ntr; ++t)
    {
        const int k = static_cast<int>(rng.range(0, 6));
        if (k == 0 && p > 0)
        {
            const auto j = static_cast<size_t>(rng.range(0, static_cast<int64_t>(P.A.size()) - 1));
            P.A.push_back(P.A[j]); P.b.push_back(P.b[j]); P.vs.push_back(0.0);
            what += "+dupeq";
        }
        else if (k == 1 && p > 0)
        {
            const auto i = static_cast<size_t>(rng.range(0, static_cast<int64_t>(P.A.size()) - 1));
            const auto j = static_cast<size_t>(rng.range(0, static_cast<int64_t>(P.A.size()) - 1));
            const double wi = static_cast<double>(rng.range(1, 3)), wj = static_cast<double>(rng.range(-2, 2));
            dvec row(N);
            for (size_t q = 0; q < N; ++q) row[q] = wi * P.A[i][q] + wj * P.A[j][q];
            bool any = false;
            for (const auto v : row) any = any || v != 0.0;
            if (!any) continue;
            P.A.push_back(row); P.b.push_back(wi * P.b[i] + wj * P.b[j]); P.vs.push_back(0.0);
            what += "+combeq";
        }
        else if (k == 2 && m > 0)
        {
            for (size_t i = 0; i < P.G.size(); ++i)
            {
                if (!chance(rng, 60)) continue;
                const double s = p2(static_cast<int>(rng.range(-5, 5)));
                for (auto& v : P.G[i]) v *= s;
                P.h[i] *= s; P.us[i] /= s;
            }
            what += "+scaleineq";
        }
        else if (k == 3)
        {
            // 30 %: a tiny objective (|Q|_F, |c|_2 < 1e-3: the min_norm guard of the solver's normalisation is active and the
            // divisor differs from the norm)
            const double s = chance(rng, 30) ? p2(static_cast<int>(rng.range(-24, -9))) : p2(static_cast<int>(rng.range(-6, 6)));
            for (auto& r : P.Q) for (auto& v : r) v *= s;
            for (auto& v : P.c) v *= s;
            for (auto& v : P.us) v *= s;
            for (auto& v : P.vs) v *= s;
            what += "+scaleobj";
        }
        else if (k == 4 && p > 0)
        {
            for (size_t i = 0; i < P.A.size(); ++i)
            {
                if (!chance(rng, 60)) continue;
                const double s = p2(static_cast<int>(rng.range(-5, 5))) * (chance(rng, 40) ? -1.0 : 1.0);
                for (auto& v : P.A[i]) v *= s;
                P.b[i] *= s; P.vs[i] /= s;
            }
            what += "+scaleeq";
        }
        else if (k == 5)
        {
            std::vector<size_t> pi(N);
            for (size_t i = 0; i < N; ++i) pi[i] = i;
            for (size_t i = N; i-- > 1;) std::swap(pi[i], pi[static_cast<size_t>(rng.range(0, static_cast<int64_t>(i)))]);
            const auto permv = [&](const dvec& v) { dvec r(v.size()); for (size_t i = 0; i < v.size(); ++i) r[i] = v[pi[i]]; return r; };
            P.c = permv(P.c); P.xs = permv(P.xs);
            if (!P.x0.empty()) P.x0 = permv(P.x0);
            if (!P.din.empty()) P.din = permv(P.din);
            for (auto& r : P.A) r = permv(r);
            for (auto& r : P.G) r = permv(r);
            if (!P.Q.empty())
            {
                dmat Q2(N, dvec(N));
                for (size_t i = 0; i < N; ++i) for (size_t j = 0; j < N; ++j) Q2[i][j] = P.Q[pi[i]][pi[j]];
                P.Q = Q2;
            }
            what += "+permvars";
        }
        else if (k == 6)
        {
            const auto permrows = [&](dmat& M, dvec& r, dvec& mu)
            {
                for (size_t i = M.size(); i-- > 1;)
                {
                    const auto j = static_cast<size_t>(rng.range(0, static_cast<int64_t>(i)));
                    std::swap(M[i], M[j]); std::swap(r[i], r[j]); std::swap(mu[i], mu[j]);
                }
            };
            permrows(P.G, P.h, P.us);
            permrows(P.A, P.b, P.vs);
            what += "+permrows";
        }
    }
    if (what.empty())
    {
        const double s = chance(rng, 30) ? p2(static_cast<int>(rng.range(-24, -9))) : p2(static_cast<int>(rng.range(1, 6)));
        for (auto& r : P.Q) for (auto& v : r) v *= s;
        for (auto& v : P.c) v *= s;
        for (auto& v : P.us) v *= s;
        for (auto& v : P.vs) v *= s;
        what = "+scaleobj";
    }
    P.kind = "re" + what;
    return P;
}

// infeasible by construction: contradictory pair of inequalities or contradictory equalities added to a solvable program
prog_t make_infeasible(vh::rng_t& rng, const prog_t& B, const long base_id)
{
    prog_t P = B;
    P.base   = base_id;
    P.expect = 2;
    P.xs.clear(); P.us.clear(); P.vs.clear();
    const auto N = static_cast<size_t>(P.n);
    dvec g(N, 0.0);
    bool any = false;
    while (!any) for (auto& v : g) { v = dy(rng, 4, 2.0); any = any || v != 0.0; }
    const double t     = dy(rng, 8, 2.0);
    const double delta = static_cast<double>(rng.range(1, 64)) * p2(static_cast<int>(rng.range(-12, 0)));
    if (chance(rng, 50) || B.A.empty())
    {
        // g.x <= t and g.x >= t + delta
        dvec ng(N);
        for (size_t j = 0; j < N; ++j) ng[j] = -g[j];
        P.G.push_back(g); P.h.push_back(t);
        P.G.push_back(ng); P.h.push_back(-(t + delta));
        P.kind = "infeas+ineq";
    }
    else
    {
        const auto j = static_cast<size_t>(rng.range(0, static_cast<int64_t>(P.A.size()) - 1));
        P.A.push_back(P.A[j]); P.b.push_back(P.b[j] + delta * std::max(1.0, std::fabs(P.b[j])));
        P.kind = "infeas+eq";
    }
    if (!P.x0.empty() && chance(rng, 50)) P.x0.clear();
    return P;
}

// unbounded by construction: a coordinate direction e_j with G e_j <= 0, A e_j = 0, Q e_j = 0, c_j < 0; feasible at xs
prog_t gen_unbounded(vh::rng_t& rng)
{
    prog_t     P  = gen_kkt(rng);
    const auto N  = static_cast<size_t>(P.n);
    const auto j  = static_cast<size_t>(rng.range(0, P.n - 1));
    P.kind        = "unbnd";
    P.expect      = 3;
    for (auto& r : P.G) r[j] = -std::fabs(r[j]);
    for (auto& r : P.A) r[j] = 0.0;
    for (size_t i = 0; i < P.Q.size(); ++i) { P.Q[i][j] = 0.0; P.Q[j][i] = 0.0; }
    if (P.c[j] == 0.0) P.c[j] = -1.0;
    P.c[j] = -std::fabs(P.c[j]);
    // keep it feasible (and strictly so at xs + din): recompute right-hand sides
    dvec xin(N);
    for (size_t q = 0; q < N; ++q) xin[q] = P.xs[q] + P.din[q];
    for (size_t i = 0; i < P.G.size(); ++i)
    {
        const ld a = ldot(P.G[i], P.xs), bb = ldot(P.G[i], xin);
        P.h[i]     = static_cast<double>(std::max(a, bb) + static_cast<ld>(rng.range(1, 8)) / 4);
    }
    for (size_t i = 0; i < P.A.size(); ++i) P.b[i] = static_cast<double>(ldot(P.A[i], P.xs));
    if (!P.x0.empty()) P.x0 = xin;
    P.xs.clear(); P.us.clear(); P.vs.clear();
    (void)N;
    return P;
}

// arbitrary small integer programs (status and optimum decided exactly by the check, not here)
prog_t gen_tiny(vh::rng_t& rng)
{
    prog_t P;
    P.kind       = "tiny";
    const int n  = static_cast<int>(rng.range(1, 3));
    const int p  = chance(rng, 55) ? 0 : static_cast<int>(rng.range(1, 2));
    const int m  = chance(rng, 6) ? 0 : static_cast<int>(rng.range(1, 6));
    const auto N = static_cast<size_t>(n);
    P.n          = n;
    const int r  = static_cast<int>(rng.range(0, n)); // 0 = linear program
    if (r > 0)
    {
        dmat D(static_cast<size_t>(r), dvec(N));
        for (auto& row : D) for (auto& v : row) v = static_cast<double>(rng.range(-2, 2));
        P.Q.assign(N, dvec(N, 0.0));
        for (size_t i = 0; i < N; ++i) for (size_t j = 0; j < N; ++j) for (size_t k = 0; k < D.size(); ++k) P.Q[i][j] += D[k][i] * D[k][j];
        bool any = false;
        for (const auto& row : P.Q) for (const auto v : row) any = any || v != 0.0;
        if (!any) P.Q.clear();
    }
    P.c.resize(N);
    for (auto& v : P.c) v = static_cast<double>(rng.range(-3, 3));
    // mostly feasible: right-hand sides taken at an integer point plus a slack that is sometimes negative
    dvec z(N);
    for (auto& v : z) v = static_cast<double>(rng.range(-2, 2));
    const bool boxy = chance(rng, 40);
    for (int i = 0; i < m; ++i)
    {
        dvec g(N, 0.0);
        bool any = false;
        while (!any)
        {
            std::fill(g.begin(), g.end(), 0.0);
            if (boxy && i < 2 * n) g[static_cast<size_t>(i / 2)] = (i % 2) ? 1.0 : -1.0;
            else for (auto& v : g) v = static_cast<double>(rng.range(-3, 3));
            for (const auto v : g) any = any || v != 0.0;
        }
        P.G.push_back(g);
        P.h.push_back(static_cast<double>(ldot(g, z)) + static_cast<double>(chance(rng, 12) ? rng.range(-3, -1) : rng.range(0, 4)));
    }
    for (int i = 0; i < p; ++i)
    {
        dvec a(N, 0.0);
        bool any = false;
        while (!any) for (auto& v : a) { v = static_cast<double>(rng.range(-3, 3)); any = any || v != 0.0; }
        P.A.push_back(a);
        P.b.push_back(static_cast<double>(ldot(a, z)) + static_cast<double>(chance(rng, 10) ? rng.range(-2, 2) : 0));
    }
    if (m > 0 && chance(rng, 30))
    {
        P.x0.resize(N);
        for (size_t j = 0; j < N; ++j) P.x0[j] = z[j] + (chance(rng, 50) ? 0.0 : dy(rng, 4, 4.0));
    }
    return P;
}

// ---------------------------------------------------------------------------------------------------
// program::reduce on an equality system, next to the LU factorisation it is built from (same Eigen call)
// ---------------------------------------------------------------------------------------------------
long g_reduce_lines = 0;
bool g_emit_reduce  = true; // REST stage: only for well-scaled equality systems (the reduce oracles assume Eigen's numerical rank is the exact one)

std::string sidx(const std::vector<long>& v)
{
    if (v.empty()) return "-";
    std::string s;
    for (size_t i = 0; i < v.size(); ++i) { if (i) s += ","; s += std::to_string(v[i]); }
    return s;
}

void emit_reduce(const long id, const std::string& kind, const dmat& dA, const dvec& db, const int n)
{
    const auto A = to_matrix(dA, n);
    const auto b = to_vector(db);
    auto Ar = A;
    auto br = b;
    const bool ret = ::nano::program::reduce(Ar, br);
    std::vector<long> pi, qi;
    std::string sL = "-", sU = "-";
    long rank = 0;
    if (A.rows() > 0)
    {
        // exactly what ::reduce(matrix_t&) of src/program/util.cpp does with the stacked matrix
        auto       Ab = ::nano::stack<scalar_t>(A.rows(), A.cols() + 1, A.matrix(), b.vector());
        const auto dd = Ab.transpose().fullPivLu();
        rank          = static_cast<long>(dd.rank());
        const auto& LU = dd.matrixLU();
        const auto  nn = std::min(Ab.rows(), Ab.cols());
        const Eigen::MatrixXd L = LU.leftCols(nn).template triangularView<Eigen::UnitLower>().toDenseMatrix();
        const Eigen::MatrixXd U = LU.topRows(nn).template triangularView<Eigen::Upper>().toDenseMatrix();
        const auto Pd = dd.permutationP().toDenseMatrix();
        const auto Qd = dd.permutationQ().toDenseMatrix();
        pi.assign(static_cast<size_t>(Pd.rows()), -1);
        qi.assign(static_cast<size_t>(Qd.cols()), -1);
        for (Eigen::Index k = 0; k < Pd.rows(); ++k)
            for (Eigen::Index j = 0; j < Pd.cols(); ++j)
                if (Pd(k, j) != 0) pi[static_cast<size_t>(k)] = static_cast<long>(j); // (P X) row k = X row j
        for (Eigen::Index i = 0; i < Qd.rows(); ++i)
            for (Eigen::Index j = 0; j < Qd.cols(); ++j)
                if (Qd(i, j) != 0) qi[static_cast<size_t>(j)] = static_cast<long>(i); // (X Q) column j = X column i
        const auto emat = [](const Eigen::MatrixXd& M)
        {
            dmat d(static_cast<size_t>(M.rows()), dvec(static_cast<size_t>(M.cols())));
            for (Eigen::Index i = 0; i < M.rows(); ++i)
                for (Eigen::Index j = 0; j < M.cols(); ++j) d[static_cast<size_t>(i)][static_cast<size_t>(j)] = M(i, j);
            return smat(d);
        };
        sL = emat(L);
        sU = emat(U);
    }
    ++g_reduce_lines;
    std::cout << "REDUCE " << id << " kind=" << kind << " r=" << dA.size() << " n=" << n << " | " << smat(dA) << " | " << svec(db) << " | "
              << sidx(pi) << " | " << sidx(qi) << " | " << sL << " | " << sU << " | " << rank << " | " << (ret ? 1 : 0) << " | "
              << (Ar.rows() > 0 ? smat(Ar) : std::string("-")) << " | " << svec(br) << "\n";
}

// [A|b] systems with dependent rows, small integers (everything the library forms from them is exact in doubles where the
// pivots allow): target rank 0..min(rows, cols), duplicated rows, integer combinations, consistent and inconsistent
// right-hand sides, zero rows, more rows than columns
void gen_reduce(vh::rng_t& rng, const long id)
{
    const int  n    = static_cast<int>(rng.range(1, 5));
    const int  r    = chance(rng, 3) ? 0 : static_cast<int>(rng.range(1, 7));
    const auto N    = static_cast<size_t>(n);
    const int  rho  = (r == 0 || chance(rng, 8)) ? 0 : static_cast<int>(rng.range(1, std::min(r, n)));
    const int  mode = static_cast<int>(rng.range(0, 9)); // 0-1 entries in {-1,0,1}, 2-7 in -3..3, 8-9 halves/quarters
    const bool incons = chance(rng, 35);
    std::string kind = "rank" + std::to_string(rho);
    dmat base(static_cast<size_t>(rho), dvec(N, 0.0));
    for (auto& row : base)
        for (auto& v : row)
            v = mode <= 1 ? static_cast<double>(rng.range(-1, 1)) : mode <= 7 ? static_cast<double>(rng.range(-3, 3)) : dy(rng, 6, 4.0);
    dvec x0(N);
    for (auto& v : x0) v = static_cast<double>(rng.range(-3, 3));
    dmat A;
    dvec b;
    bool dup = false, comb = false, bad = false;
    for (int i = 0; i < r; ++i)
    {
        dvec row(N, 0.0);
        if (i < rho) row = base[static_cast<size_t>(i)];
        else if (rho > 0 && chance(rng, 35))
        {
            row = base[static_cast<size_t>(rng.range(0, rho - 1))];
            dup = true;
        }
        else if (rho > 0)
        {
            for (int k = 0; k < rho; ++k)
            {
                const double w = static_cast<double>(rng.range(-2, 2));
                for (size_t j = 0; j < N; ++j) row[j] += w * base[static_cast<size_t>(k)][j];
            }
            comb = true;
        }
        double rhs = static_cast<double>(ldot(row, x0));
        if (i >= rho && incons && chance(rng, 50)) { rhs += static_cast<double>(rng.range(1, 3)) * (chance(rng, 50) ? 1.0 : -1.0); bad = true; }
        A.push_back(row);
        b.push_back(rhs);
    }
    for (size_t i = A.size(); i-- > 1;)
    {
        const auto j = static_cast<size_t>(rng.range(0, static_cast<int64_t>(i)));
        std::swap(A[i], A[j]); std::swap(b[i], b[j]);
    }
    if (r == 0) kind = "empty";
    if (dup) kind += "+dup";
    if (comb) kind += "+comb";
    if (bad) kind += "+incons";
    emit_reduce(id, kind, A, b, n);
}

// ---------------------------------------------------------------------------------------------------
// one solve: print the SOLVE line, apply the direct oracle
// ---------------------------------------------------------------------------------------------------
struct counters_t
{
    long solves{0}, converged{0}, fails{0}, candidates{0}, reduced{0}, user_x0{0}, gap_checked{0}, unfeasible{0}, unbounded{0}, failed{0}, max_iters{0};
    std::map<std::string, long> kinds, conv_by_kind, sizes, qkinds;
    ld   worst_gap_ratio{0}, worst_feas_ratio{0};
};

std::string program_text(const prog_t& P, const long id)
{
    std::ostringstream o;
    o << "SOLVE " << id << " kind=" << P.kind << " base=" << (P.base < 0 ? std::string("-") : std::to_string(P.base))
      << " x0=" << (P.x0.empty() ? "def" : "user") << " expect=" << P.expect << " n=" << P.n << " | " << smat(P.Q) << " | "
      << svec(P.c) << " | " << smat(P.A) << " | " << svec(P.b) << " | " << smat(P.G) << " | " << svec(P.h);
    return o.str();
}

void fail(counters_t& C, const std::string& clause, const long id, const std::string& detail, const std::string& ptext)
{
    ++C.fails;
    std::cout << "FAIL " << clause << " id=" << id << " " << detail << " :: " << ptext << "\n";
}

void run_one(const prog_t& P, const long id, counters_t& C)
{
    const auto n = P.n;
    const auto N = static_cast<size_t>(n);
    const auto A = to_matrix(P.A, n), G = to_matrix(P.G, n);
    const auto b = to_vector(P.b), h = to_vector(P.h), c = to_vector(P.c);

    // what the solver's private program_t does first: reduce, then three normalisations (same library code / same norms)
    auto Ar = A;
    auto br = b;
    if (Ar.rows() > 0) ::nano::program::reduce(Ar, br);
    auto Qm = P.Q.empty() ? matrix_t{} : to_matrix(P.Q, n);
    const auto dQ = std::max({1e-3, Qm.size() > 0 ? Qm.lpNorm<2>() : 0.0, c.lpNorm<2>()});
    const auto dA = std::max({1e-3, Ar.size() > 0 ? Ar.lpNorm<2>() : 0.0, br.size() > 0 ? br.lpNorm<2>() : 0.0});
    const auto dG = std::max({1e-3, G.size() > 0 ? G.lpNorm<2>() : 0.0, h.size() > 0 ? h.lpNorm<2>() : 0.0});

    if (g_emit_reduce && !P.A.empty() && (P.kind.find("eq") != std::string::npos || id % 8 == 0)) emit_reduce(id, "solve:" + P.kind, P.A, P.b, n);

    const auto ptext = program_text(P, id);
    std::cout << ptext << " | " << smat(Ar) << " | " << svec(br) << " | " << vh::hexf(dQ) << "," << vh::hexf(dA) << ","
              << vh::hexf(dG) << " | " << svec(P.x0) << " | " << svec(P.xs) << " | " << svec(P.us) << " | " << svec(P.vs);

    const auto solver = solver_t{};
    const auto logger = make_null_logger();
    solver_state_t state;
    if (P.Q.empty())
    {
        const auto program = make_linear(c, make_equality(A, b), make_inequality(G, h));
        state = P.x0.empty() ? solver.solve(program, logger) : solver.solve(program, to_vector(P.x0), logger);
    }
    else
    {
        const auto program = make_quadratic(Qm, c, make_equality(A, b), make_inequality(G, h));
        state = P.x0.empty() ? solver.solve(program, logger) : solver.solve(program, to_vector(P.x0), logger);
    }
    const int status = static_cast<int>(state.m_status);
    std::cout << " = " << status << " " << state.m_iters << " " << vh::hexf(state.m_fx) << " " << vh::hexf(state.m_kkt) << " "
              << vh::hexf(state.m_eta) << " | " << svec(state.m_x) << " | " << svec(state.m_u) << " | " << svec(state.m_v) << " | "
              << svec(state.m_rdual) << " | " << svec(state.m_rprim) << "\n";

    ++C.solves;
    ++C.kinds[P.kind.substr(0, P.kind.find('+'))];
    ++C.sizes["n" + std::to_string(n)];
    ++C.qkinds[P.Q.empty() ? "lp" : "qp"];
    if (Ar.rows() != A.rows()) ++C.reduced;
    if (!P.x0.empty()) ++C.user_x0;
    if (state.m_status == solver_status::unfeasible) ++C.unfeasible;
    if (state.m_status == solver_status::unbounded) ++C.unbounded;
    if (state.m_status == solver_status::failed) ++C.failed;
    if (state.m_status == solver_status::max_iters) ++C.max_iters;
    if (state.m_status != solver_status::converged) return;
    ++C.converged;
    ++C.conv_by_kind[P.kind.substr(0, P.kind.find('+'))];

    // ---- direct oracle: the property text, on the program as the caller stated it ---------------------
    dvec x(N);
    for (size_t j = 0; j < N; ++j) x[j] = state.m_x(static_cast<tensor_size_t>(j));
    std::ostringstream st;
    st << "status=converged x=" << svec(x) << " fx=" << vh::hexf(state.m_fx);
    bool finite = std::isfinite(state.m_fx);
    for (const auto v : x) finite = finite && std::isfinite(v);
    if (!finite) { fail(C, "finite", id, st.str(), ptext); return; }
    if (P.expect == 2) fail(C, "converged-on-infeasible", id, st.str(), ptext);
    if (P.expect == 3) fail(C, "converged-on-unbounded", id, st.str(), ptext);
    ld binf = 0, hinf = 0;
    for (const auto v : P.b) binf = std::max(binf, std::fabs(static_cast<ld>(v)));
    for (const auto v : P.h) hinf = std::max(hinf, std::fabs(static_cast<ld>(v)));
    for (size_t i = 0; i < P.A.size(); ++i)
    {
        const ld dev = std::fabs(ldot(P.A[i], x) - static_cast<ld>(P.b[i]));
        C.worst_feas_ratio = std::max(C.worst_feas_ratio, dev / (1e-6L * (1 + binf)));
        if (!(dev <= 1e-6L * (1 + binf)))
        {
            ld terms = std::fabs(static_cast<ld>(P.b[i]));
            for (size_t j = 0; j < N; ++j) terms += std::fabs(static_cast<ld>(P.A[i][j]) * x[j]);
            std::ostringstream d;
            d << "row=" << i << " |a.x-b|=" << static_cast<double>(dev) << " tol=" << static_cast<double>(1e-6L * (1 + binf))
              << " terms=" << static_cast<double>(terms) << " " << st.str();
            // the deviation is below 512 ulp of the row's own terms (2^-44 * sum |a_j x_j|): the point is so far away that
            // double arithmetic cannot resolve the property's absolute tolerance -- defect candidate `converged at a huge
            // point`, reported separately (see notes/C04.md), not as a failure of the feasibility logic
            // equality-only path (solve_without_inequality): the rows are divided by dA = max(1e-3, |A|_F, |b|_2) and the KKT system is
            // accepted on a RELATIVE residual (isApprox): a `converged` answer only guarantees |A'x - b'|_2 <= epsilon2 |(c', b')|_2 on the
            // normalised rows (theorem C04_eq_converged_rprim_bound; enforced on the implementation as PROPFAIL eq-rprim-bound), i.e.
            // |a_i x - b_i| <= 1.42e-8 dA, which exceeds the property's tolerance 1e-6 (1 + |b|_inf) when |A|_F >> 1 + |b|_inf -- a deviation
            // inside the code's own acceptance bound is the defect candidate `equality-tolerance-vs-row-scale` (notes/C04.md), reported separately
            const ld cn = static_cast<ld>(c.lpNorm<2>()) / dQ, bn = (br.size() > 0 ? static_cast<ld>(br.lpNorm<2>()) : 0.0L) / dA;
            const ld accept = 1.001L * static_cast<ld>(epsilon2<scalar_t>()) * static_cast<ld>(dA) * std::sqrt(cn * cn + bn * bn);
            if (dev <= 0x1p-44L * terms) { ++C.candidates; std::cout << "CAND feasibility-at-rounding-level id=" << id << " clause=equality " << d.str() << " :: " << ptext << "\n"; }
            else if (P.G.empty() && dev <= accept)
            {
                ++C.candidates;
                std::cout << "CAND equality-tolerance-vs-row-scale id=" << id << " clause=equality " << d.str() << " dA=" << dA << " |a.x-b|/dA=" << static_cast<double>(dev / dA)
                          << " :: " << ptext << "\n";
            }
            else fail(C, "equality", id, d.str(), ptext);
            break;
        }
    }
    for (size_t i = 0; i < P.G.size(); ++i)
    {
        const ld dev = ldot(P.G[i], x) - static_cast<ld>(P.h[i]);
        C.worst_feas_ratio = std::max(C.worst_feas_ratio, dev / (1e-6L * (1 + hinf)));
        if (!(dev <= 1e-6L * (1 + hinf)))
        {
            ld terms = std::fabs(static_cast<ld>(P.h[i]));
            for (size_t j = 0; j < N; ++j) terms += std::fabs(static_cast<ld>(P.G[i][j]) * x[j]);
            std::ostringstream d;
            d << "row=" << i << " g.x-h=" << static_cast<double>(dev) << " tol=" << static_cast<double>(1e-6L * (1 + hinf))
              << " terms=" << static_cast<double>(terms) << " " << st.str();
            if (dev <= 0x1p-44L * terms) { ++C.candidates; std::cout << "CAND feasibility-at-rounding-level id=" << id << " clause=inequality " << d.str() << " :: " << ptext << "\n"; }
            else fail(C, "inequality", id, d.str(), ptext);
            break;
        }
    }
    // objective at x and the magnitude of its terms
    ld fx = 0, mag = 0, qf2 = 0, c2 = 0;
    for (size_t i = 0; i < N; ++i)
    {
        const ld t = static_cast<ld>(P.c[i]) * x[i];
        fx += t; mag += std::fabs(t); c2 += static_cast<ld>(P.c[i]) * P.c[i];
        if (!P.Q.empty())
            for (size_t j = 0; j < N; ++j)
            {
                const ld q = 0.5L * static_cast<ld>(x[i]) * P.Q[i][j] * x[j];
                fx += q; mag += std::fabs(q); qf2 += static_cast<ld>(P.Q[i][j]) * P.Q[i][j];
            }
    }
    const ld Mobj = std::max({1e-3L, std::sqrt(qf2), std::sqrt(c2)});
    if (!(std::fabs(static_cast<ld>(state.m_fx) - fx) <= 1e-6L * mag))
    {
        std::ostringstream d;
        d << "reported=" << vh::hexf(state.m_fx) << " at_x=" << vh::hexf(static_cast<double>(fx)) << " terms=" << static_cast<double>(mag)
          << " |reported-at_x|=" << static_cast<double>(std::fabs(static_cast<ld>(state.m_fx) - fx)) << " M=" << static_cast<double>(Mobj) << " " << st.str();
        // every term of the objective vanishes at the returned point to below the solver's own resolution (1e-10*M) and so
        // does the disagreement: this is the stale-trial-point effect (m_fx/m_eta/residuals are those of the last trial point
        // of a failed stage-2 line search, m_x is the previous iterate) -- reported as a defect candidate, not as a failure
        if (mag <= 1e-8L * Mobj && std::fabs(static_cast<ld>(state.m_fx) - fx) <= 1e-10L * Mobj)
        {
            ++C.candidates;
            std::cout << "CAND objective-stale-trial-point id=" << id << " " << d.str() << " :: " << ptext << "\n";
        }
        else fail(C, "objective", id, d.str(), ptext);
    }
    if (P.expect == 1)
    {
        ld fs = 0;
        for (size_t i = 0; i < N; ++i)
        {
            fs += static_cast<ld>(P.c[i]) * P.xs[i];
            if (!P.Q.empty()) for (size_t j = 0; j < N; ++j) fs += 0.5L * static_cast<ld>(P.xs[i]) * P.Q[i][j] * P.xs[j];
        }
        ld dx2 = 0, u1 = 0, v1 = 0;
        for (size_t i = 0; i < N; ++i) dx2 += (static_cast<ld>(x[i]) - P.xs[i]) * (static_cast<ld>(x[i]) - P.xs[i]);
        for (tensor_size_t i = 0; i < state.m_u.size(); ++i) u1 += std::fabs(static_cast<ld>(state.m_u(i)));
        for (tensor_size_t i = 0; i < state.m_v.size(); ++i) v1 += std::fabs(static_cast<ld>(state.m_v(i)));
        const ld M     = std::max({1e-3L, std::sqrt(qf2), std::sqrt(c2)});
        const ld bound = 1e-8L * M * (1 + std::sqrt(dx2) + u1 + v1);
        ++C.gap_checked;
        C.worst_gap_ratio = std::max(C.worst_gap_ratio, std::fabs(fx - fs) / bound);
        if (!(std::fabs(fx - fs) <= bound) && P.G.empty() && bound < 0x1p-53L * mag)
        {
            // equality-only stage: the bound is below half an ulp of the objective's own terms (not resolvable in double arithmetic, nor by
            // this oracle's long double): counted, not judged
            ++C.candidates;
            std::cout << "CAND gap-below-double-resolution id=" << id << " bound=" << static_cast<double>(bound) << " terms=" << static_cast<double>(mag) << " :: " << ptext << "\n";
        }
        else if (!(std::fabs(fx - fs) <= bound))
        {
            std::ostringstream d;
            d << "f(x)=" << vh::hexf(static_cast<double>(fx)) << " f*=" << vh::hexf(static_cast<double>(fs)) << " |f(x)-f*|=" << static_cast<double>(std::fabs(fx - fs))
              << " bound=" << static_cast<double>(bound) << " M=" << static_cast<double>(M) << " |x-x*|=" << static_cast<double>(std::sqrt(dx2))
              << " |u|1=" << static_cast<double>(u1) << " |v|1=" << static_cast<double>(v1) << " " << st.str();
            fail(C, "optimality-gap", id, d.str(), ptext);
        }
    }
}

std::string shist(const std::map<std::string, long>& m)
{
    std::string s;
    for (const auto& kv : m) { if (!s.empty()) s += ","; s += kv.first + ":" + std::to_string(kv.second); }
    return s.empty() ? "-" : s;
}

// ---------------------------------------------------------------------------------------------------
// ITER stage: the Newton iteration observed through the values hook (ev_program_start / ev_program_iter)
// ---------------------------------------------------------------------------------------------------
struct ipar_t
{
    double s0{0.999}, miu{10.0}, alpha{1e-2}, beta{0.9}, eps{1e-10}, eps0{1e-16};
    long   max_iters{300}, max_ls{50};
};

struct ievent_t
{
    int                 kind{0};
    std::vector<double> values;
};
std::vector<ievent_t> g_ievents;
long                  g_iter_lines = 0, g_iter_solves = 0;
int                   g_iter_maxn = 6;

void values_hook(int kind, const void*, const double* values, int count)
{
    if (kind == ::nano::verif::ev_program_start || kind == ::nano::verif::ev_program_iter)
    {
        g_ievents.push_back(ievent_t{kind, std::vector<double>(values, values + count)});
    }
}

std::string sseg(const std::vector<double>& v, size_t& pos, const size_t count)
{
    if (count == 0) return "-";
    std::string s;
    for (size_t i = 0; i < count; ++i) { if (i) s += ","; s += vh::hexf(v.at(pos + i)); }
    pos += count;
    return s;
}

std::string smatseg(const std::vector<double>& v, size_t& pos, const size_t rows, const size_t cols)
{
    // NB: tensors of libnano are row-major
    if (rows == 0 || cols == 0) return "-";
    std::string s;
    for (size_t i = 0; i < rows; ++i) { if (i) s += ";"; s += sseg(v, pos, cols); }
    return s;
}

std::string spar(const ipar_t& q)
{
    return vh::hexf(q.s0) + "," + vh::hexf(q.miu) + "," + vh::hexf(q.alpha) + "," + vh::hexf(q.beta) + "," + vh::hexf(q.eps) + "," +
           vh::hexf(q.eps0) + "," + std::to_string(q.max_iters) + "," + std::to_string(q.max_ls);
}

ipar_t parse_par(const std::string& s)
{
    ipar_t     q;
    const auto t = vh::split(s, ',');
    if (t.size() >= 8)
    {
        q.s0 = vh::parsef(t[0]); q.miu = vh::parsef(t[1]); q.alpha = vh::parsef(t[2]); q.beta = vh::parsef(t[3]);
        q.eps = vh::parsef(t[4]); q.eps0 = vh::parsef(t[5]); q.max_iters = std::atol(t[6].c_str()); q.max_ls = std::atol(t[7].c_str());
    }
    return q;
}

void run_iter(const prog_t& P, const ipar_t& q, const long id)
{
    const auto n = P.n;
    const auto A = to_matrix(P.A, n), G = to_matrix(P.G, n);
    const auto b = to_vector(P.b), h = to_vector(P.h), c = to_vector(P.c);
    auto       Qm = P.Q.empty() ? matrix_t{} : to_matrix(P.Q, n);

    std::cout << "ISOLVE " << id << " par=" << spar(q) << " :: " << program_text(P, id) << " | - | - | - | " << svec(P.x0) << " | - | - | -\n";

    auto solver                                   = solver_t{};
    solver.parameter("solver::s0")                = q.s0;
    solver.parameter("solver::miu")               = q.miu;
    solver.parameter("solver::alpha")             = q.alpha;
    solver.parameter("solver::beta")              = q.beta;
    solver.parameter("solver::epsilon")           = q.eps;
    solver.parameter("solver::epsilon0")          = q.eps0;
    solver.parameter("solver::max_iters")         = static_cast<int64_t>(q.max_iters);
    solver.parameter("solver::max_lsearch_iters") = static_cast<int64_t>(q.max_ls);
    const auto logger = make_null_logger();
    g_ievents.clear();
    ::nano::verif::g_values_hook.store(&values_hook);
    solver_state_t state;
    if (P.Q.empty())
    {
        const auto program = make_linear(c, make_equality(A, b), make_inequality(G, h));
        state = P.x0.empty() ? solver.solve(program, logger) : solver.solve(program, to_vector(P.x0), logger);
    }
    else
    {
        const auto program = make_quadratic(Qm, c, make_equality(A, b), make_inequality(G, h));
        state = P.x0.empty() ? solver.solve(program, logger) : solver.solve(program, to_vector(P.x0), logger);
    }
    ::nano::verif::g_values_hook.store(nullptr);
    ++g_iter_solves;

    long k = 0;
    for (const auto& ev : g_ievents)
    {
        const auto& v = ev.values;
        size_t      pos = 0;
        if (ev.kind == ::nano::verif::ev_program_start)
        {
            const auto nn = static_cast<size_t>(v.at(0)), mm = static_cast<size_t>(v.at(1)), pp = static_cast<size_t>(v.at(2));
            const auto qq = static_cast<size_t>(v.at(3));
            pos           = 4;
            std::cout << "IPROG " << id << " n=" << nn << " m=" << mm << " p=" << pp << " q=" << qq << " maxit=" << q.max_iters << " maxls=" << q.max_ls
                      << " eps=" << vh::hexf(q.eps) << " eps0=" << vh::hexf(q.eps0);
            std::cout << " | " << sseg(v, pos, 1);
            std::cout << " | " << smatseg(v, pos, qq * nn, nn);
            std::cout << " | " << sseg(v, pos, nn);
            std::cout << " | " << smatseg(v, pos, pp, nn);
            std::cout << " | " << sseg(v, pos, pp);
            std::cout << " | " << smatseg(v, pos, mm, nn);
            std::cout << " | " << sseg(v, pos, mm);
            std::cout << " | " << sseg(v, pos, nn) << "\n";
            if (pos != v.size()) std::cout << "FAIL hook-layout id=" << id << " ev_program_start carries " << v.size() << " values, " << pos << " expected\n";
        }
        else
        {
            const auto nn = static_cast<size_t>(v.at(0)), mm = static_cast<size_t>(v.at(1)), pp = static_cast<size_t>(v.at(2));
            const auto ex = static_cast<int>(v.at(3));
            pos           = 4;
            std::cout << "ITER " << id << " " << k++ << " exit=" << ex;
            std::cout << " | " << sseg(v, pos, 6);
            std::cout << " | " << sseg(v, pos, 4);
            for (int rep = 0; rep < 2; ++rep) // before: x u v rdual rcent rprim ; then dx du dv x' u' v'
            {
                std::cout << " | " << sseg(v, pos, nn);
                std::cout << " | " << sseg(v, pos, mm);
                std::cout << " | " << sseg(v, pos, pp);
                std::cout << " | " << sseg(v, pos, nn);
                std::cout << " | " << sseg(v, pos, mm);
                std::cout << " | " << sseg(v, pos, pp);
            }
            std::cout << " | " << sseg(v, pos, 3) << "\n";
            ++g_iter_lines;
            if (pos != v.size()) std::cout << "FAIL hook-layout id=" << id << " ev_program_iter carries " << v.size() << " values, " << pos << " expected\n";
        }
    }
    std::cout << "IFINAL " << id << " " << static_cast<int>(state.m_status) << " " << state.m_iters << " " << vh::hexf(state.m_fx) << " "
              << vh::hexf(state.m_eta) << " " << vh::hexf(state.m_ldlt_rcond) << " | " << svec(state.m_x) << " | " << svec(state.m_u) << " | "
              << svec(state.m_v) << " | " << svec(state.m_rdual) << " | " << svec(state.m_rprim) << " | " << svec(state.m_rcent) << "\n";
    g_ievents.clear();
}

double pick(vh::rng_t& rng, const std::vector<double>& values, const int first_percent)
{
    if (chance(rng, first_percent)) return values[0];
    return values[static_cast<size_t>(rng.range(0, static_cast<int64_t>(values.size()) - 1))];
}

ipar_t gen_par(vh::rng_t& rng)
{
    ipar_t q;
    q.s0        = pick(rng, {0.999, 0.99, 0.9, 0.5, 0.25, 0.9999}, 50);
    q.miu       = pick(rng, {10.0, 2.0, 1.5, 100.0, 1e4, 1.0625}, 50);
    q.alpha     = pick(rng, {1e-2, 1e-4, 0.1, 0.5, 0.9, 0.99}, 35);
    q.beta      = pick(rng, {0.9, 0.5, 0.1, 0.99, 0.7, 0.25}, 35);
    q.eps       = pick(rng, {1e-10, 1e-6, 1e-3, 1e-12, 0.0}, 60);
    q.eps0      = pick(rng, {1e-16, 0.0, 1e-12, 1e-8, 1e-5, 1e-3}, 40);
    q.max_iters = static_cast<long>(pick(rng, {300.0, 10.0, 25.0, 60.0}, 50));
    q.max_ls    = static_cast<long>(pick(rng, {10.0, 50.0, 20.0, 12.0}, 50));
    return q;
}

void iter_stage(const long count, const long chunk)
{
    vh::rng_t  rng0(vh::env_seed() ^ 0x17E8A7104ULL);
    const auto h0 = rng0.next();
    vh::rng_t  rng(h0 ^ (static_cast<uint64_t>(chunk) + 1U) * 0xD1B54A32D192ED03ULL);
    rng.next();
    long id = 500000000L + chunk * 1000000L;
    for (long k = 0; k < count; ++k)
    {
        const int  what = static_cast<int>(rng.range(0, 99));
        const auto q    = chance(rng, 20) ? ipar_t{} : gen_par(rng);
        if (what < 55)
        {
            auto P = gen_kkt(rng);
            // NB: the driver recomputes every pass in exact rationals (m different denominators per pass): small programs only
            while (P.n > g_iter_maxn || static_cast<int>(P.G.size()) > 2 * g_iter_maxn) P = gen_kkt(rng);
            const long b0 = id;
            run_iter(P, q, id++);
            if (chance(rng, 25)) run_iter(restate(rng, P, b0), gen_par(rng), id++);
            if (chance(rng, 6)) run_iter(make_infeasible(rng, P, b0), q, id++);
        }
        else if (what < 60)
        {
            auto P = gen_unbounded(rng);
            while (P.n > g_iter_maxn || static_cast<int>(P.G.size()) > 2 * g_iter_maxn) P = gen_unbounded(rng);
            run_iter(P, q, id++);
        }
        else run_iter(gen_tiny(rng), q, id++);
    }
    std::cout << "DONE iter_solves=" << g_iter_solves << " iter_lines=" << g_iter_lines << "\n";
}

// ---------------------------------------------------------------------------------------------------
// REST stage: programs without inequalities (solve_without_inequality), make_strictly_feasible / make_x0
// ---------------------------------------------------------------------------------------------------
long g_msf_lines = 0, g_mstart_lines = 0;

// equality-only programs: KKT-consistent (optimum known), rank-deficient restatements, inconsistent systems, unbounded directions,
// huge right-hand sides, equality rows much larger than their right-hand side, nearly dependent rows
prog_t gen_eq(vh::rng_t& rng)
{
    for (;;)
    {
        prog_t P;
        const int n  = chance(rng, 50) ? static_cast<int>(rng.range(1, 3)) : static_cast<int>(rng.range(1, 8));
        const int p  = static_cast<int>(rng.range(0, n));
        const auto N = static_cast<size_t>(n);
        P.n          = n;
        const int fam = static_cast<int>(rng.range(0, 99));
        P.kind       = "eq-kkt";
        const int qk = static_cast<int>(rng.range(0, 9)); // 0-1 LP, 2-6 full rank, 7-9 rank deficient
        P.xs.resize(N);
        for (auto& v : P.xs) v = dy(rng, 12, 4.0);
        P.A.assign(static_cast<size_t>(p), dvec(N, 0.0));
        P.b.assign(static_cast<size_t>(p), 0.0);
        P.vs.assign(static_cast<size_t>(p), 0.0);
        const bool mixed = chance(rng, 40);
        for (int i = 0; i < p; ++i)
        {
            const double s = mixed ? p2(static_cast<int>(rng.range(-7, 7))) : 1.0;
            bool any = false;
            while (!any)
                for (auto& v : P.A[static_cast<size_t>(i)]) { v = chance(rng, 25) ? 0.0 : dy(rng, 8, 4.0) * s; any = any || v != 0.0; }
            P.vs[static_cast<size_t>(i)] = dy(rng, 16, 4.0) / s;
        }
        if (qk >= 2)
        {
            const int r = (qk <= 6 || n == 1) ? n : static_cast<int>(rng.range(1, n - 1));
            P.Q         = make_Q(rng, n, r, mixed ? p2(static_cast<int>(rng.range(-3, 3))) : 1.0);
            bool any = false;
            for (const auto& row : P.Q) for (const auto v : row) any = any || v != 0.0;
            if (!any) P.Q.clear();
        }
        P.expect = 1;
        if (fam >= 40 && fam < 50 && !P.Q.empty())
        {
            // a tiny curvature added on the diagonal: regular but ill-conditioned KKT matrix
            const double t = p2(static_cast<int>(rng.range(-45, -15)));
            for (size_t i = 0; i < N; ++i) P.Q[i][i] += t;
            P.kind = "eq-illcond";
        }
        if (fam >= 50 && fam < 62 && p > 0)
        {
            // large right-hand side: the optimum is far away (NB: the property's optimality bound 1e-8 M (1 + ...) is absolute in x while the
            // error of a double-precision solve grows with |x*|^2: beyond 2^15 the bound is below what ANY double solve can deliver)
            const double t = p2(static_cast<int>(rng.range(8, 15)));
            for (auto& v : P.xs) v *= t;
            P.kind = "eq-hugeb";
        }
        if (fam >= 62 && fam < 76 && p > 0)
        {
            // equality rows much larger than their right-hand side (the divisor of the normalisation is |A|_F, the property's tolerance
            // is relative to 1 + |b|_inf)
            const double t = p2(static_cast<int>(rng.range(7, 30)));
            for (auto& r : P.A) for (auto& v : r) v *= t;
            for (auto& v : P.vs) v /= t;
            if (chance(rng, 50)) for (auto& v : P.xs) v = 0.0;
            else if (chance(rng, 50)) for (auto& v : P.xs) v *= p2(static_cast<int>(rng.range(-30, -7)));
            P.kind = "eq-hugeA";
        }
        for (int i = 0; i < p; ++i) P.b[static_cast<size_t>(i)] = static_cast<double>(ldot(P.A[static_cast<size_t>(i)], P.xs));
        bool okb = true;
        for (int i = 0; i < p; ++i) okb = okb && exact(ldot(P.A[static_cast<size_t>(i)], P.xs));
        if (!okb) continue;
        if (!set_kkt_c(P)) continue;
        if (fam >= 76 && fam < 84 && p > 0)
        {
            // a nearly dependent row: a_k + 2^-j e_q with a consistent right-hand side (the system stays solvable, x* is unchanged)
            const auto k = static_cast<size_t>(rng.range(0, p - 1));
            const auto q = static_cast<size_t>(rng.range(0, n - 1));
            dvec row = P.A[k];
            const double t = p2(static_cast<int>(rng.range(-45, -20)));
            row[q] += t;
            const ld rhs = ldot(row, P.xs);
            if (!exact(rhs) || row[q] == P.A[k][q]) continue;
            P.A.push_back(row); P.b.push_back(static_cast<double>(rhs)); P.vs.push_back(0.0);
            P.kind = "eq-neardep";
        }
        if (fam >= 84 && fam < 92 && p > 0)
        {
            // dependent rows with an inconsistent right-hand side: no feasible point at all
            const auto k = static_cast<size_t>(rng.range(0, p - 1));
            dvec row = P.A[k];
            double rhs = P.b[k];
            if (p > 1 && chance(rng, 50))
            {
                const auto k2 = static_cast<size_t>(rng.range(0, p - 1));
                const double w = static_cast<double>(rng.range(-2, 2));
                for (size_t j = 0; j < N; ++j) row[j] += w * P.A[k2][j];
                rhs += w * P.b[k2];
            }
            const double delta = static_cast<double>(rng.range(1, 64)) * p2(static_cast<int>(rng.range(-12, 0)));
            P.A.push_back(row); P.b.push_back(rhs + (chance(rng, 50) ? delta : -delta) * std::max(1.0, std::fabs(rhs)));
            P.expect = 2;
            P.xs.clear(); P.us.clear(); P.vs.clear();
            P.kind = "eq-incons";
        }
        else if (fam >= 92)
        {
            // unbounded: a coordinate direction without curvature, outside every equality row, with a negative cost
            const auto j = static_cast<size_t>(rng.range(0, n - 1));
            for (auto& r : P.A) r[j] = 0.0;
            for (size_t i = 0; i < P.Q.size(); ++i) { P.Q[i][j] = 0.0; P.Q[j][i] = 0.0; }
            if (P.c[j] == 0.0) P.c[j] = -1.0;
            P.c[j] = -std::fabs(P.c[j]);
            for (size_t i = 0; i < P.A.size(); ++i) P.b[i] = static_cast<double>(ldot(P.A[i], P.xs));
            P.expect = 3;
            P.xs.clear(); P.us.clear(); P.vs.clear();
            P.kind = "eq-unbnd";
        }
        return P;
    }
}

// linear_constrained_t::make_strictly_feasible of the library next to its trial loop recomputed with the same Eigen calls
void emit_msf(const prog_t& P, const long id)
{
    const auto n = P.n;
    const auto A = to_matrix(P.A, n), G = to_matrix(P.G, n);
    const auto b = to_vector(P.b), h = to_vector(P.h), c = to_vector(P.c);
    const auto program = make_linear(c, make_equality(A, b), make_inequality(G, h));
    const auto ret     = program.make_strictly_feasible();

    std::string trials;
    {
        // exactly what src/program/constrained.cpp does
        const auto& Ai     = program.m_ineq.m_A;
        const auto& bi     = program.m_ineq.m_b;
        const auto  decomp = (Ai.transpose() * Ai).ldlt();
        auto        x      = vector_t{Ai.cols()};
        bool        found  = false;
        const auto  eval   = [&](const scalar_t y)
        {
            x.vector() = decomp.solve(Ai.transpose() * (bi + vector_t::constant(Ai.rows(), -y)));
            if (!trials.empty()) trials += ";";
            trials += vh::hexf(y) + ":" + svec(x);
            if ((Ai * x.vector() - bi).maxCoeff() < 0.0) { found = true; return true; }
            return false;
        };
        static constexpr auto gamma = 0.3;
        auto ym = 1.0;
        auto yM = 1.0 / gamma;
        for (auto trial = 0; trial < 100; trial += 2)
        {
            if (eval(ym) || eval(yM)) break;
            ym *= gamma;
            yM /= gamma;
        }
        (void)found;
    }
    ++g_msf_lines;
    std::cout << "MSF " << id << " kind=" << P.kind << " n=" << n << " m=" << P.G.size() << " ret=" << (ret ? 1 : 0)
              << " strict_known=" << ((!P.din.empty() && !P.xs.empty()) ? 1 : 0) << " | " << smat(P.G) << " | " << svec(P.h) << " | "
              << (ret ? svec(ret.value()) : std::string("-")) << " | " << (trials.empty() ? std::string("-") : trials) << "\n";
}

// solve(program) without a starting point, observed through ev_program_start: which x0 did make_x0 hand to solve_with_inequality?
void emit_mstart(const prog_t& P, const long id)
{
    const auto n = P.n;
    const auto A = to_matrix(P.A, n), G = to_matrix(P.G, n);
    const auto b = to_vector(P.b), h = to_vector(P.h), c = to_vector(P.c);
    auto       Qm = P.Q.empty() ? matrix_t{} : to_matrix(P.Q, n);
    const auto solver = solver_t{};
    const auto logger = make_null_logger();
    g_ievents.clear();
    ::nano::verif::g_values_hook.store(&values_hook);
    solver_state_t state;
    if (P.Q.empty()) state = solver.solve(make_linear(c, make_equality(A, b), make_inequality(G, h)), logger);
    else state = solver.solve(make_quadratic(Qm, c, make_equality(A, b), make_inequality(G, h)), logger);
    ::nano::verif::g_values_hook.store(nullptr);
    std::string x0 = "-";
    int started = 0;
    for (const auto& ev : g_ievents)
    {
        if (ev.kind != ::nano::verif::ev_program_start) continue;
        const auto& v = ev.values;
        const auto nn = static_cast<size_t>(v.at(0)), mm = static_cast<size_t>(v.at(1)), pp = static_cast<size_t>(v.at(2)), qq = static_cast<size_t>(v.at(3));
        size_t pos = 5 + qq * nn * nn + nn + pp * nn + pp + mm * nn + mm;
        if (pos + nn != v.size()) { std::cout << "FAIL hook-layout id=" << id << " ev_program_start carries " << v.size() << " values\n"; continue; }
        x0 = sseg(v, pos, nn);
        started = 1;
    }
    g_ievents.clear();
    ++g_mstart_lines;
    std::cout << "MSTART " << id << " expect=" << P.expect << " status=" << static_cast<int>(state.m_status) << " iters=" << state.m_iters
              << " started=" << started << " | " << x0 << "\n";
}

void rest_one(prog_t P, const long id, counters_t& C)
{
    P.x0.clear();
    // NB: the ill-scaled families (right-hand sides 2^40 times the rows, rows dependent up to 2^-45) are outside the hypothesis of the
    //     reduce theorems by construction (Eigen's numerical rank is below the exact rank): no REDUCE line for them
    g_emit_reduce = P.kind == "eq-kkt" || P.kind == "eq-incons" || P.kind == "eq-unbnd" || P.kind == "tiny";
    if (P.G.empty()) { run_one(P, id, C); g_emit_reduce = true; return; }
    g_emit_reduce = true;
    std::cout << "RPROG " << id << " :: " << program_text(P, id) << " | - | - | - | - | " << svec(P.xs) << " | " << svec(P.us) << " | " << svec(P.vs) << "\n";
    emit_msf(P, id);
    emit_mstart(P, id);
}

// programs with a strictly feasible point for which the least-squares candidates of make_strictly_feasible all fail: one variable,
// rows x <= h1, -k x <= h2, x <= h3 (the candidate does not depend on y when the rows sum to zero)
prog_t gen_msf_blind(vh::rng_t& rng)
{
    prog_t P;
    P.kind = "msf-blind";
    P.n    = 1;
    const double k = chance(rng, 50) ? 2.0 : 4.0;
    P.G = {{1.0}, {-k}, {k - 1.0}};
    const double lo = -static_cast<double>(rng.range(1, 4)), hi = 0.0, far = static_cast<double>(rng.range(4, 40));
    P.h = {hi, -k * lo, (k - 1.0) * far};
    P.c = {chance(rng, 50) ? -1.0 : 1.0};
    P.expect = 1;
    P.xs = {P.c[0] < 0 ? hi : lo};
    P.us = {P.c[0] < 0 ? 1.0 : 0.0, P.c[0] < 0 ? 0.0 : 1.0 / k, 0.0};
    P.din = {P.c[0] < 0 ? -0.5 : 0.5};
    return P;
}

// one variable, two parallel rows whose first least-squares candidate (y = 1) lies EXACTLY on a boundary: x <= a, x <= a + 2 gives
// x(1) = a with slacks (0, -2) -- it must be rejected (strictly inside is required), the next distance is accepted
prog_t gen_msf_edge(vh::rng_t& rng)
{
    prog_t P;
    P.kind = "msf-edge";
    P.n    = 1;
    const double s = chance(rng, 50) ? 1.0 : -1.0;
    const double a = static_cast<double>(rng.range(-3, 3));
    P.G = {{s}, {s}};
    P.h = {a, a + 2.0};
    if (chance(rng, 50)) std::swap(P.h[0], P.h[1]);
    P.c = {-s};
    P.expect = 0;
    return P;
}

void rest_stage(const std::string& tier, const long count, const long chunk)
{
    vh::rng_t  rng0(vh::env_seed() ^ 0x4E57C04ULL);
    const auto h0 = rng0.next();
    vh::rng_t  rng(h0 ^ (static_cast<uint64_t>(chunk) + 1U) * 0xD1B54A32D192ED03ULL);
    rng.next();
    counters_t C;
    long id = 700000000L + chunk * 1000000L;
    (void)tier;
    for (long k = 0; k < count; ++k)
    {
        const int what = static_cast<int>(rng.range(0, 99));
        if (what < 45)
        {
            const auto P  = gen_eq(rng);
            const long b0 = id;
            rest_one(P, id++, C);
            if (P.expect == 1 && !P.A.empty() && chance(rng, 35)) rest_one(restate(rng, P, b0), id++, C);
        }
        else if (what < 75)
        {
            const auto P  = gen_kkt(rng);
            const long b0 = id;
            rest_one(P, id++, C);
            if (chance(rng, 30)) rest_one(restate(rng, P, b0), id++, C);
            if (chance(rng, 10)) rest_one(make_infeasible(rng, P, b0), id++, C);
        }
        else if (what < 79) rest_one(gen_msf_blind(rng), id++, C);
        else if (what < 80) rest_one(gen_msf_edge(rng), id++, C);
        else
        {
            auto P = gen_tiny(rng);
            rest_one(P, id++, C);
        }
    }
    std::cout << "DONE solves=" << C.solves << " converged=" << C.converged << " fails=" << C.fails << " candidates=" << C.candidates
              << " unfeasible=" << C.unfeasible << " unbounded=" << C.unbounded << " failed=" << C.failed << " kinds=" << shist(C.kinds)
              << " converged_by_kind=" << shist(C.conv_by_kind) << " msf_lines=" << g_msf_lines << " mstart_lines=" << g_mstart_lines << "\n";
}

prog_t parse_program(const std::string& text)
{
    // "SOLVE id kind=.. base=.. x0=.. expect=.. n=.. | Q | c | A | b | G | h [| Ar | br | d | x0 | xs | us | vs]"
    prog_t     P;
    const auto parts = vh::split(text, '|');
    if (parts.size() < 7) { std::cerr << "bad replay text\n"; std::exit(2); }
    for (const auto& tok : vh::split(trim(parts[0]), ' '))
    {
        if (tok.rfind("kind=", 0) == 0) P.kind = tok.substr(5);
        if (tok.rfind("expect=", 0) == 0) P.expect = std::atoi(tok.c_str() + 7);
        if (tok.rfind("n=", 0) == 0) P.n = std::atoi(tok.c_str() + 2);
    }
    P.Q = pmat(trim(parts[1])); P.c = pvec(trim(parts[2])); P.A = pmat(trim(parts[3])); P.b = pvec(trim(parts[4]));
    P.G = pmat(trim(parts[5])); P.h = pvec(trim(parts[6]));
    if (parts.size() >= 14)
    {
        P.x0 = pvec(trim(parts[10])); P.xs = pvec(trim(parts[11])); P.us = pvec(trim(parts[12])); P.vs = pvec(trim(parts[13]));
    }
    if (P.xs.empty() && P.expect == 1) P.expect = 0;
    return P;
}
} // namespace

int main(int argc, char** argv)
{
    std::setvbuf(stdout, nullptr, _IOLBF, 0);
    const std::string mode = argc > 1 ? argv[1] : "quick";
    counters_t        C;
    const auto        eps  = solver_t{}.parameter("solver::epsilon").value<scalar_t>();
    std::cout << "CONST eps=" << vh::hexf(eps) << " eps2=" << vh::hexf(epsilon2<scalar_t>()) << " minnorm=" << vh::hexf(1e-3) << "\n";
    if (mode == "replay" && argc > 2)
    {
        const auto P = parse_program(argv[2]);
        run_one(P, 0, C);
        std::cout << "DONE solves=" << C.solves << " converged=" << C.converged << " fails=" << C.fails << "\n";
        return 0;
    }
    if (mode == "iterreplay" && argc > 3)
    {
        run_iter(parse_program(argv[2]), parse_par(argv[3]), 0);
        std::cout << "DONE iter_solves=" << g_iter_solves << " iter_lines=" << g_iter_lines << "\n";
        return 0;
    }
    if (mode == "iter")
    {
        const std::string tier = argc > 2 ? argv[2] : "quick";
        g_iter_maxn = tier == "thorough" ? 8 : 6;
        iter_stage(argc > 3 ? std::atol(argv[3]) : (tier == "thorough" ? 2000 : 250), argc > 4 ? std::atol(argv[4]) : 0);
        return 0;
    }
    if (mode == "rest")
    {
        const std::string tier = argc > 2 ? argv[2] : "quick";
        rest_stage(tier, argc > 3 ? std::atol(argv[3]) : (tier == "thorough" ? 4000 : 1200), argc > 4 ? std::atol(argv[4]) : 0);
        return 0;
    }
    if (mode == "restreplay" && argc > 2)
    {
        rest_one(parse_program(argv[2]), 0, C);
        std::cout << "DONE solves=" << C.solves << " converged=" << C.converged << " fails=" << C.fails << " msf_lines=" << g_msf_lines << " mstart_lines=" << g_mstart_lines << "\n";
        return 0;
    }
    if (mode == "reduce" && argc > 4)
    {
        // c04_program reduce <n> "<A>" "<b>"
        const int  n = std::atoi(argv[2]);
        emit_reduce(0, "replay", pmat(argv[3]), pvec(argv[4]), n);
        std::cout << "DONE solves=0 converged=0 fails=0 reduce_lines=" << g_reduce_lines << "\n";
        return 0;
    }
    const long count = argc > 2 ? std::atol(argv[2]) : (mode == "thorough" ? 2000 : 260);
    const long chunk = argc > 3 ? std::atol(argv[3]) : 0;
    // NB: splitmix64 states that differ by a multiple of its increment give shifted copies of the same stream:
    //     hash the seed and the chunk id through the generator itself first
    vh::rng_t  rng0(vh::env_seed() ^ 0xC04C04C04ULL);
    const auto h0 = rng0.next();
    vh::rng_t  rng1(h0 ^ (static_cast<uint64_t>(chunk) + 1U) * 0xD1B54A32D192ED03ULL);
    rng1.next();
    vh::rng_t  rng(rng1.next() ^ (h0 >> 7));
    long       id = chunk * 1000000L;
    {
        // equality systems for program::reduce (own stream, so that the programs below are the same as before)
        vh::rng_t  rngr(rng1.next() ^ 0x5ED0CEULL);
        const long nred = std::max<long>(200, count / 2);
        for (long k = 0; k < nred; ++k) gen_reduce(rngr, 900000000L + chunk * 1000000L + k);
    }
    for (long k = 0; k < count; ++k)
    {
        const int what = static_cast<int>(rng.range(0, 99));
        if (what < 45)
        {
            const auto P  = gen_kkt(rng);
            const long b0 = id;
            run_one(P, id++, C);
            if (chance(rng, 45)) run_one(restate(rng, P, b0), id++, C);
            if (chance(rng, 12)) run_one(make_infeasible(rng, P, b0), id++, C);
        }
        else if (what < 52) run_one(gen_unbounded(rng), id++, C);
        else run_one(gen_tiny(rng), id++, C);
    }
    std::cout << "DONE solves=" << C.solves << " converged=" << C.converged << " fails=" << C.fails << " candidates=" << C.candidates << " reduced=" << C.reduced
              << " user_x0=" << C.user_x0 << " gap_checked=" << C.gap_checked << " unfeasible=" << C.unfeasible << " unbounded=" << C.unbounded
              << " failed=" << C.failed << " max_iters=" << C.max_iters << " worst_gap_ratio=" << static_cast<double>(C.worst_gap_ratio)
              << " worst_feas_ratio=" << static_cast<double>(C.worst_feas_ratio) << " kinds=" << shist(C.kinds)
              << " converged_by_kind=" << shist(C.conv_by_kind) << " sizes=" << shist(C.sizes) << " objective=" << shist(C.qkinds) << " reduce_lines=" << g_reduce_lines << "\n";
    return 0;
}
