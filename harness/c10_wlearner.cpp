// C10 harness: fits every weak learner of the real library on small random datasets (dyadic feature values and gradients,
// ties, missing values, 1..3 outputs, arbitrary sample lists incl. repetitions, 1..16 threads) and checks the clauses of C10
// directly on the implementation (FAIL lines, independent of the Coq model); prints everything the model driver needs.
//
// Output (doubles as C hex floats, nan = missing):
//   CONST floor=<eps*1e3>
//   CASE <id> n=<selected samples> no=<outputs> nf=<features> threads=<t> kind=<generator kinds>
//   F <id> <feature> S v1,v2,...        gathered scalar column            F <id> <feature> C h1,h2,...   class hashes (-1 = missing)
//   F <id> <feature> X                  structured feature (ignored by every weak learner)
//   G <id> g11,g12;g21,g22;...          gathered gradients (sample;sample), residual = -gradient
//   FIT <id> <learner> <criterion> <score|nofit> <W>           W = serialised fitted parameters (see wstr)
//   PRED <id> <learner> <criterion> | p11,p12;p21,...          predictions from zero for the selected samples
//   SPLIT <id> <learner> <criterion> | g1,g2,...               groups of the selected samples
//   SCALE <id> <learner> <criterion> | s1,s2,.. | p11,...      predictions after scale(s)
//   MERGE <id> | W;W;... | W;W;...                             learners before / after wlearner::merge
//   SUB <id> <learner> <criterion> | p1,p2,.. | g1,g2,..       groups of a sub-list (positions of the fit list; `-` = empty list)
//   CRASH-CONTEXT ...    (signal handler) the operation during which the process died
//   OBS <what> ...       observations outside the clauses of C10 (reported in the evidence, never a violation)
//   FAIL <clause> <id> ...                                     direct property violations
//   DONE cases=<n> ...
// Usage: c10_wlearner quick|thorough [cases [chunk [only_case]]]
#include "common.h"
#include <algorithm>
#include <csignal>
#include <cstring>
#include <unistd.h>
#include <map>
#include <nano/dataset.h>
#include <nano/dataset/hash.h>
#include <nano/dataset/iterator.h>
#include <nano/datasource.h>
#include <nano/generator/elemwise_identity.h>
#include <nano/verif.h>
#include <nano/wlearner/affine.h>
#include <nano/wlearner/criterion.h>
#include <nano/wlearner/dtree.h>
#include <nano/wlearner/hinge.h>
#include <nano/wlearner/stump.h>
#include <nano/wlearner/table.h>
#include <nano/wlearner/util.h>
#include <set>

using namespace nano;

namespace
{
using ld = long double;

enum kind_t
{
    k_scalar = 0,
    k_sclass,
    k_mclass,
    k_struct
};

struct feat_t
{
    kind_t                           kind{k_scalar};
    int                              classes{1};
    std::vector<uint8_t>             present; // per sample
    std::vector<double>              sval;    // scalar value
    std::vector<int>                 label;   // sclass label
    std::vector<std::vector<int8_t>> hits;    // mclass hits
};

struct case_t
{
    tensor_size_t       rows{0};
    int                 outs{1};
    std::vector<feat_t> feats;
};

class c10_datasource_t final : public datasource_t
{
public:
    explicit c10_datasource_t(const case_t& c)
        : datasource_t("c10")
        , m_case(&c)
    {
    }

    rdatasource_t clone() const override { return std::make_unique<c10_datasource_t>(*this); }

private:
    void do_load() override
    {
        const auto& c = *m_case;
        features_t  features;
        for (size_t f = 0; f < c.feats.size(); ++f)
        {
            const auto& ft   = c.feats[f];
            const auto  name = "f" + std::to_string(f);
            strings_t   labels;
            for (int l = 0; l < ft.classes; ++l)
            {
                labels.push_back("l" + std::to_string(l));
            }
            switch (ft.kind)
            {
            case k_sclass: features.push_back(feature_t{name}.sclass(labels)); break;
            case k_mclass: features.push_back(feature_t{name}.mclass(labels)); break;
            case k_scalar: features.push_back(feature_t{name}.scalar(feature_type::float64)); break;
            default: features.push_back(feature_t{name}.scalar(feature_type::float64, make_dims(2, 1, 1))); break;
            }
        }
        features.push_back(feature_t{"target"}.scalar(feature_type::float64, make_dims(c.outs, 1, 1)));
        resize(c.rows, features, c.feats.size());
        for (size_t f = 0; f < c.feats.size(); ++f)
        {
            const auto& ft = c.feats[f];
            const auto  fi = static_cast<tensor_size_t>(f);
            for (tensor_size_t s = 0; s < c.rows; ++s)
            {
                const auto us = static_cast<size_t>(s);
                if (ft.present[us] == 0U)
                {
                    continue;
                }
                switch (ft.kind)
                {
                case k_sclass: set(s, fi, static_cast<int32_t>(ft.label[us])); break;
                case k_mclass:
                {
                    tensor_mem_t<int8_t, 1> hits(ft.classes);
                    for (int l = 0; l < ft.classes; ++l)
                    {
                        hits(l) = ft.hits[us][static_cast<size_t>(l)];
                    }
                    set(s, fi, hits);
                    break;
                }
                case k_scalar: set(s, fi, ft.sval[us]); break;
                default:
                {
                    tensor_mem_t<scalar_t, 3> vals(2, 1, 1);
                    vals(0) = ft.sval[us];
                    vals(1) = -ft.sval[us];
                    set(s, fi, vals);
                    break;
                }
                }
            }
        }
        tensor_mem_t<scalar_t, 3> tv(c.outs, 1, 1);
        tv.zero();
        for (tensor_size_t s = 0; s < c.rows; ++s)
        {
            set(s, static_cast<tensor_size_t>(c.feats.size()), tv);
        }
    }

    const case_t* m_case;
};

// ---- counters ---------------------------------------------------------------------------------------------------
struct counters_t
{
    long cases{0}, fits{0}, nofits{0}, fails{0}, obs{0}, optimal_checks{0}, reproduce_checks{0}, consistency_checks{0};
    long dstep_excluded{0}, merges{0}, merged_pairs{0}, scale_checks{0}, depth1_checks{0}, thread_checks{0}, missing_samples{0}, tie_cases{0};
    std::map<std::string, long> learners, kinds, subsets, nhist, obs_kinds;
} cnt;

int g_fail_printed = 0;

void fail(const std::string& clause, const std::string& id, const std::string& detail)
{
    cnt.fails++;
    if (++g_fail_printed <= 60)
    {
        std::printf("FAIL %s %s %s\n", clause.c_str(), id.c_str(), detail.c_str());
    }
}

void obs(const std::string& what, const std::string& id, const std::string& detail)
{
    cnt.obs++;
    cnt.obs_kinds[what]++;
    if (cnt.obs_kinds[what] <= 3)
    {
        std::printf("OBS %s %s %s\n", what.c_str(), id.c_str(), detail.c_str());
    }
}

// ---- serialisation ------------------------------------------------------------------------------------------------
std::string hexs(const double* p, tensor_size_t n)
{
    std::string s;
    for (tensor_size_t i = 0; i < n; ++i)
    {
        if (i) s += ",";
        s += vh::hexf(p[i]);
    }
    return s;
}

std::string tables_str(const tensor4d_t& t)
{
    std::string s;
    const auto  per = t.size<0>() > 0 ? t.size() / t.size<0>() : 0;
    for (tensor_size_t i = 0; i < t.size<0>(); ++i)
    {
        if (i) s += "/";
        s += hexs(t.data() + i * per, per);
    }
    return s;
}

// W: affine:f:w/b   stump:f:thr:lo/hi   hinge:f:thr:left|right:w/b   table:f:hashes:h2t:t/t/..   dtree:f_thr_next_table~..:t/t/..
std::string wstr(const wlearner_t& w)
{
    if (const auto* p = dynamic_cast<const affine_wlearner_t*>(&w))
    {
        return "affine:" + std::to_string(p->feature()) + ":" + tables_str(p->tables());
    }
    if (const auto* p = dynamic_cast<const stump_wlearner_t*>(&w))
    {
        return "stump:" + std::to_string(p->feature()) + ":" + vh::hexf(p->threshold()) + ":" + tables_str(p->tables());
    }
    if (const auto* p = dynamic_cast<const hinge_wlearner_t*>(&w))
    {
        return "hinge:" + std::to_string(p->feature()) + ":" + vh::hexf(p->threshold()) + ":" +
               (p->hinge() == hinge_type::left ? "left" : "right") + ":" + tables_str(p->tables());
    }
    if (const auto* p = dynamic_cast<const table_wlearner_t*>(&w))
    {
        std::string hs, hm;
        for (tensor_size_t i = 0; i < p->hashes().size(); ++i)
        {
            if (i) hs += ",";
            hs += std::to_string(static_cast<unsigned long long>(p->hashes()(i)));
        }
        for (tensor_size_t i = 0; i < p->hash2tables().size(); ++i)
        {
            if (i) hm += ",";
            hm += std::to_string(static_cast<long long>(p->hash2tables()(i)));
        }
        return "table:" + std::to_string(p->feature()) + ":" + hs + ":" + hm + ":" + tables_str(p->tables());
    }
    if (const auto* p = dynamic_cast<const dtree_wlearner_t*>(&w))
    {
        std::string ns;
        for (size_t i = 0; i < p->nodes().size(); ++i)
        {
            const auto& n = p->nodes()[i];
            if (i) ns += "~";
            ns += std::to_string(n.m_feature) + "_" + vh::hexf(n.m_threshold) + "_" + std::to_string(n.m_next) + "_" +
                  std::to_string(n.m_table);
        }
        return "dtree:" + ns + ":" + tables_str(p->tables());
    }
    return "unknown";
}

const tensor4d_t* tables_of(const wlearner_t& w)
{
    if (const auto* p = dynamic_cast<const single_feature_wlearner_t*>(&w)) return &p->tables();
    if (const auto* p = dynamic_cast<const dtree_wlearner_t*>(&w)) return &p->tables();
    return nullptr;
}

// ---- the gathered problem (the harness' own view of the selected samples) ------------------------------------------
struct gathered_t
{
    tensor_size_t                         n{0};   // selected samples
    int                                   no{1};  // outputs
    std::vector<int>                      kind;   // per dataset feature
    std::vector<std::vector<double>>      x;      // scalar columns (nan = missing)
    std::vector<std::vector<long long>>   key;    // class columns: own key (-1 = missing): label or bit mask
    std::vector<std::vector<std::string>> hash;   // class columns: the library's hash as decimal string (-1 = missing)
    std::vector<std::vector<ld>>          r;      // residuals [sample][output]
    ld                                    sumr2{0};
};

struct best_t
{
    ld   rss{-1};
    bool any{false};
    void take(ld v)
    {
        if (!any || v < rss)
        {
            rss = v;
            any = true;
        }
    }
};

ld missing_rss(const gathered_t& g, const std::vector<uint8_t>& miss)
{
    ld s = 0;
    for (tensor_size_t i = 0; i < g.n; ++i)
    {
        if (miss[static_cast<size_t>(i)])
        {
            for (int o = 0; o < g.no; ++o) s += g.r[static_cast<size_t>(i)][static_cast<size_t>(o)] * g.r[static_cast<size_t>(i)][static_cast<size_t>(o)];
        }
    }
    return s;
}

// RSS of the best constant on the subset `in` (per output), zero prediction elsewhere is NOT included
ld rss_mean(const gathered_t& g, const std::vector<uint8_t>& in)
{
    ld total = 0;
    for (int o = 0; o < g.no; ++o)
    {
        ld s = 0, c = 0;
        for (tensor_size_t i = 0; i < g.n; ++i)
            if (in[static_cast<size_t>(i)])
            {
                s += g.r[static_cast<size_t>(i)][static_cast<size_t>(o)];
                c += 1;
            }
        const ld m = c > 0 ? s / c : 0;
        for (tensor_size_t i = 0; i < g.n; ++i)
            if (in[static_cast<size_t>(i)])
            {
                const ld d = g.r[static_cast<size_t>(i)][static_cast<size_t>(o)] - m;
                total += d * d;
            }
    }
    return total;
}

ld rss_zero(const gathered_t& g, const std::vector<uint8_t>& in)
{
    return missing_rss(g, in);
}

std::vector<double> thresholds_of(const std::vector<double>& x)
{
    std::vector<double> v;
    for (double a : x)
        if (std::isfinite(a)) v.push_back(a);
    std::sort(v.begin(), v.end());
    v.erase(std::unique(v.begin(), v.end()), v.end());
    std::vector<double> t;
    for (size_t i = 0; i + 1 < v.size(); ++i) t.push_back(0.5 * (v[i] + v[i + 1]));
    return t;
}

// brute force over the hypothesis classes (two-pass sums in long double, partitions by comparing with the threshold)
best_t brute_stump(const gathered_t& g)
{
    best_t b;
    for (size_t f = 0; f < g.kind.size(); ++f)
    {
        if (g.kind[f] != k_scalar) continue;
        const auto&          x = g.x[f];
        std::vector<uint8_t> miss(x.size()), lo(x.size()), hi(x.size());
        for (size_t i = 0; i < x.size(); ++i) miss[i] = !std::isfinite(x[i]);
        const ld mr = missing_rss(g, miss);
        for (double thr : thresholds_of(x))
        {
            for (size_t i = 0; i < x.size(); ++i)
            {
                lo[i] = !miss[i] && x[i] < thr;
                hi[i] = !miss[i] && !(x[i] < thr);
            }
            b.take(mr + rss_mean(g, lo) + rss_mean(g, hi));
        }
    }
    return b;
}

best_t brute_hinge(const gathered_t& g)
{
    best_t b;
    for (size_t f = 0; f < g.kind.size(); ++f)
    {
        if (g.kind[f] != k_scalar) continue;
        const auto& x = g.x[f];
        for (double thr : thresholds_of(x))
        {
            for (int dir = 0; dir < 2; ++dir)
            {
                ld total = 0;
                for (int o = 0; o < g.no; ++o)
                {
                    ld num = 0, den = 0;
                    for (size_t i = 0; i < x.size(); ++i)
                    {
                        const bool active = std::isfinite(x[i]) && ((dir == 0) ? (x[i] < thr) : !(x[i] < thr));
                        if (active)
                        {
                            const ld u = static_cast<ld>(x[i]) - static_cast<ld>(thr);
                            num += g.r[i][static_cast<size_t>(o)] * u;
                            den += u * u;
                        }
                    }
                    const ld beta = den > 0 ? num / den : 0;
                    for (size_t i = 0; i < x.size(); ++i)
                    {
                        const bool active = std::isfinite(x[i]) && ((dir == 0) ? (x[i] < thr) : !(x[i] < thr));
                        const ld   p      = active ? beta * (static_cast<ld>(x[i]) - static_cast<ld>(thr)) : 0;
                        const ld   d      = g.r[i][static_cast<size_t>(o)] - p;
                        total += d * d;
                    }
                }
                b.take(total);
            }
        }
    }
    return b;
}

best_t brute_affine(const gathered_t& g)
{
    best_t b;
    for (size_t f = 0; f < g.kind.size(); ++f)
    {
        if (g.kind[f] != k_scalar) continue;
        const auto& x = g.x[f];
        if (thresholds_of(x).empty()) continue; // fewer than two distinct values: the code skips the feature (zero determinant)
        ld total = 0;
        for (int o = 0; o < g.no; ++o)
        {
            ld sx = 0, sr = 0, c = 0;
            for (size_t i = 0; i < x.size(); ++i)
                if (std::isfinite(x[i]))
                {
                    sx += x[i];
                    sr += g.r[i][static_cast<size_t>(o)];
                    c += 1;
                }
            const ld mx = sx / c, mr = sr / c;
            ld       sxx = 0, sxr = 0;
            for (size_t i = 0; i < x.size(); ++i)
                if (std::isfinite(x[i]))
                {
                    sxx += (x[i] - mx) * (x[i] - mx);
                    sxr += (x[i] - mx) * (g.r[i][static_cast<size_t>(o)] - mr);
                }
            const ld w = sxr / sxx, bb = mr - w * mx;
            for (size_t i = 0; i < x.size(); ++i)
            {
                const ld p = std::isfinite(x[i]) ? w * x[i] + bb : 0;
                const ld d = g.r[i][static_cast<size_t>(o)] - p;
                total += d * d;
            }
        }
        b.take(total);
    }
    return b;
}

// dense: every key its mean; `need_bin`: features without any present value give no candidate (k-best / k-split / dstep)
best_t brute_dense(const gathered_t& g, bool need_bin)
{
    best_t b;
    for (size_t f = 0; f < g.kind.size(); ++f)
    {
        if (g.kind[f] != k_sclass && g.kind[f] != k_mclass) continue;
        const auto&         k = g.key[f];
        std::set<long long> keys;
        for (auto v : k)
            if (v >= 0) keys.insert(v);
        if (need_bin && keys.empty()) continue;
        std::vector<uint8_t> in(k.size());
        for (size_t i = 0; i < k.size(); ++i) in[i] = k[i] < 0;
        ld total = missing_rss(g, in);
        for (auto key : keys)
        {
            for (size_t i = 0; i < k.size(); ++i) in[i] = k[i] == key;
            total += rss_mean(g, in);
        }
        b.take(total);
    }
    return b;
}

best_t brute_dstep(const gathered_t& g)
{
    best_t b;
    for (size_t f = 0; f < g.kind.size(); ++f)
    {
        if (g.kind[f] != k_sclass && g.kind[f] != k_mclass) continue;
        const auto&         k = g.key[f];
        std::set<long long> keys;
        for (auto v : k)
            if (v >= 0) keys.insert(v);
        std::vector<uint8_t> in(k.size()), out(k.size());
        for (auto key : keys)
        {
            for (size_t i = 0; i < k.size(); ++i)
            {
                in[i]  = k[i] == key;
                out[i] = !in[i];
            }
            b.take(rss_mean(g, in) + rss_zero(g, out));
        }
    }
    return b;
}

// ---- generator ----------------------------------------------------------------------------------------------------
struct gen_t
{
    vh::rng_t rng;
    explicit gen_t(uint64_t s)
        : rng(s)
    {
    }
    bool   coin(int pct) { return rng.range(0, 99) < pct; }
    double dyadic(int den, int lim) { return static_cast<double>(rng.range(-lim, lim)) / den; }
};

uint64_t mix(uint64_t a, uint64_t b)
{
    vh::rng_t r(a ^ (b * 0x9E3779B97F4A7C15ULL + 0x632BE59BD9B4E019ULL));
    r.next();
    return r.next();
}

std::vector<uint8_t> missing_pattern(gen_t& g, tensor_size_t rows, int& pattern)
{
    std::vector<uint8_t> p(static_cast<size_t>(rows), 1U);
    const auto k = g.rng.range(0, 19);
    pattern      = k < 9 ? 0 : k < 11 ? 4 : k < 13 ? 5 : k < 15 ? 6 : k < 17 ? 7 : k < 18 ? 8 : 9;
    int pct = 0;
    switch (pattern)
    {
    case 0: pct = 0; break;
    case 4: pct = 10; break;
    case 5: pct = 30; break;
    case 6: pct = 60; break;
    case 7: pct = 90; break;
    case 8: pct = 100; break; // all missing
    default: pct = 100; break; // one present
    }
    for (auto& v : p) v = g.coin(pct) ? 0U : 1U;
    if (pattern == 9) p[static_cast<size_t>(g.rng.range(0, rows - 1))] = 1U;
    return p;
}

case_t make_case(gen_t& g, bool thorough, std::string& kinds)
{
    case_t c;
    const auto shape = g.rng.range(0, 9);
    if (shape < 3) c.rows = g.rng.range(2, 6);
    else if (shape < 7) c.rows = g.rng.range(5, 20);
    else c.rows = g.rng.range(15, thorough ? 60 : 40);
    c.outs        = static_cast<int>(g.rng.range(0, 9) < 6 ? 1 : g.rng.range(2, 3));
    const auto nf = shape < 3 ? g.rng.range(1, 3) : g.rng.range(1, 8);
    const auto tiny = shape < 3 && g.coin(50); // values in {-1,0,1}
    for (int64_t f = 0; f < nf; ++f)
    {
        feat_t ft;
        auto kd = g.rng.range(0, 19);
        if (nf >= 2 && f == 0 && g.coin(80)) kd = 0;                       // mostly: at least one scalar ...
        if (nf >= 2 && f == 1 && g.coin(80)) kd = g.rng.range(9, 18);      // ... and one categorical feature
        ft.kind = kd < 9 ? k_scalar : kd < 14 ? k_sclass : kd < 19 ? k_mclass : k_struct;
        int pattern   = 0;
        ft.present    = missing_pattern(g, c.rows, pattern);
        const auto us = static_cast<size_t>(c.rows);
        ft.sval.assign(us, 0.0);
        ft.label.assign(us, 0);
        ft.hits.assign(us, {});
        if (ft.kind == k_scalar || ft.kind == k_struct)
        {
            const auto vk = tiny ? 0 : g.rng.range(0, 6);
            kinds += "s" + std::to_string(vk);
            const double c0 = g.dyadic(4, 8);
            for (size_t s = 0; s < us; ++s)
            {
                switch (vk)
                {
                case 0: ft.sval[s] = static_cast<double>(g.rng.range(-1, 1)); break;              // heavy ties
                case 1: ft.sval[s] = g.dyadic(4, 8); break;                                       // k/4 in [-2, 2]
                case 2: ft.sval[s] = g.dyadic(1, 3); break;                                       // few distinct integers
                case 3: ft.sval[s] = c0; break;                                                   // constant
                case 4: ft.sval[s] = static_cast<double>(s) * 0.5 - 3.0; break;                   // all distinct, increasing
                case 5: ft.sval[s] = g.coin(50) ? c0 : c0 + 1.0; break;                           // two values
                default: ft.sval[s] = g.dyadic(16, 160); break;                                   // fine grid
                }
            }
            if (vk == 4 && g.coin(50)) std::reverse(ft.sval.begin(), ft.sval.end());
        }
        else if (ft.kind == k_sclass)
        {
            ft.classes = static_cast<int>(g.rng.range(1, 6));
            kinds += "c" + std::to_string(ft.classes);
            for (size_t s = 0; s < us; ++s) ft.label[s] = static_cast<int>(g.rng.range(0, ft.classes - 1));
        }
        else
        {
            ft.classes = static_cast<int>(g.rng.range(1, 6));
            kinds += "m" + std::to_string(ft.classes);
            // a small pool of label sets so that bins are shared
            const auto                        npool = g.rng.range(1, 6);
            std::vector<std::vector<int8_t>> pool;
            for (int64_t p = 0; p < npool; ++p)
            {
                std::vector<int8_t> h(static_cast<size_t>(ft.classes));
                for (auto& v : h) v = g.coin(45) ? 1 : 0;
                pool.push_back(h);
            }
            for (size_t s = 0; s < us; ++s) ft.hits[s] = pool[static_cast<size_t>(g.rng.range(0, npool - 1))];
        }
        c.feats.push_back(ft);
    }
    return c;
}

// gradients: dyadic, several structures
tensor4d_t make_grads(gen_t& g, const case_t& c, int variant)
{
    tensor4d_t grads(make_dims(c.rows, c.outs, 1, 1));
    // planted structure: pick a feature and make the residual depend on it
    const auto  pf  = static_cast<size_t>(g.rng.range(0, static_cast<int64_t>(c.feats.size()) - 1));
    const auto& ft  = c.feats[pf];
    const auto  thr = g.dyadic(4, 6) + 0.125;
    for (tensor_size_t s = 0; s < c.rows; ++s)
    {
        const auto us = static_cast<size_t>(s);
        for (int o = 0; o < c.outs; ++o)
        {
            double v = 0;
            switch (variant)
            {
            case 0: v = g.dyadic(8, 32); break;                                      // arbitrary
            case 1: v = static_cast<double>(g.rng.range(-1, 1)); break;              // tiny integers (ties in the gains)
            case 2:                                                                   // planted stump / table + small noise
                if (ft.kind == k_scalar) v = (ft.sval[us] < thr ? -1.5 : 2.25) * (o + 1);
                else if (ft.kind == k_sclass) v = 0.5 * ft.label[us] - 1.0 + o;
                else if (ft.kind == k_mclass) v = ft.hits[us].empty() ? 0.0 : (ft.hits[us][0] ? 1.0 : -2.0) + o;
                v += g.coin(30) ? g.dyadic(8, 4) : 0.0;
                break;
            case 3:                                                                   // planted affine / hinge, exact
                if (ft.kind == k_scalar) v = 0.75 * ft.sval[us] - 0.5 * o + (g.coin(50) ? 0.0 : std::max(0.0, ft.sval[us] - thr));
                else v = g.dyadic(2, 4);
                break;
            case 4: v = 0.0; break;                                                  // all zero
            case 5: v = 1.25 - o; break;                                             // constant
            default: v = g.dyadic(1024, 100000); break;                              // fine dyadics
            }
            grads(s, o, 0, 0) = v;
        }
    }
    return grads;
}

indices_t make_samples(gen_t& g, tensor_size_t rows, std::string& what)
{
    const auto k = g.rng.range(0, 9);
    std::vector<tensor_size_t> v;
    if (k < 3)
    {
        what = "all";
        for (tensor_size_t i = 0; i < rows; ++i) v.push_back(i);
    }
    else if (k < 5)
    {
        what = "sorted-subset";
        for (tensor_size_t i = 0; i < rows; ++i)
            if (g.coin(70)) v.push_back(i);
    }
    else if (k < 7)
    {
        what = "shuffled-subset";
        for (tensor_size_t i = 0; i < rows; ++i)
            if (g.coin(80)) v.push_back(i);
        for (size_t i = v.size(); i > 1; --i) std::swap(v[i - 1], v[static_cast<size_t>(g.rng.range(0, static_cast<int64_t>(i) - 1))]);
    }
    else if (k < 9)
    {
        what = "bootstrap";
        const auto n = g.rng.range(2, rows + rows / 2);
        for (int64_t i = 0; i < n; ++i) v.push_back(g.rng.range(0, rows - 1));
    }
    else
    {
        what = "few";
        const auto n = g.rng.range(2, 3);
        for (int64_t i = 0; i < n; ++i) v.push_back(g.rng.range(0, rows - 1));
    }
    if (v.size() < 2)
    {
        v.clear();
        for (tensor_size_t i = 0; i < rows; ++i) v.push_back(i);
        what = "all";
    }
    indices_t s(static_cast<tensor_size_t>(v.size()));
    for (size_t i = 0; i < v.size(); ++i) s(static_cast<tensor_size_t>(i)) = v[i];
    return s;
}

// dstep_table_wlearner_t::do_fit calls score_kbest(.., max_kbest = 1) for every categorical feature; when no selected sample has a
// value for that feature (bins == 0) it reads mapping[0] of an empty vector (out of bounds, crashes): such inputs are excluded from
// the in-process search and probed separately (mode `probe-dstep-empty`), see notes/C10.md
bool dstep_safe(const gathered_t& g)
{
    for (size_t f = 0; f < g.kind.size(); ++f)
    {
        if (g.kind[f] != k_sclass && g.kind[f] != k_mclass) continue;
        bool any = false;
        for (auto v : g.key[f]) any = any || v >= 0;
        if (!any) return false;
    }
    return true;
}

const char* crit_name(wlearner_criterion c)
{
    switch (c)
    {
    case wlearner_criterion::rss: return "rss";
    case wlearner_criterion::aic: return "aic";
    case wlearner_criterion::aicc: return "aicc";
    default: return "bic";
    }
}

struct ctx_t
{
    std::string       id;
    const case_t*     c{nullptr};
    const dataset_t*  dataset{nullptr};
    const dataset_t*  dataset1{nullptr}; // same data, one thread
    indices_t         samples;
    tensor4d_t        grads;
    gathered_t        g;
    std::vector<int>  dfeat; // dataset feature -> case feature
    double            floor{0};
};

bool feature_missing(const ctx_t& x, tensor_size_t dfeature, tensor_size_t sample)
{
    const auto& ft = x.c->feats[static_cast<size_t>(x.dfeat[static_cast<size_t>(dfeature)])];
    return ft.present[static_cast<size_t>(sample)] == 0U;
}

rwlearner_t make_learner(const std::string& name, wlearner_criterion crit, int depth, int min_split)
{
    auto w = wlearner_t::all().get(name);
    w->parameter("wlearner::criterion") = crit;
    if (name == "dtree")
    {
        w->parameter("wlearner::dtree::max_depth") = depth;
        w->parameter("wlearner::dtree::min_split") = min_split;
    }
    return w;
}

std::string preds_str(const tensor4d_t& p)
{
    std::string  s;
    const auto   no = p.size<0>() > 0 ? p.size() / p.size<0>() : 0;
    for (tensor_size_t i = 0; i < p.size<0>(); ++i)
    {
        if (i) s += ";";
        s += hexs(p.data() + i * no, no);
    }
    return s;
}

bool table_like(const wlearner_t& w)
{
    return dynamic_cast<const stump_wlearner_t*>(&w) != nullptr || dynamic_cast<const table_wlearner_t*>(&w) != nullptr ||
           dynamic_cast<const dtree_wlearner_t*>(&w) != nullptr;
}

// consistency clauses of one fitted learner (any criterion)
void check_consistency(gen_t& g, const ctx_t& x, const std::string& name, const char* crit, const wlearner_t& w, bool print)
{
    const auto& dataset = *x.dataset;
    const auto& samples = x.samples;
    const auto  n       = samples.size();
    const auto  no      = static_cast<tensor_size_t>(x.g.no);
    const auto  tag     = x.id + " " + name + " " + crit;
    cnt.consistency_checks++;

    const auto preds = w.predict(dataset, samples);
    if (print)
    {
        std::printf("PRED %s | %s\n", tag.c_str(), preds_str(preds).c_str());
    }
    for (tensor_size_t i = 0; i < preds.size(); ++i)
    {
        if (!std::isfinite(preds.data()[i]))
        {
            fail("finite", tag, "non-finite prediction " + wstr(w));
            return;
        }
    }

    // predictions are added to the given outputs
    tensor4d_t base(preds.dims());
    for (tensor_size_t i = 0; i < base.size(); ++i) base.data()[i] = g.dyadic(8, 64);
    tensor4d_t out = base;
    w.predict(dataset, samples, out.tensor());
    for (tensor_size_t i = 0; i < base.size(); ++i)
    {
        if (out.data()[i] != base.data()[i] + preds.data()[i])
        {
            fail("additive", tag,
                 "sample#" + std::to_string(i / no) + " output=" + vh::hexf(out.data()[i]) + " base=" + vh::hexf(base.data()[i]) +
                     " pred=" + vh::hexf(preds.data()[i]) + " " + wstr(w));
            break;
        }
    }

    // split: groups, zero for unassigned, table of the group
    const auto  cluster = w.split(dataset, samples);
    const auto* tables  = tables_of(w);
    const auto  ntables = tables != nullptr ? tables->size<0>() : 0;
    std::string gs;
    std::vector<uint8_t> selected(static_cast<size_t>(dataset.samples()), 0U);
    for (tensor_size_t i = 0; i < n; ++i) selected[static_cast<size_t>(samples(i))] = 1U;
    if (cluster.samples() != dataset.samples())
    {
        fail("split", tag, "cluster.samples()=" + std::to_string(cluster.samples()));
        return;
    }
    for (tensor_size_t s = 0; s < dataset.samples(); ++s)
    {
        if (!selected[static_cast<size_t>(s)] && cluster.group(s) != -1)
        {
            fail("split", tag, "unselected sample " + std::to_string(s) + " assigned to group " + std::to_string(cluster.group(s)));
            break;
        }
    }
    if (table_like(w) && cluster.groups() != ntables)
    {
        // dtree_wlearner_t::do_split builds cluster_t(samples, m_tables.size()): the element count, not the number of tables
        obs("groups-vs-tables", tag, "split().groups()=" + std::to_string(cluster.groups()) + " tables=" + std::to_string(ntables) + " outputs=" + std::to_string(no));
    }
    const auto feats = w.features();
    for (tensor_size_t i = 0; i < n; ++i)
    {
        const auto grp = cluster.group(samples(i));
        if (i) gs += ",";
        gs += std::to_string(grp);
        if (grp < -1 || grp >= cluster.groups() || (table_like(w) && grp >= ntables))
        {
            fail("split", tag, "group " + std::to_string(grp) + " out of range for sample#" + std::to_string(i) + " " + wstr(w));
            break;
        }
        bool zero = true;
        for (tensor_size_t o = 0; o < no; ++o) zero = zero && preds.data()[i * no + o] == 0.0;
        // zero for samples whose selected feature is missing
        if (feats.size() == 1 && feature_missing(x, feats(0), samples(i)))
        {
            cnt.missing_samples++;
            if (!zero || grp != -1)
            {
                fail("missing-zero", tag,
                     "sample#" + std::to_string(i) + " (index " + std::to_string(samples(i)) + ") misses feature " +
                         std::to_string(feats(0)) + " but group=" + std::to_string(grp) + " pred=" + hexs(preds.data() + i * no, no) +
                         " " + wstr(w));
                break;
            }
        }
        if (grp < 0)
        {
            if (!zero)
            {
                fail("split-table", tag, "unassigned sample#" + std::to_string(i) + " has a non-zero prediction " + wstr(w));
                break;
            }
        }
        else if (table_like(w))
        {
            bool same = true;
            for (tensor_size_t o = 0; o < no; ++o) same = same && preds.data()[i * no + o] == tables->data()[grp * no + o];
            if (!same)
            {
                fail("split-table", tag,
                     "sample#" + std::to_string(i) + " group=" + std::to_string(grp) + " pred=" + hexs(preds.data() + i * no, no) +
                         " " + wstr(w));
                break;
            }
        }
        else
        {
            // affine / hinge: w * x + b of the selected feature
            const auto  cf = x.dfeat[static_cast<size_t>(feats(0))];
            const auto  xv = x.c->feats[static_cast<size_t>(cf)].sval[static_cast<size_t>(samples(i))];
            bool        same = true;
            for (tensor_size_t o = 0; o < no; ++o)
            {
                const double e = tables->data()[o] * xv + tables->data()[no + o];
                same           = same && preds.data()[i * no + o] == e;
            }
            if (!same)
            {
                fail("split-table", tag,
                     "sample#" + std::to_string(i) + " x=" + vh::hexf(xv) + " pred=" + hexs(preds.data() + i * no, no) + " " + wstr(w));
                break;
            }
        }
    }
    if (print)
    {
        std::printf("SPLIT %s | %s\n", tag.c_str(), gs.c_str());
    }

    // predictions depend only on the sample: another sample list (all samples, shuffled, with repetitions)
    {
        std::vector<tensor_size_t> v;
        for (tensor_size_t s = 0; s < dataset.samples(); ++s) v.push_back(s);
        for (tensor_size_t i = 0; i < n; ++i)
            if (g.coin(30)) v.push_back(samples(i));
        for (size_t i = v.size(); i > 1; --i) std::swap(v[i - 1], v[static_cast<size_t>(g.rng.range(0, static_cast<int64_t>(i) - 1))]);
        indices_t other(static_cast<tensor_size_t>(v.size()));
        for (size_t i = 0; i < v.size(); ++i) other(static_cast<tensor_size_t>(i)) = v[i];
        const auto p2 = w.predict(dataset, other);
        std::map<tensor_size_t, tensor_size_t> first;
        for (tensor_size_t i = 0; i < n; ++i) first.emplace(samples(i), i);
        bool ok = true;
        for (tensor_size_t j = 0; j < other.size() && ok; ++j)
        {
            const auto it = first.find(other(j));
            if (it == first.end()) continue;
            for (tensor_size_t o = 0; o < no; ++o)
            {
                if (p2.data()[j * no + o] != preds.data()[it->second * no + o])
                {
                    fail("sample-only", tag,
                         "sample " + std::to_string(other(j)) + " predicted " + vh::hexf(preds.data()[it->second * no + o]) + " in the fit list and " +
                             vh::hexf(p2.data()[j * no + o]) + " in another list " + wstr(w));
                    ok = false;
                    break;
                }
            }
        }
        // repeated entries of the fit list agree as well
        for (tensor_size_t i = 0; i < n && ok; ++i)
        {
            const auto k = first[samples(i)];
            for (tensor_size_t o = 0; o < no; ++o)
                if (preds.data()[i * no + o] != preds.data()[k * no + o])
                {
                    fail("sample-only", tag, "repeated sample " + std::to_string(samples(i)) + " predicted differently " + wstr(w));
                    ok = false;
                    break;
                }
        }
    }

    // scale(s): one factor, and one factor per table
    for (int pass = 0; pass < 2; ++pass)
    {
        if (tables == nullptr) break;
        if (pass == 1 && !table_like(w)) break; // affine / hinge have one group but two coefficient rows
        const auto size = pass == 0 ? tensor_size_t{1} : ntables;
        if (size < 1) break;
        vector_t sc(size);
        for (tensor_size_t i = 0; i < size; ++i)
        {
            const auto k = g.rng.range(0, 9);
            sc(i)        = k == 0 ? 0.0 : k < 5 ? std::ldexp(1.0, static_cast<int>(g.rng.range(-3, 3))) : static_cast<double>(g.rng.range(1, 40)) / 8.0;
        }
        auto ws = w.clone();
        ws->scale(sc);
        const auto ps = ws->predict(dataset, samples);
        cnt.scale_checks++;
        if (print)
        {
            std::printf("SCALE %s | %s | %s\n", tag.c_str(), hexs(sc.data(), sc.size()).c_str(), preds_str(ps).c_str());
        }
        for (tensor_size_t i = 0; i < n; ++i)
        {
            const auto grp = cluster.group(samples(i));
            const auto s   = pass == 0 ? sc(0) : (grp >= 0 ? sc(std::min(grp, size - 1)) : 1.0);
            bool       ok  = true;
            std::string why;
            for (tensor_size_t o = 0; o < no; ++o)
            {
                const auto p = preds.data()[i * no + o], q = ps.data()[i * no + o];
                if (table_like(w))
                {
                    ok = ok && q == p * s;
                }
                else
                {
                    const auto  cf  = x.dfeat[static_cast<size_t>(feats(0))];
                    const auto  xv  = x.c->feats[static_cast<size_t>(cf)].sval[static_cast<size_t>(samples(i))];
                    const auto  mag = grp < 0 ? 0.0 : (std::fabs(tables->data()[o] * xv) + std::fabs(tables->data()[no + o])) * s;
                    ok              = ok && std::fabs(q - p * s) <= 1e-12 * mag;
                }
            }
            if (!ok)
            {
                fail(pass == 0 ? "scale" : "scale-groups", tag,
                     "sample#" + std::to_string(i) + " group=" + std::to_string(grp) + " scale=" + hexs(sc.data(), sc.size()) +
                         " before=" + hexs(preds.data() + i * no, no) + " after=" + hexs(ps.data() + i * no, no) + " " + wstr(w));
                break;
            }
        }
    }
}


// =====================================================================================================================
// extension oracles (independent of the Coq model): top-k of the k-best table for every k, k-split tables, decision trees
// of any depth (structure, traversal, greedy fit = stump of the node's samples), AIC / AICc / BIC of every learner
// =====================================================================================================================
ld crit_ld(wlearner_criterion c, ld rss, ld k, ld n)
{
    switch (c)
    {
    case wlearner_criterion::aic: return 2 * k + n * std::log(rss) - n * std::log(n);
    case wlearner_criterion::aicc: return (2 * k + n * std::log(rss) - n * std::log(n)) + 2 * (k * k + k) / (n - k - 1);
    case wlearner_criterion::bic: return k * std::log(n) + n * std::log(rss / n);
    default: return rss;
    }
}

// the criterion of an RSS known within +-dr: an interval (the criteria are increasing in the RSS)
struct interval_t
{
    ld   lo{0}, hi{0};
    bool finite{false};
};

interval_t crit_interval(wlearner_criterion c, ld rss, ld dr, ld floor, ld k, ld n)
{
    interval_t it;
    it.lo     = crit_ld(c, std::max(floor, rss - dr), k, n);
    it.hi     = crit_ld(c, std::max(floor, rss + dr), k, n);
    it.finite = std::isfinite(static_cast<double>(it.lo)) && std::isfinite(static_cast<double>(it.hi));
    return it;
}

struct minint_t
{
    ld   lo{0}, hi{0};
    bool any{false};
    void take(const interval_t& it)
    {
        if (!it.finite) return;
        if (!any || it.lo < lo) lo = it.lo;
        if (!any || it.hi < hi) hi = it.hi;
        any = true;
    }
    bool contains(ld s) const
    {
        const ld eps = 1e-9L * (1 + std::fabs(s));
        return any && s >= lo - eps && s <= hi + eps;
    }
};

// per label set of one categorical feature: RSS when predicted by its mean / by zero (two-pass sums, by definition)
struct keystat_t
{
    std::vector<long long> keys;
    std::vector<ld>        a, b; // a: predicted by the mean, b: predicted by zero
    ld                     miss{0};
};

keystat_t keystat(const gathered_t& g, size_t f)
{
    keystat_t           ks;
    const auto&         k = g.key[f];
    std::set<long long> keys;
    for (auto v : k)
        if (v >= 0) keys.insert(v);
    std::vector<uint8_t> in(k.size());
    for (size_t i = 0; i < k.size(); ++i) in[i] = k[i] < 0;
    ks.miss = missing_rss(g, in);
    for (auto key : keys)
    {
        for (size_t i = 0; i < k.size(); ++i) in[i] = k[i] == key;
        ks.keys.push_back(key);
        ks.a.push_back(rss_mean(g, in));
        ks.b.push_back(rss_zero(g, in));
    }
    return ks;
}

// minimum over ALL subsets of exactly k label sets of the RSS of the table that predicts the mean on the subset, zero elsewhere
ld brute_topk(const keystat_t& ks, size_t k)
{
    const auto nb   = ks.keys.size();
    ld         best = -1;
    for (unsigned mask = 0; mask < (1U << nb); ++mask)
    {
        if (static_cast<size_t>(__builtin_popcount(mask)) != k) continue;
        ld rss = ks.miss;
        for (size_t j = 0; j < nb; ++j) rss += ((mask >> j) & 1U) ? ks.a[j] : ks.b[j];
        if (best < 0 || rss < best) best = rss;
    }
    return best;
}

// RSS of a fitted table evaluated with the harness' own look-up (linear search of the stored hashes; predict() of the k-best
// table misses stored label sets, see F2)
ld table_rss(const ctx_t& x, const table_wlearner_t& t, bool& ok)
{
    const auto&  gg = x.g;
    const auto   f  = static_cast<size_t>(t.feature());
    ld           rss = 0;
    const auto   no  = static_cast<tensor_size_t>(gg.no);
    ok               = f < gg.kind.size() && (gg.kind[f] == k_sclass || gg.kind[f] == k_mclass);
    if (!ok) return 0;
    for (tensor_size_t i = 0; i < gg.n; ++i)
    {
        tensor_size_t row = -1;
        const auto&   h   = gg.hash[f][static_cast<size_t>(i)];
        if (h != "-1")
        {
            for (tensor_size_t j = 0; j < t.hashes().size(); ++j)
                if (std::to_string(static_cast<unsigned long long>(t.hashes()(j))) == h) row = t.hash2tables()(j);
        }
        for (tensor_size_t o = 0; o < no; ++o)
        {
            const ld p = row >= 0 ? static_cast<ld>(t.tables().data()[row * no + o]) : 0.0L;
            const ld d = gg.r[static_cast<size_t>(i)][static_cast<size_t>(o)] - p;
            rss += d * d;
        }
    }
    return rss;
}

long ext_topk_checks = 0, ext_crit_checks = 0, ext_ksplit_checks = 0, ext_tree_checks = 0, ext_treefit_checks = 0, ext_topk_partial = 0;

void ext_check_tables(const ctx_t& x, const std::string& name, wlearner_criterion crit, scalar_t score, const wlearner_t& w, bool nofit)
{
    const auto& gg  = x.g;
    const auto  tag = x.id + " " + name + " " + crit_name(crit);
    const ld    dr  = 1e-9L * gg.sumr2 + 1e-15L;
    const ld    fl  = x.floor;
    const ld    n   = static_cast<ld>(gg.n);
    const ld    no  = static_cast<ld>(gg.no);
    const bool  is_kbest = name == "kbest-table", is_ksplit = name == "ksplit-table", is_dense = name == "dense-table", is_dstep = name == "dstep-table";
    if (!is_kbest && !is_ksplit && !is_dense && !is_dstep) return;

    // the criterion over all candidates of the class (dense: all label sets; dstep: one; k-best: the best k for every k)
    if (!is_ksplit)
    {
        minint_t best;
        bool     complete = true;
        for (size_t f = 0; f < gg.kind.size(); ++f)
        {
            if (gg.kind[f] != k_sclass && gg.kind[f] != k_mclass) continue;
            const auto ks = keystat(gg, f);
            const auto nb = ks.keys.size();
            if (nb > 12U) { complete = false; continue; }
            if (is_dense) best.take(crit_interval(crit, brute_topk(ks, nb), dr, fl, static_cast<ld>(nb) * no, n));
            else if (is_dstep) { if (nb >= 1U) best.take(crit_interval(crit, brute_topk(ks, 1U), dr, fl, no, n)); }
            else for (size_t k = 1; k <= nb; ++k) best.take(crit_interval(crit, brute_topk(ks, k), dr, fl, static_cast<ld>(k) * no, n));
        }
        if (complete)
        {
            ext_crit_checks++;
            if (nofit ? best.any : !best.contains(score))
            {
                fail("ext-criterion", tag,
                     std::string(nofit ? "no fit" : "score=" + vh::hexf(score)) + " but the minimum of the criterion over all label-set subsets is in [" +
                         vh::hexf(static_cast<double>(best.lo)) + "," + vh::hexf(static_cast<double>(best.hi)) + "]" + (best.any ? "" : " (empty)") + " " + (nofit ? std::string("-") : wstr(w)));
            }
        }
        else ext_topk_partial++;
    }
    if (nofit) return;
    const auto* t = dynamic_cast<const table_wlearner_t*>(&w);
    if (t == nullptr) return;
    bool      ok  = false;
    const ld  rss = table_rss(x, *t, ok);
    if (!ok)
    {
        fail("ext-topk", tag, "the fitted feature is not categorical " + wstr(w));
        return;
    }
    const auto f  = static_cast<size_t>(t->feature());
    const auto ks = keystat(gg, f);
    const auto k  = static_cast<size_t>(t->tables().size<0>());
    // the score is the criterion of the RSS of the stored table with k = tables * outputs parameters
    {
        ext_crit_checks++;
        minint_t own;
        own.take(crit_interval(crit, rss, dr, fl, static_cast<ld>(k) * no, n));
        if (!own.contains(score))
        {
            fail("ext-criterion", tag,
                 "score=" + vh::hexf(score) + " but the criterion of the stored table (RSS " + vh::hexf(static_cast<double>(rss)) + ", k=" +
                     std::to_string(k * static_cast<size_t>(gg.no)) + ", n=" + std::to_string(gg.n) + ") is in [" + vh::hexf(static_cast<double>(own.lo)) + "," +
                     vh::hexf(static_cast<double>(own.hi)) + "] " + wstr(w));
        }
    }
    if (is_kbest && ks.keys.size() <= 12U && k <= ks.keys.size())
    {
        // top-k: no table on k label sets of the fitted feature has a smaller RSS (all subsets)
        ext_topk_checks++;
        const ld best = brute_topk(ks, k);
        if (rss > best + dr || static_cast<tensor_size_t>(k) != t->hashes().size())
        {
            fail("ext-topk", tag,
                 "RSS of the stored table=" + vh::hexf(static_cast<double>(rss)) + " > best table on " + std::to_string(k) + " label sets=" +
                     vh::hexf(static_cast<double>(best)) + " " + wstr(w));
        }
    }
    if (is_ksplit)
    {
        ext_ksplit_checks++;
        const auto  ng = t->tables().size<0>();
        const auto& hm = t->hash2tables();
        std::string why;
        if (hm.size() != t->hashes().size() || static_cast<size_t>(hm.size()) != ks.keys.size()) why = "one group per seen label set expected";
        std::vector<long> cnt(static_cast<size_t>(ng), 0);
        for (tensor_size_t j = 0; why.empty() && j < hm.size(); ++j)
        {
            if (hm(j) < 0 || hm(j) >= ng) why = "group id out of range";
            else cnt[static_cast<size_t>(hm(j))]++;
        }
        for (tensor_size_t gidx = 0; why.empty() && gidx < ng; ++gidx)
            if (cnt[static_cast<size_t>(gidx)] == 0) why = "empty group " + std::to_string(gidx);
        // every table is the mean of the residuals of the samples of its group
        for (tensor_size_t gidx = 0; why.empty() && gidx < ng; ++gidx)
        {
            for (int o = 0; o < gg.no && why.empty(); ++o)
            {
                ld sum = 0, c = 0, mag = 0;
                for (tensor_size_t i = 0; i < gg.n; ++i)
                {
                    const auto& h = gg.hash[f][static_cast<size_t>(i)];
                    if (h == "-1") continue;
                    for (tensor_size_t j = 0; j < t->hashes().size(); ++j)
                        if (hm(j) == gidx && std::to_string(static_cast<unsigned long long>(t->hashes()(j))) == h)
                        {
                            sum += gg.r[static_cast<size_t>(i)][static_cast<size_t>(o)];
                            mag += std::fabs(gg.r[static_cast<size_t>(i)][static_cast<size_t>(o)]);
                            c += 1;
                        }
                }
                const ld m = c > 0 ? sum / c : 0;
                if (std::fabs(m - static_cast<ld>(t->tables().data()[gidx * gg.no + o])) > 1e-12L * (mag / std::max<ld>(c, 1) + 1e-300L))
                    why = "table " + std::to_string(gidx) + " output " + std::to_string(o) + " is not the mean of its group (" + vh::hexf(static_cast<double>(m)) + ")";
            }
        }
        if (why.empty() && crit == wlearner_criterion::rss)
        {
            const auto b = brute_dense(gg, true);
            if (!b.any || std::fabs(static_cast<ld>(score) - std::max(b.rss, fl)) > dr) why = "rss score differs from the dense optimum " + vh::hexf(static_cast<double>(b.rss));
        }
        if (!why.empty()) fail("ext-ksplit", tag, why + " " + wstr(w));
    }
}

// criteria of the scalar learners with a fixed number of parameters: the minimiser is the RSS minimiser
void ext_check_scalar_criterion(const ctx_t& x, const std::string& name, wlearner_criterion crit, scalar_t score, const wlearner_t& w, bool nofit)
{
    if (crit == wlearner_criterion::rss) return;
    const auto& gg  = x.g;
    const auto  tag = x.id + " " + name + " " + crit_name(crit);
    const ld    dr  = 1e-9L * gg.sumr2 + 1e-15L;
    const ld    n   = static_cast<ld>(gg.n);
    const ld    no  = static_cast<ld>(gg.no);
    best_t      b;
    ld          k = 0;
    if (name == "stump") { b = brute_stump(gg); k = 2 * no + 1; }
    else if (name == "affine") { b = brute_affine(gg); k = 2 * no; }
    else return;
    ext_crit_checks++;
    minint_t best;
    if (b.any) best.take(crit_interval(crit, b.rss, dr, x.floor, k, n));
    if (nofit ? best.any : !best.contains(score))
    {
        fail("ext-criterion", tag,
             std::string(nofit ? "no fit" : "score=" + vh::hexf(score)) + " but the criterion of the brute-force RSS optimum (" + vh::hexf(static_cast<double>(b.rss)) +
                 ", k=" + std::to_string(static_cast<long>(k)) + ", n=" + std::to_string(gg.n) + ") is in [" + vh::hexf(static_cast<double>(best.lo)) + "," +
                 vh::hexf(static_cast<double>(best.hi)) + "] " + (nofit ? std::string("-") : wstr(w)));
    }
}

// decision tree: structure of the node table and the harness' own traversal against split() / predict() on ALL samples
void ext_check_tree(const ctx_t& x, const std::string& name, const char* crit, const dtree_wlearner_t& w)
{
    const auto& nodes = w.nodes();
    const auto  nt    = w.tables().size<0>();
    const auto  tag   = x.id + " " + name + " " + crit;
    const auto  len   = static_cast<long>(nodes.size());
    ext_tree_checks++;
    std::string why;
    std::vector<int> used(static_cast<size_t>(std::max<tensor_size_t>(nt, 0)), 0);
    if (len < 2 || len % 2 != 0) why = "odd or empty node table";
    for (long p = 0; why.empty() && p + 1 < len; p += 2)
    {
        const auto& a = nodes[static_cast<size_t>(p)];
        const auto& b = nodes[static_cast<size_t>(p + 1)];
        if (a.m_feature != b.m_feature || a.m_threshold != b.m_threshold) why = "pair " + std::to_string(p) + " does not share feature and threshold";
        else if (a.m_next == 0U)
        {
            if (b.m_next != 0U || a.m_table < 0 || b.m_table != a.m_table + 1 || b.m_table >= nt) why = "terminal pair " + std::to_string(p) + " has bad tables";
            else { used[static_cast<size_t>(a.m_table)]++; used[static_cast<size_t>(b.m_table)]++; }
        }
        else
        {
            for (const auto* e : {&a, &b})
            {
                const auto nx = static_cast<long>(e->m_next);
                if (nx <= p + 1 || nx + 1 >= len || nx % 2 != 0) why = "split pair " + std::to_string(p) + " does not point forward to a pair";
            }
        }
    }
    for (size_t i = 0; why.empty() && i < used.size(); ++i)
        if (used[i] != 1) why = "table " + std::to_string(i) + " belongs to " + std::to_string(used[i]) + " leaves";
    if (!why.empty())
    {
        fail("ext-tree-structure", tag, why + " " + wstr(w));
        return;
    }
    // own traversal of every sample of the dataset (missing values included)
    const auto& dataset = *x.dataset;
    const auto  all     = arange(0, dataset.samples());
    const auto  cluster = w.split(dataset, all);
    const auto  preds   = w.predict(dataset, all);
    const auto  no      = static_cast<tensor_size_t>(x.g.no);
    for (tensor_size_t s = 0; s < dataset.samples(); ++s)
    {
        long          p = 0;
        tensor_size_t leaf = -1;
        std::string   path;
        for (long steps = 0; steps <= len; ++steps)
        {
            const auto& nd = nodes[static_cast<size_t>(p)];
            const auto& ft = x.c->feats[static_cast<size_t>(x.dfeat[static_cast<size_t>(nd.m_feature)])];
            path += std::to_string(p) + ">";
            if (ft.present[static_cast<size_t>(s)] == 0U) break; // dropped at the first missing feature on the path
            const auto side = ft.sval[static_cast<size_t>(s)] < nd.m_threshold ? 0 : 1;
            if (nd.m_next == 0U)
            {
                leaf = nd.m_table + side;
                break;
            }
            p = static_cast<long>(nodes[static_cast<size_t>(p + side)].m_next);
        }
        bool same = cluster.group(s) == leaf;
        for (tensor_size_t o = 0; same && o < no; ++o)
            same = preds.data()[s * no + o] == (leaf >= 0 ? w.tables().data()[leaf * no + o] : 0.0);
        if (!same)
        {
            fail("ext-tree-walk", tag,
                 "sample " + std::to_string(s) + " path " + path + " own leaf=" + std::to_string(leaf) + " split()=" + std::to_string(cluster.group(s)) +
                     " pred=" + hexs(preds.data() + s * no, no) + " " + wstr(w));
            break;
        }
    }
}

// the greedy fit behind a one-thread pool (deterministic ties): every pair is the stump fitted on the samples that reach it, a pair
// is terminal exactly when the source's test says so, leaf tables are the stump's tables, the score is the sum over the leaves
bool ext_verify_subtree(const ctx_t& x, const dtree_wlearner_t& w, size_t p, const indices_t& samples, int depth, int max_depth, tensor_size_t min_size,
                        wlearner_criterion crit, ld& score, std::string& why)
{
    const auto& nodes = w.nodes();
    auto        st    = make_learner("stump", crit, 1, 5);
    const auto  sc    = st->fit(*x.dataset1, samples, x.grads);
    if (sc == wlearner_t::no_fit_score() || p + 1 >= nodes.size())
    {
        why = "pair " + std::to_string(p) + ": no stump on its samples although the tree was fitted";
        return false;
    }
    const auto* ps = dynamic_cast<const stump_wlearner_t*>(st.get());
    if (nodes[p].m_feature != ps->feature() || nodes[p].m_threshold != ps->threshold())
    {
        why = "pair " + std::to_string(p) + " is not the stump of its " + std::to_string(samples.size()) + " samples (" + wstr(*st) + ")";
        return false;
    }
    const bool terminal = samples.size() < min_size || depth + 1 >= max_depth;
    if (terminal != (nodes[p].m_next == 0U))
    {
        why = "pair " + std::to_string(p) + " terminal=" + std::to_string(nodes[p].m_next == 0U) + " but size=" + std::to_string(samples.size()) + " min=" +
              std::to_string(min_size) + " depth=" + std::to_string(depth);
        return false;
    }
    if (terminal)
    {
        const auto no = static_cast<tensor_size_t>(x.g.no);
        for (tensor_size_t gidx = 0; gidx < 2; ++gidx)
            for (tensor_size_t o = 0; o < no; ++o)
                if (w.tables().data()[(nodes[p].m_table + gidx) * no + o] != ps->tables().data()[gidx * no + o])
                {
                    why = "leaf tables of pair " + std::to_string(p) + " differ from the stump's";
                    return false;
                }
        score += sc;
        return true;
    }
    const auto cluster = ps->split(*x.dataset1, samples);
    for (tensor_size_t gidx = 0; gidx < 2; ++gidx)
    {
        if (!ext_verify_subtree(x, w, nodes[p + static_cast<size_t>(gidx)].m_next, cluster.indices(gidx), depth + 1, max_depth, min_size, crit, score, why)) return false;
    }
    return true;
}

// extension 3 (C10_TreeFit): the whole dataset (all rows, not only the selected ones: the children of a split are fitted on row
// indices) for the extracted greedy fit -- printed once per case before the first TFIT line
long ext_tfit_lines = 0, ext_tfit_nofit = 0, ext_tfit_deep = 0;
void ext_dump_dataset(const ctx_t& x)
{
    static std::string dumped;
    if (dumped == x.id) return;
    dumped = x.id;
    const auto& c    = *x.c;
    const auto  rows = x.dataset1->samples();
    std::printf("TD %s rows=%d no=%d nf=%d\n", x.id.c_str(), static_cast<int>(rows), c.outs, static_cast<int>(x.dfeat.size()));
    for (size_t df = 0; df < x.dfeat.size(); ++df)
    {
        const auto& ft = c.feats[static_cast<size_t>(x.dfeat[df])];
        if (ft.kind != k_scalar)
        {
            std::printf("TF %s %d X\n", x.id.c_str(), static_cast<int>(df));
            continue;
        }
        std::vector<double> v;
        for (tensor_size_t s = 0; s < rows; ++s) v.push_back(ft.present[static_cast<size_t>(s)] ? ft.sval[static_cast<size_t>(s)] : std::nan(""));
        std::printf("TF %s %d S %s\n", x.id.c_str(), static_cast<int>(df), hexs(v.data(), rows).c_str());
    }
    std::string gs;
    for (tensor_size_t s = 0; s < rows; ++s) gs += (s ? ";" : "") + hexs(x.grads.data() + s * c.outs, c.outs);
    std::printf("TG %s %s\n", x.id.c_str(), gs.c_str());
    std::string ss;
    for (tensor_size_t i = 0; i < x.samples.size(); ++i) ss += (i ? "," : "") + std::to_string(x.samples(i));
    std::printf("TS %s %s\n", x.id.c_str(), ss.c_str());
}

void ext_check_tree_fit(gen_t& g, const ctx_t& x, wlearner_criterion crit, int fdepth = 0, int fmin_split = 0)
{
    const auto depth     = fdepth > 0 ? fdepth : static_cast<int>(g.rng.range(2, 4));
    const auto min_split = fmin_split > 0 ? fmin_split : static_cast<int>(g.rng.range(1, 10));
    auto       w         = make_learner("dtree", crit, depth, min_split);
    const auto score     = w->fit(*x.dataset1, x.samples, x.grads);
    // the protocol line of the extracted greedy fit (one-thread pool: deterministic ties), also when the fit fails
    ext_dump_dataset(x);
    ext_tfit_lines++;
    const auto ttag = x.id + " dtree-fit " + crit_name(crit) + " depth=" + std::to_string(depth) + " min_split=" + std::to_string(min_split);
    if (score == wlearner_t::no_fit_score())
    {
        ext_tfit_nofit++;
        std::printf("TFIT %s | nofit | -\n", ttag.c_str());
        return;
    }
    std::printf("TFIT %s | %s | %s\n", ttag.c_str(), vh::hexf(score).c_str(), wstr(*w).c_str());
    const auto* tw = dynamic_cast<const dtree_wlearner_t*>(w.get());
    if (tw->nodes().size() > 2U) ext_tfit_deep++;
    ext_treefit_checks++;
    const auto  tag      = x.id + " dtree-fit " + crit_name(crit);
    const auto  min_size = std::min<tensor_size_t>(10, x.dataset1->samples() * min_split / 100);
    ld          sum      = 0;
    std::string why;
    // the sample list handed to the children is cluster.indices(): sorted and duplicate-free, as in do_fit
    if (!ext_verify_subtree(x, *tw, 0U, x.samples, 0, depth, min_size, crit, sum, why) ||
        std::fabs(sum - static_cast<ld>(score)) > 1e-12L * (std::fabs(sum) + 1))
    {
        if (why.empty()) why = "score " + vh::hexf(score) + " is not the sum of the leaf stump scores " + vh::hexf(static_cast<double>(sum));
        fail("ext-tree-fit", tag, why + " depth=" + std::to_string(depth) + " min_split=" + std::to_string(min_split) + " " + wstr(*w));
    }
    ext_check_tree(x, "dtree-fit", crit_name(crit), *tw);
}


// ---- crash context: what the library was asked to do when the process died (printed by the signal handler, so that a crash
// yields a concrete replay naming the learner and the sample list, as for `probe-dstep-empty`) ---------------------------------
char g_context[8192] = "";

void set_context(const std::string& what)
{
    std::snprintf(g_context, sizeof(g_context), "CRASH-CONTEXT %s\n", what.c_str());
}

void clear_context()
{
    g_context[0] = 0;
}

extern "C" void crash_handler(int sig)
{
    if (g_context[0] != 0)
    {
        const auto len = std::strlen(g_context);
        if (write(1, g_context, len) < 0) {}
    }
    std::signal(sig, SIG_DFL);
    raise(sig);
}

long ext_sublist_checks = 0, ext_sublist_lists = 0;

// every fitted learner is ALSO asked to predict and split arbitrary sample lists: the empty list, single samples, random strict
// subsets, lists that leave whole groups / branches empty. Predictions depend only on the sample: the rows must be bit-identical
// to the rows of the prediction on the fit list, the groups identical, non-members unassigned.
void check_sublists(gen_t& g, const ctx_t& x, const std::string& name, const char* crit, const wlearner_t& w)
{
    const auto& dataset = *x.dataset;
    const auto& samples = x.samples;
    const auto  n       = samples.size();
    const auto  no      = static_cast<tensor_size_t>(x.g.no);
    const auto  tag     = x.id + " " + name + " " + crit;
    const bool  is_tree = dynamic_cast<const dtree_wlearner_t*>(&w) != nullptr;
    ext_sublist_checks++;

    set_context(tag + " predict/split on the fit list " + wstr(w));
    const auto P = w.predict(dataset, samples);
    const auto C = w.split(dataset, samples);
    clear_context();

    std::vector<std::vector<tensor_size_t>> lists;
    lists.emplace_back(); // the empty list
    if (n > 0)
    {
        if (is_tree && n <= 12)
            for (tensor_size_t i = 0; i < n; ++i) lists.push_back({i});
        else
        {
            lists.push_back({0});
            for (int k = 0; k < (is_tree ? 8 : 2); ++k) lists.push_back({static_cast<tensor_size_t>(g.rng.range(0, n - 1))});
        }
        for (int k = 0; k < (is_tree ? 3 : 2); ++k)
        {
            std::vector<tensor_size_t> l;
            for (tensor_size_t i = 0; i < n; ++i)
                if (g.coin(50)) l.push_back(i);
            if (static_cast<tensor_size_t>(l.size()) == n) l.pop_back();
            for (size_t i = l.size(); i > 1; --i) std::swap(l[i - 1], l[static_cast<size_t>(g.rng.range(0, static_cast<int64_t>(i) - 1))]);
            lists.push_back(l);
        }
        // lists that leave a group (leaf, side, label group) empty / keep only one group / only unassigned samples
        std::set<tensor_size_t> groups;
        for (tensor_size_t i = 0; i < n; ++i) groups.insert(C.group(samples(i)));
        int used = 0;
        for (const auto gr : groups)
        {
            if (++used > (is_tree ? 6 : 3)) break;
            std::vector<tensor_size_t> only, without;
            for (tensor_size_t i = 0; i < n; ++i) (C.group(samples(i)) == gr ? only : without).push_back(i);
            lists.push_back(only);
            if (!without.empty()) lists.push_back(without);
        }
    }
    int printed = 0;
    for (const auto& l : lists)
    {
        ext_sublist_lists++;
        indices_t   sub(static_cast<tensor_size_t>(l.size()));
        std::string ids, pos;
        for (size_t j = 0; j < l.size(); ++j)
        {
            sub(static_cast<tensor_size_t>(j)) = samples(l[j]);
            ids += (j ? "," : "") + std::to_string(samples(l[j]));
            pos += (j ? "," : "") + std::to_string(l[j]);
        }
        set_context(tag + " predict/split on the sample list [" + ids + "] (" + std::to_string(l.size()) + " of the " + std::to_string(dataset.samples()) +
                    " samples of the dataset; positions [" + pos + "] of the fit list) " + wstr(w));
        std::string why, gs;
        try
        {
            const auto p2 = w.predict(dataset, sub);
            const auto c2 = w.split(dataset, sub);
            clear_context();
            if (p2.size<0>() != sub.size()) why = "predict returns " + std::to_string(p2.size<0>()) + " rows";
            for (size_t j = 0; why.empty() && j < l.size(); ++j)
                for (tensor_size_t o = 0; o < no; ++o)
                    if (p2.data()[static_cast<tensor_size_t>(j) * no + o] != P.data()[l[j] * no + o])
                    {
                        why = "sample " + std::to_string(samples(l[j])) + " predicted " + vh::hexf(P.data()[l[j] * no + o]) + " within the fit list and " +
                              vh::hexf(p2.data()[static_cast<tensor_size_t>(j) * no + o]) + " within this list";
                        break;
                    }
            if (why.empty() && c2.samples() != dataset.samples()) why = "split: cluster over " + std::to_string(c2.samples()) + " samples";
            std::vector<uint8_t> member(static_cast<size_t>(dataset.samples()), 0U);
            for (size_t j = 0; j < l.size(); ++j) member[static_cast<size_t>(samples(l[j]))] = 1U;
            for (tensor_size_t sidx = 0; why.empty() && sidx < dataset.samples(); ++sidx)
            {
                const auto expected = member[static_cast<size_t>(sidx)] ? C.group(sidx) : tensor_size_t{-1};
                if (c2.group(sidx) != expected)
                    why = "split: sample " + std::to_string(sidx) + " in group " + std::to_string(c2.group(sidx)) + ", expected " + std::to_string(expected);
            }
            for (size_t j = 0; j < l.size(); ++j) gs += (j ? "," : "") + std::to_string(c2.group(samples(l[j])));
        }
        catch (const std::exception& e)
        {
            clear_context();
            why = std::string("exception: ") + e.what();
        }
        if (!why.empty())
        {
            fail("ext-sublist", tag, why + " sample list [" + ids + "] positions [" + pos + "] " + wstr(w));
            break;
        }
        if (is_tree || printed < 3)
        {
            ++printed;
            std::printf("SUB %s | %s | %s\n", tag.c_str(), l.empty() ? "-" : pos.c_str(), l.empty() ? "-" : gs.c_str());
        }
    }
}

void run_case(uint64_t seed, long icase, bool thorough)
{
    gen_t       g(seed);
    std::string kinds, subset;
    const auto  c = make_case(g, thorough, kinds);
    const auto  threads = static_cast<size_t>(g.rng.range(1, 16));
    ctx_t       x;
    x.id    = std::to_string(icase);
    x.c     = &c;
    x.floor = std::numeric_limits<double>::epsilon() * 1e+3;

    c10_datasource_t ds(c);
    ds.load();
    dataset_t dataset{ds, threads};
    dataset.add<sclass_identity_generator_t>();
    dataset.add<mclass_identity_generator_t>();
    dataset.add<scalar_identity_generator_t>();
    dataset.add<struct_identity_generator_t>();
    dataset_t dataset1{ds, 1U};
    dataset1.add<sclass_identity_generator_t>();
    dataset1.add<mclass_identity_generator_t>();
    dataset1.add<scalar_identity_generator_t>();
    dataset1.add<struct_identity_generator_t>();
    x.dataset  = &dataset;
    x.dataset1 = &dataset1;

    const auto gvariant = static_cast<int>(g.rng.range(0, 9));
    x.grads             = make_grads(g, c, gvariant > 6 ? 0 : gvariant);
    x.samples           = make_samples(g, c.rows, subset);
    const auto& samples = x.samples;
    const auto  n       = samples.size();

    cnt.cases++;
    cnt.subsets[subset]++;
    cnt.nhist[n <= 3 ? "2-3" : n <= 6 ? "4-6" : n <= 12 ? "7-12" : n <= 25 ? "13-25" : n <= 45 ? "26-45" : "46+"]++;

    // map the dataset features to the case features and gather the columns
    auto& gg = x.g;
    gg.n     = n;
    gg.no    = c.outs;
    const auto nfeat = dataset.features();
    std::printf("CASE %s n=%d no=%d nf=%d threads=%d subset=%s grads=%d kinds=%s\n", x.id.c_str(), static_cast<int>(n), c.outs,
                static_cast<int>(nfeat), static_cast<int>(threads), subset.c_str(), gvariant, kinds.c_str());
    const auto iterator = select_iterator_t{dataset};
    for (tensor_size_t df = 0; df < nfeat; ++df)
    {
        const auto feature = dataset.feature(df);
        const auto cf      = std::atoi(feature.name().c_str() + 1);
        x.dfeat.push_back(cf);
        const auto& ft = c.feats[static_cast<size_t>(cf)];
        gg.kind.push_back(ft.kind);
        gg.x.emplace_back();
        gg.key.emplace_back();
        gg.hash.emplace_back();
        cnt.kinds[ft.kind == k_scalar ? "scalar" : ft.kind == k_sclass ? "sclass" : ft.kind == k_mclass ? "mclass" : "struct"]++;
        std::string line;
        if (ft.kind == k_scalar)
        {
            for (tensor_size_t i = 0; i < n; ++i)
            {
                const auto s = static_cast<size_t>(samples(i));
                gg.x.back().push_back(ft.present[s] ? ft.sval[s] : std::nan(""));
            }
            // the library's view of the column must agree (dataset views are the subject of C08; a difference here would make every
            // later comparison meaningless, so it is reported)
            iterator.loop(samples, df,
                          [&](tensor_size_t, size_t, scalar_cmap_t fvalues)
                          {
                              for (tensor_size_t i = 0; i < n; ++i)
                              {
                                  const auto a = fvalues(i), b = gg.x.back()[static_cast<size_t>(i)];
                                  if (!((std::isnan(a) && std::isnan(b)) || a == b)) fail("view", x.id, "scalar feature " + std::to_string(df));
                              }
                          });
            std::printf("F %s %d S %s\n", x.id.c_str(), static_cast<int>(df), hexs(gg.x.back().data(), n).c_str());
            if (thresholds_of(gg.x.back()).size() + 1 < static_cast<size_t>(n)) cnt.tie_cases++;
        }
        else if (ft.kind == k_sclass)
        {
            for (tensor_size_t i = 0; i < n; ++i)
            {
                const auto s = static_cast<size_t>(samples(i));
                gg.key.back().push_back(ft.present[s] ? ft.label[s] : -1);
                gg.hash.back().push_back(ft.present[s] ? std::to_string(ft.label[s]) : "-1");
            }
            iterator.loop(samples, df,
                          [&](tensor_size_t, size_t, sclass_cmap_t fvalues)
                          {
                              for (tensor_size_t i = 0; i < n; ++i)
                                  if (static_cast<long long>(fvalues(i)) != gg.key.back()[static_cast<size_t>(i)])
                                      fail("view", x.id, "sclass feature " + std::to_string(df));
                          });
            {
                std::string hs;
                for (size_t i = 0; i < gg.hash.back().size(); ++i) hs += (i ? "," : "") + gg.hash.back()[i];
                std::printf("F %s %d C %s\n", x.id.c_str(), static_cast<int>(df), hs.c_str());
            }
        }
        else if (ft.kind == k_mclass)
        {
            for (tensor_size_t i = 0; i < n; ++i)
            {
                const auto s = static_cast<size_t>(samples(i));
                long long  k = -1;
                if (ft.present[s])
                {
                    k = 0;
                    for (int l = 0; l < ft.classes; ++l) k |= static_cast<long long>(ft.hits[s][static_cast<size_t>(l)] ? 1 : 0) << l;
                }
                gg.key.back().push_back(k);
            }
            iterator.loop(samples, df,
                          [&](tensor_size_t, size_t, mclass_cmap_t fvalues)
                          {
                              for (tensor_size_t i = 0; i < n; ++i)
                              {
                                  const auto values = fvalues.array(i);
                                  const bool miss   = values(0) < 0;
                                  if (miss != (gg.key.back()[static_cast<size_t>(i)] < 0)) fail("view", x.id, "mclass feature " + std::to_string(df));
                                  gg.hash.back().push_back(miss ? std::string("-1")
                                                                : std::to_string(static_cast<unsigned long long>(::nano::hash(values))));
                              }
                          });
            // the library's hash must separate exactly the label sets the harness separates
            std::map<std::string, long long> h2k;
            std::map<long long, std::string> k2h;
            for (tensor_size_t i = 0; i < n; ++i)
            {
                const auto  k = gg.key.back()[static_cast<size_t>(i)];
                const auto& h = gg.hash.back()[static_cast<size_t>(i)];
                if (k < 0) continue;
                if ((h2k.count(h) && h2k[h] != k) || (k2h.count(k) && k2h[k] != h)) obs("hash-collision", x.id, "feature " + std::to_string(df));
                h2k[h] = k;
                k2h[k] = h;
            }
            std::string hs;
            for (size_t i = 0; i < gg.hash.back().size(); ++i) hs += (i ? "," : "") + gg.hash.back()[i];
            std::printf("F %s %d C %s\n", x.id.c_str(), static_cast<int>(df), hs.c_str());
        }
        else
        {
            std::printf("F %s %d X\n", x.id.c_str(), static_cast<int>(df));
        }
    }
    {
        std::string gs;
        for (tensor_size_t i = 0; i < n; ++i)
        {
            if (i) gs += ";";
            gs += hexs(x.grads.data() + samples(i) * c.outs, c.outs);
            gg.r.emplace_back();
            for (int o = 0; o < c.outs; ++o)
            {
                const ld r = -static_cast<ld>(x.grads(samples(i), o, 0, 0));
                gg.r.back().push_back(r);
                gg.sumr2 += r * r;
            }
        }
        std::printf("G %s %s\n", x.id.c_str(), gs.c_str());
    }
    const ld tol = 1e-9L * gg.sumr2 + 1e-15L;
    const auto clampf = [&](ld v) { return std::max(v, static_cast<ld>(x.floor)); };

    // ---- fit every learner -------------------------------------------------------------------------------------------
    const char* names[] = {"stump", "hinge", "affine", "dense-table", "kbest-table", "ksplit-table", "dstep-table", "dtree"};
    const wlearner_criterion crits[] = {wlearner_criterion::rss, wlearner_criterion::aic, wlearner_criterion::aicc,
                                        wlearner_criterion::bic};
    const auto extra = crits[g.rng.range(1, 3)];
    rwlearners_t fitted; // pool for the merge clause
    scalar_t     stump_score[4] = {0, 0, 0, 0};
    rwlearner_t  stumps[4];
    // since repo commit "fix: dstep table with a feature without values" nothing is excluded any more: a categorical feature
    // without any selected value (bins == 0) is a legal input of the discrete-step table (counted, not skipped)
    const bool dstep_ok = true;
    if (!dstep_safe(gg)) cnt.dstep_excluded++;
    for (const char* cname : names)
    {
        const std::string name = cname;
        if (name == "dstep-table" && !dstep_ok) continue;
        for (const auto crit : crits)
        {
            if (!thorough && crit != wlearner_criterion::rss && crit != extra) continue;
            const auto depth     = static_cast<int>(g.rng.range(1, 4));
            const auto min_split = static_cast<int>(g.rng.range(1, 10));
            auto       w         = make_learner(name, crit, depth, min_split);
            const auto score     = w->fit(dataset, samples, x.grads);
            const auto tag       = x.id + " " + name + " " + crit_name(crit);
            cnt.fits++;
            cnt.learners[name]++;
            const bool nofit = score == wlearner_t::no_fit_score();
            if (nofit)
            {
                cnt.nofits++;
                std::printf("FIT %s nofit -\n", tag.c_str());
            }
            else
            {
                std::printf("FIT %s %s %s%s\n", tag.c_str(), vh::hexf(score).c_str(), wstr(*w).c_str(),
                            name == "dtree" ? (" depth=" + std::to_string(depth) + " min_split=" + std::to_string(min_split)).c_str() : "");
            }
            if (!nofit && !std::isfinite(score))
            {
                fail("finite", tag, "score " + vh::hexf(score));
                continue;
            }
            ext_check_tables(x, name, crit, score, *w, nofit);
            ext_check_scalar_criterion(x, name, crit, score, *w, nofit);
            if (!nofit)
                if (const auto* tw = dynamic_cast<const dtree_wlearner_t*>(w.get())) ext_check_tree(x, name, crit_name(crit), *tw);
            if (name == "stump")
            {
                stump_score[static_cast<int>(crit)] = score;
                stumps[static_cast<int>(crit)]      = nofit ? nullptr : w->clone();
            }

            // thread-count independence of the score (the same data behind a one-thread pool)
            // (a deeper tree is greedy: under exact ties the root feature, hence the score of the whole tree, depends on which worker
            //  saw which feature -- only stumps and trees of depth 1 have a tie-independent score)
            if ((crit == wlearner_criterion::rss || thorough) && (name != "dtree" || depth == 1))
            {
                auto       w1     = make_learner(name, crit, depth, min_split);
                const auto score1 = w1->fit(dataset1, samples, x.grads);
                cnt.thread_checks++;
                if (score1 != score)
                {
                    fail("threads", tag, "score with " + std::to_string(threads) + " threads " + vh::hexf(score) + " != one thread " + vh::hexf(score1));
                }
            }

            // optimality over the hypothesis class (RSS criterion)
            if (crit == wlearner_criterion::rss)
            {
                best_t b;
                bool   claimed = true;
                if (name == "stump") b = brute_stump(gg);
                else if (name == "hinge") b = brute_hinge(gg);
                else if (name == "affine") b = brute_affine(gg);
                else if (name == "dense-table") b = brute_dense(gg, false);
                else if (name == "dstep-table") b = brute_dstep(gg);
                else if (name == "kbest-table" || name == "ksplit-table")
                {
                    b       = brute_dense(gg, true);
                    claimed = false;
                }
                if (name != "dtree")
                {
                    cnt.optimal_checks++;
                    std::string why;
                    if (b.any == nofit) why = b.any ? "no fit although the class is not empty" : "fit although the class is empty";
                    else if (b.any && std::fabs(static_cast<ld>(score) - clampf(b.rss)) > tol)
                        why = "score=" + vh::hexf(score) + " brute-force optimum=" + vh::hexf(static_cast<double>(clampf(b.rss)));
                    if (!why.empty())
                    {
                        if (claimed) fail("optimal", tag, why + " " + wstr(*w));
                        else obs("optimal-" + name, tag, why);
                    }
                }
            }
            if (nofit) continue;

            // the predictions reproduce the score (RSS criterion)
            if (crit == wlearner_criterion::rss)
            {
                const auto p   = w->predict(dataset, samples);
                ld         rss = 0;
                for (tensor_size_t i = 0; i < n; ++i)
                    for (int o = 0; o < c.outs; ++o)
                    {
                        const ld d = gg.r[static_cast<size_t>(i)][static_cast<size_t>(o)] - static_cast<ld>(p.data()[i * c.outs + o]);
                        rss += d * d;
                    }
                cnt.reproduce_checks++;
                if (std::fabs(static_cast<ld>(score) - clampf(rss)) > tol)
                {
                    const auto why = "score=" + vh::hexf(score) + " RSS of the predictions=" + vh::hexf(static_cast<double>(rss)) + " " + wstr(*w);
                    if (name == "kbest-table" || name == "ksplit-table" || name == "dtree") obs("reproduce-" + name, tag, why);
                    else fail("reproduce", tag, why);
                }
            }

            check_consistency(g, x, name, crit_name(crit), *w, true);
            check_sublists(g, x, name, crit_name(crit), *w);
            {
                // ... and on ALL samples of the dataset: a sample that was not used for fitting can sit exactly on the fitted
                // mid-point threshold (grids k/4, integers), where predict() and split() must still agree
                ctx_t y = x;
                y.samples = arange(0, dataset.samples());
                check_consistency(g, y, name + "@all", crit_name(crit), *w, false);
            }

            // a tree of depth 1 has the score of the stump (the selected feature may differ under exact ties when several workers
            // fit: the exact comparison of the predictions is made below behind a one-thread pool)
            if (name == "dtree" && depth == 1)
            {
                cnt.depth1_checks++;
                if (!stumps[static_cast<int>(crit)] || stump_score[static_cast<int>(crit)] != score)
                {
                    fail("depth1", tag, "tree score " + vh::hexf(score) + " stump score " + vh::hexf(stump_score[static_cast<int>(crit)]));
                }
            }
            if (fitted.size() < 12U) fitted.emplace_back(w->clone());
        }
    }
    // dtree with max_depth = 1 for every case (the loop above draws the depth at random): same score as the stump, and behind a
    // one-thread pool (deterministic tie-breaking) the same feature, threshold, tables and bit-identical predictions
    for (const auto crit : crits)
    {
        if (!thorough && crit != wlearner_criterion::rss && crit != extra) continue;
        auto       w      = make_learner("dtree", crit, 1, 5);
        auto       st     = make_learner("stump", crit, 1, 5);
        const auto score  = w->fit(dataset1, samples, x.grads);
        const auto sscore = st->fit(dataset1, samples, x.grads);
        const auto tag    = x.id + " dtree1 " + crit_name(crit);
        cnt.depth1_checks++;
        if (score != sscore || sscore != stump_score[static_cast<int>(crit)])
        {
            fail("depth1", tag,
                 "tree score " + vh::hexf(score) + " stump score " + vh::hexf(sscore) + " (pool of " + std::to_string(threads) + ": " +
                     vh::hexf(stump_score[static_cast<int>(crit)]) + ")");
            continue;
        }
        if (score == wlearner_t::no_fit_score()) continue;
        std::printf("FIT %s %s %s\n", tag.c_str(), vh::hexf(score).c_str(), wstr(*w).c_str());
        const auto pt = w->predict(dataset1, samples), ps = st->predict(dataset1, samples);
        std::printf("PRED %s | %s\n", tag.c_str(), preds_str(pt).c_str());
        const auto* tw = dynamic_cast<const dtree_wlearner_t*>(w.get());
        const auto* ts = dynamic_cast<const stump_wlearner_t*>(st.get());
        bool        ok = tw->features().size() == 1 && tw->features()(0) == ts->feature() && tw->nodes().size() == 2U &&
                  tw->nodes()[0].m_threshold == ts->threshold() && tw->tables().size() == ts->tables().size();
        for (tensor_size_t i = 0; ok && i < ts->tables().size(); ++i) ok = tw->tables().data()[i] == ts->tables().data()[i];
        for (tensor_size_t i = 0; ok && i < pt.size(); ++i) ok = pt.data()[i] == ps.data()[i];
        if (!ok)
        {
            fail("depth1", tag, "tree differs from the stump: " + wstr(*w) + " vs " + wstr(*st));
        }
    }

    // ---- extension: the greedy tree fit behind a one-thread pool; the sample count of the hinge criterion ---------------------
    ext_check_tree_fit(g, x, wlearner_criterion::rss);
    if (extra != wlearner_criterion::rss && g.coin(50)) ext_check_tree_fit(g, x, extra);
    {
        // hinge, AIC / AICc / BIC: make_score gets n = samples on the hinge side + missing ones, not all selected samples
        auto       w     = make_learner("hinge", extra, 1, 5);
        const auto score = w->fit(dataset, samples, x.grads);
        if (score != wlearner_t::no_fit_score())
        {
            const auto* ph = dynamic_cast<const hinge_wlearner_t*>(w.get());
            const auto  p  = w->predict(dataset, samples);
            ld          rss = 0, side = 0, miss = 0;
            const auto  cf = x.dfeat[static_cast<size_t>(ph->feature())];
            for (tensor_size_t i = 0; i < n; ++i)
            {
                for (int o = 0; o < c.outs; ++o)
                {
                    const ld d = gg.r[static_cast<size_t>(i)][static_cast<size_t>(o)] - static_cast<ld>(p.data()[i * c.outs + o]);
                    rss += d * d;
                }
                const auto us = static_cast<size_t>(samples(i));
                if (c.feats[static_cast<size_t>(cf)].present[us] == 0U) miss += 1;
                else if ((c.feats[static_cast<size_t>(cf)].sval[us] < ph->threshold()) == (ph->hinge() == hinge_type::left)) side += 1;
            }
            const ld   k = static_cast<ld>(c.outs) + 1;
            minint_t   all, part;
            all.take(crit_interval(extra, rss, tol, x.floor, k, static_cast<ld>(n)));
            part.take(crit_interval(extra, rss, tol, x.floor, k, side + miss));
            if (!all.contains(score) && part.contains(score))
                obs("hinge-criterion-n", x.id + " hinge " + crit_name(extra),
                    "score=" + vh::hexf(score) + " is the criterion with n=" + std::to_string(static_cast<long>(side + miss)) + " (hinge side + missing), not n=" +
                        std::to_string(n) + " (RSS over all samples " + vh::hexf(static_cast<double>(rss)) + ") " + wstr(*w));
            else if (!all.contains(score) && !part.contains(score) && side + miss != static_cast<ld>(n))
                obs("hinge-criterion-other", x.id + " hinge " + crit_name(extra), "score=" + vh::hexf(score) + " " + wstr(*w));
        }
    }

    // ---- merge: a list of learners fitted on other gradients (and clones), the sum of predictions is unchanged --------------
    {
        rwlearners_t list;
        const char*  pool[] = {"affine", "dense-table", "kbest-table", "dstep-table", "ksplit-table", "stump", "hinge", "dtree"};
        const auto   len    = g.rng.range(1, 7);
        const auto   bias   = g.rng.range(0, 4); // 0: any, 1: affine-heavy, 2: table-heavy, 3: clones of the first, 4: k-split groupings
        // bias 4: k-split tables fitted (aicc / bic: fewer groups than labels) on gradients that depend on ONE categorical
        // feature through different 2-groupings of its labels ({0,1}|{2,3} vs {0,2}|{1,3} ...): same feature, same labels, same
        // number of groups, different label -> group mapping -- such learners must NOT be merged element-wise
        int64_t ksf = -1;
        if (bias == 4)
        {
            for (size_t f = 0; f < c.feats.size(); ++f)
                if (c.feats[f].kind == k_sclass && c.feats[f].classes >= 3) { ksf = static_cast<int64_t>(f); break; }
        }
        for (int64_t i = 0; i < len; ++i)
        {
            if (bias == 4 && ksf >= 0)
            {
                const auto& ft = c.feats[static_cast<size_t>(ksf)];
                std::vector<int> grp(static_cast<size_t>(ft.classes));
                do { for (auto& v : grp) v = static_cast<int>(g.rng.range(0, 1)); } while (std::count(grp.begin(), grp.end(), grp[0]) == ft.classes);
                tensor4d_t gr(make_dims(c.rows, c.outs, 1, 1));
                for (tensor_size_t sidx = 0; sidx < c.rows; ++sidx)
                {
                    const auto us = static_cast<size_t>(sidx);
                    for (int o = 0; o < c.outs; ++o)
                    {
                        const double base = ft.present[us] != 0U ? (grp[static_cast<size_t>(ft.label[us])] != 0 ? 4.0 : -4.0) * (o + 1) : 0.0;
                        gr(sidx, o, 0, 0) = base + static_cast<double>(g.rng.range(-2, 2)) / 64.0;
                    }
                }
                auto w = make_learner("ksplit-table", g.coin(50) ? wlearner_criterion::aicc : wlearner_criterion::bic, 1, 5);
                if (w->fit(dataset, samples, gr) != wlearner_t::no_fit_score()) list.emplace_back(std::move(w));
                continue;
            }
            if (bias == 3 && !list.empty() && g.coin(60))
            {
                list.emplace_back(list[0]->clone());
                continue;
            }
            if (!fitted.empty() && g.coin(25))
            {
                list.emplace_back(fitted[static_cast<size_t>(g.rng.range(0, static_cast<int64_t>(fitted.size()) - 1))]->clone());
                continue;
            }
            auto pick = bias == 1 ? (g.coin(75) ? 0 : g.rng.range(0, 7)) : bias == 2 ? (g.coin(75) ? g.rng.range(1, 4) : g.rng.range(0, 7)) : g.rng.range(0, 7);
            if (pick == 3 && !dstep_ok) pick = 1;
            auto       w    = make_learner(pool[pick], wlearner_criterion::rss, static_cast<int>(g.rng.range(1, 3)), 5);
            const auto gr   = make_grads(g, c, static_cast<int>(g.rng.range(0, 3)));
            if (w->fit(dataset, samples, gr) != wlearner_t::no_fit_score()) list.emplace_back(std::move(w));
        }
        if (!list.empty())
        {
            const auto no = static_cast<tensor_size_t>(c.outs);
            tensor4d_t before(make_dims(n, no, 1, 1)), after(make_dims(n, no, 1, 1)), mag(make_dims(n, no, 1, 1));
            before.zero();
            after.zero();
            mag.zero();
            std::string ws_before, ws_after;
            for (const auto& w : list)
            {
                w->predict(dataset, samples, before.tensor());
                const auto p = w->predict(dataset, samples);
                for (tensor_size_t i = 0; i < p.size(); ++i) mag.data()[i] += std::fabs(p.data()[i]);
                if (!table_like(*w))
                {
                    // w * x + b may cancel: the rounding is relative to the summed terms
                    const auto* t  = tables_of(*w);
                    const auto  cf = x.dfeat[static_cast<size_t>(w->features()(0))];
                    for (tensor_size_t i = 0; i < n; ++i)
                    {
                        const auto s = static_cast<size_t>(samples(i));
                        if (x.c->feats[static_cast<size_t>(cf)].present[s] == 0U) continue;
                        const auto xv = x.c->feats[static_cast<size_t>(cf)].sval[s];
                        for (tensor_size_t o = 0; o < no; ++o) mag.data()[i * no + o] += std::fabs(t->data()[o] * xv) + std::fabs(t->data()[no + o]);
                    }
                }
                ws_before += (ws_before.empty() ? "" : ";") + wstr(*w);
            }
            auto merged = ::nano::wlearner::clone(list);
            ::nano::wlearner::merge(merged);
            for (const auto& w : merged)
            {
                w->predict(dataset, samples, after.tensor());
                ws_after += (ws_after.empty() ? "" : ";") + wstr(*w);
            }
            cnt.merges++;
            cnt.merged_pairs += static_cast<long>(list.size() - merged.size());
            std::printf("MERGE %s | %s | %s\n", x.id.c_str(), ws_before.c_str(), ws_after.c_str());
            for (tensor_size_t i = 0; i < before.size(); ++i)
            {
                if (std::fabs(before.data()[i] - after.data()[i]) > 1e-12 * mag.data()[i])
                {
                    fail("merge", x.id,
                         "sample#" + std::to_string(i / no) + " sum before=" + vh::hexf(before.data()[i]) + " after=" + vh::hexf(after.data()[i]) +
                             " learners=" + ws_before + " merged=" + ws_after);
                    break;
                }
            }
            // the merged learners still satisfy the consistency clauses
            for (const auto& w : merged)
            {
                if (g.coin(30)) check_consistency(g, x, "merged", "rss", *w, false);
            }
        }
    }

    // ---- extension 3: more greedy fits for the extracted model (kept last: the random stream of the clauses above is unchanged):
    // a shallow tree with the largest minimum node size (terminal by size), a deep one without size limit, and the other criterion
    ext_check_tree_fit(g, x, wlearner_criterion::rss, 2, static_cast<int>(g.rng.range(1, 10)));
    ext_check_tree_fit(g, x, wlearner_criterion::rss, static_cast<int>(g.rng.range(3, 4)), 10);
    if (g.coin(50)) ext_check_tree_fit(g, x, extra, static_cast<int>(g.rng.range(2, 3)), static_cast<int>(g.rng.range(1, 10)));
}
} // namespace

int main(int argc, char** argv)
{
    std::setvbuf(stdout, nullptr, _IOLBF, 0);
    const std::string tier     = argc > 1 ? argv[1] : "quick";
    const bool        thorough = tier == "thorough";
    const long        cases    = argc > 2 ? std::atol(argv[2]) : (thorough ? 2000 : 300);
    const long        chunk    = argc > 3 ? std::atol(argv[3]) : 0;
    const long        only     = argc > 4 ? std::atol(argv[4]) : -1;
    const auto        seed     = vh::env_seed();

    ::nano::verif::g_max_threads.store(16U); // pool sizes 1..16 regardless of the machine
    for (const int sig : {SIGSEGV, SIGBUS, SIGFPE, SIGILL, SIGABRT}) std::signal(sig, crash_handler);

    if (tier == "probe-dstep-empty")
    {
        // the excluded input: one categorical feature without any value, dstep fit. Prints PROBE-OK <score> if the library survives
        case_t c;
        c.rows = 3;
        c.outs = 1;
        feat_t ft;
        ft.kind    = k_sclass;
        ft.classes = 2;
        ft.present = {0U, 0U, 0U};
        ft.sval.assign(3U, 0.0);
        ft.label.assign(3U, 0);
        ft.hits.assign(3U, {});
        c.feats.push_back(ft);
        c10_datasource_t ds(c);
        ds.load();
        dataset_t dataset{ds, 1U};
        dataset.add<sclass_identity_generator_t>();
        tensor4d_t grads(make_dims(3, 1, 1, 1));
        grads.full(1.0);
        auto w = make_learner("dstep-table", wlearner_criterion::rss, 1, 5);
        std::printf("PROBE-START dstep-table on a categorical feature without values (3 samples, gradients 1,1,1)\n");
        const auto score = w->fit(dataset, arange(0, 3), grads);
        std::printf("PROBE-OK %s\n", score == wlearner_t::no_fit_score() ? "nofit" : vh::hexf(score).c_str());
        return 0;
    }

    std::printf("CONST floor=%s\n", vh::hexf(std::numeric_limits<double>::epsilon() * 1e+3).c_str());
    for (long i = 0; i < cases; ++i)
    {
        if (only >= 0 && i != only) continue;
        const auto icase = chunk * 1000000L + i;
        try
        {
            run_case(mix(mix(seed, static_cast<uint64_t>(chunk)), static_cast<uint64_t>(i)), icase, thorough);
        }
        catch (const std::exception& e)
        {
            fail("exception", std::to_string(icase), e.what());
        }
    }
    const auto hist = [](const std::map<std::string, long>& m)
    {
        std::string s;
        for (const auto& kv : m) s += (s.empty() ? "" : ",") + kv.first + ":" + std::to_string(kv.second);
        return s.empty() ? std::string("-") : s;
    };
    std::printf("DONE cases=%ld fits=%ld nofits=%ld fails=%ld obs=%ld optimal_checks=%ld reproduce_checks=%ld consistency_checks=%ld "
                "dstep_excluded=%ld scale_checks=%ld merges=%ld merged_pairs=%ld depth1_checks=%ld thread_checks=%ld missing_samples=%ld tie_columns=%ld "
                "ext_topk=%ld ext_crit=%ld ext_ksplit=%ld ext_tree=%ld ext_treefit=%ld ext_topk_partial=%ld ext_sublist=%ld ext_sublist_lists=%ld ext_tfit=%ld ext_tfit_nofit=%ld ext_tfit_deep=%ld learners=%s kinds=%s subsets=%s nhist=%s obs_kinds=%s\n",
                cnt.cases, cnt.fits, cnt.nofits, cnt.fails, cnt.obs, cnt.optimal_checks, cnt.reproduce_checks, cnt.consistency_checks,
                cnt.dstep_excluded, cnt.scale_checks, cnt.merges, cnt.merged_pairs, cnt.depth1_checks, cnt.thread_checks, cnt.missing_samples, cnt.tie_cases,
                ext_topk_checks, ext_crit_checks, ext_ksplit_checks, ext_tree_checks, ext_treefit_checks, ext_topk_partial, ext_sublist_checks, ext_sublist_lists, ext_tfit_lines, ext_tfit_nofit, ext_tfit_deep,
                hist(cnt.learners).c_str(), hist(cnt.kinds).c_str(), hist(cnt.subsets).c_str(), hist(cnt.nhist).c_str(),
                hist(cnt.obs_kinds).c_str());
    return 0;
}
