// C15 harness, part 2: fitted models (linear, gradient boosting) and weak learners -- see c15_stream.cpp.
// A small synthetic dataset (categorical, multi-label and continuous inputs with missing values, scalar target) is
// generated from VERIF_SEED; every weak learner type is fitted on the loss gradients, linear models and gradient
// boosting models are fitted with randomly chosen configurations. Each fitted object is serialised, re-read, and the
// re-read object must (a) re-serialise to the same bytes and (b) predict BIT-IDENTICAL outputs (direct oracle).
#pragma once
#include "common.h"
#include <functional>
#include <map>
#include <nano/dataset.h>
#include <nano/dataset/iterator.h>
#include <nano/datasource.h>
#include <nano/gboost/model.h>
#include <nano/generator/elemwise_identity.h>
#include <nano/linear.h>
#include <nano/loss.h>
#include <nano/machine/params.h>
#include <nano/wlearner/affine.h>
#include <nano/wlearner/dtree.h>
#include <nano/wlearner/hinge.h>
#include <nano/wlearner/stump.h>
#include <nano/wlearner/table.h>
#include <sstream>
#include <string>

namespace c15
{
using namespace nano;

using reader_t  = std::function<char(const std::string&, std::string*)>;
using process_t = std::function<void(const std::string&, const std::string&, const reader_t&, const std::string&)>;
using fail_t    = std::function<void(const std::string&)>;

class datasource_c15_t final : public datasource_t
{
public:
    datasource_c15_t(const tensor_size_t samples, const uint64_t seed)
        : datasource_t("c15")
        , m_samples(samples)
        , m_seed(seed)
    {
    }

    rdatasource_t clone() const override { return std::make_unique<datasource_c15_t>(*this); }

private:
    void do_load() override
    {
        const auto features = features_t{
            feature_t{"s0"}.sclass(strings_t{"a", "b", "c"}),
            feature_t{"s1"}.sclass(strings_t{"x", "y"}),
            feature_t{"m0"}.mclass(strings_t{"m0", "m1", "m2"}),
            feature_t{"x0"}.scalar(feature_type::float64),
            feature_t{"x1"}.scalar(feature_type::float32),
            feature_t{"x2"}.scalar(feature_type::float64),
            feature_t{"y"}.scalar(feature_type::float64),
        };
        resize(m_samples, features, 6U);

        vh::rng_t    rng(m_seed);
        const double table[3] = {+0.5, -0.3, +0.9};
        for (tensor_size_t sample = 0; sample < m_samples; ++sample)
        {
            const auto s0 = rng.range(0, 2), s1 = rng.range(0, 1);
            const auto x0 = 2.0 * rng.unit() - 1.0, x1 = 3.0 * rng.unit() - 1.5, x2 = rng.unit();
            tensor_mem_t<int8_t, 1> m(3);
            for (tensor_size_t k = 0; k < 3; ++k) m(k) = static_cast<int8_t>(rng.range(0, 1));

            // optional inputs are missing with probability ~8% each
            if (rng.range(0, 11) != 0) set(sample, 0, s0);
            if (rng.range(0, 11) != 0) set(sample, 1, s1);
            if (rng.range(0, 11) != 0) set(sample, 2, m);
            if (rng.range(0, 11) != 0) set(sample, 3, x0);
            if (rng.range(0, 11) != 0) set(sample, 4, x1);
            if (rng.range(0, 11) != 0) set(sample, 5, x2);

            const auto target = 0.7 * x0 - 0.3 * x1 + (x2 < 0.2 ? 1.5 : -0.5) + table[s0] + (s1 != 0 ? 0.4 : -0.4) +
                                (m(1) != 0 ? 0.25 : 0.0);
            set(sample, 6, target);
        }
    }

    tensor_size_t m_samples{0};
    uint64_t      m_seed{0};
};

inline dataset_t make_dataset(const datasource_t& datasource)
{
    auto dataset = dataset_t{datasource};
    dataset.add<sclass_identity_generator_t>();
    dataset.add<mclass_identity_generator_t>();
    dataset.add<scalar_identity_generator_t>();
    dataset.add<struct_identity_generator_t>();
    return dataset;
}

inline tensor4d_t make_residuals(const dataset_t& dataset, const loss_t& loss)
{
    const auto samples  = arange(0, dataset.samples());
    const auto iterator = targets_iterator_t{dataset, samples};
    tensor4d_t targets(cat_dims(dataset.samples(), dataset.target_dims()));
    iterator.loop([&](const tensor_range_t range, size_t, tensor4d_cmap_t _targets) { targets.slice(range) = _targets; });
    tensor4d_t outputs(targets.dims());
    outputs.zero();
    tensor4d_t residuals(targets.dims());
    loss.vgrad(targets, outputs, residuals);
    return residuals;
}

inline bool same_bits(const tensor4d_t& a, const tensor4d_t& b)
{
    return a.dims() == b.dims() &&
           (a.size() == 0 || std::memcmp(a.data(), b.data(), sizeof(scalar_t) * static_cast<size_t>(a.size())) == 0);
}

template <class tobject>
std::string to_bytes(const tobject& object)
{
    std::ostringstream out;
    ::nano::write(out, object);
    return out.str();
}

inline std::string hex_(const std::string& s)
{
    static const char* d = "0123456789abcdef";
    std::string        o;
    o.reserve(2 * s.size());
    for (unsigned char c : s)
    {
        o.push_back(d[c >> 4]);
        o.push_back(d[c & 15]);
    }
    return o;
}

// a weak learner serialised WITHOUT the factory type id (the read()/write() members alone)
struct bare_wlearner_t
{
    rwlearner_t m_ptr;

    std::ostream&     write(std::ostream& stream) const { return m_ptr->write(stream); }
    std::istream&     read(std::istream& stream) { return m_ptr->read(stream); }
    const wlearner_t& operator*() const { return *m_ptr; }
};

inline int wlearner_kind(const wlearner_t& wlearner)
{
    if (dynamic_cast<const affine_wlearner_t*>(&wlearner) != nullptr) return 0;
    if (dynamic_cast<const stump_wlearner_t*>(&wlearner) != nullptr) return 1;
    if (dynamic_cast<const hinge_wlearner_t*>(&wlearner) != nullptr) return 2;
    if (dynamic_cast<const table_wlearner_t*>(&wlearner) != nullptr) return 3;
    if (dynamic_cast<const dtree_wlearner_t*>(&wlearner) != nullptr) return 4;
    return 9;
}

// a destination that has loaded `dest` reads the valid stream `bytes`: it must then serialise to exactly `bytes`.
// The line is also an input of the stateful reader model (REUSE, see c15_stream.cpp)
template <class tmake>
void reuse_model(const std::string& spec, const tmake& make, const std::string& dest, const std::string& bytes,
                 const std::string& info, const fail_t& fail)
{
    try
    {
        auto               used = make();
        std::istringstream pin(dest);
        if (!::nano::read(pin, used)) return;
        std::istringstream in(bytes);
        if (!::nano::read(in, used))
        {
            std::printf("REUSE %s | %s | %s | R | -\n", spec.c_str(), hex_(dest).c_str(), hex_(bytes).c_str());
            fail("ROUNDTRIP-REUSED " + spec + " valid stream rejected by a used destination (" + info + ")");
            return;
        }
        const auto again = to_bytes(used);
        std::printf("REUSE %s | %s | %s | A | %s\n", spec.c_str(), hex_(dest).c_str(), hex_(bytes).c_str(), hex_(again).c_str());
        if (again != bytes)
        {
            fail("ROUNDTRIP-REUSED " + spec + " the destination keeps stale state (" + info + ") dest hex=" + hex_(dest) +
                 " written hex=" + hex_(bytes) + " re-serialized hex=" + hex_(again));
        }
    }
    catch (const std::exception& e)
    {
        fail("ROUNDTRIP-REUSED " + spec + " exception: " + e.what());
    }
}

// generic: serialise `object`, re-read it with `rd_obj` into a fresh object, compare predictions bit for bit
template <class tobject, class tmake>
void check_model(const std::string& spec, const tobject& object, const tmake& make, const dataset_t& dataset,
                 const std::string& info, const process_t& process, const fail_t& fail)
{
    const auto bytes   = to_bytes(object);
    const auto samples = arange(0, dataset.samples());
    // re-used destination: an object that has loaded the previously serialised object of this spec (stale state of another
    // fitted model: other tensor shapes, other weak learner / node lists, other parameter values) reads this stream
    {
        static std::map<std::string, std::string> previous;
        auto&                                     prev = previous[spec];
        if (!prev.empty()) reuse_model(spec, make, prev, bytes, info, fail);
        prev = bytes;
    }
    try
    {
        auto               other = make();
        std::istringstream stream(bytes);
        if (!::nano::read(stream, other))
        {
            fail("ROUNDTRIP " + spec + " valid stream rejected (" + info + ")");
        }
        else
        {
            const auto& a = [&]() -> const auto&
            {
                if constexpr (std::is_base_of_v<learner_t, tobject>) return object; else return *object;
            }();
            const auto& b = [&]() -> const auto&
            {
                if constexpr (std::is_base_of_v<learner_t, tobject>) return other; else return *other;
            }();
            bool fitted = true;
            tensor4d_t pa, pb;
            try { pa = a.predict(dataset, samples); } catch (const std::exception&) { fitted = false; }
            if (fitted)
            {
                pb = b.predict(dataset, samples);
                if (!same_bits(pa, pb))
                {
                    fail("PREDICT " + spec + " predictions of the re-read object are not bit-identical (" + info + ")");
                }
            }
            if (a.parameters() != b.parameters())
            {
                fail("ROUNDTRIP " + spec + " parameters of the re-read object differ (" + info + ")");
            }
        }
    }
    catch (const std::exception& e)
    {
        fail("ROUNDTRIP " + spec + " exception while re-reading a valid stream: " + e.what());
    }

    process(spec, bytes,
            [make](const std::string& data, std::string* reser) -> char
            {
                try
                {
                    auto               other = make();
                    std::istringstream stream(data);
                    if (!::nano::read(stream, other)) return 'R';
                    if (reser != nullptr) *reser = to_bytes(other);
                    return 'A';
                }
                catch (const std::exception&)
                {
                    return 'X';
                }
            },
            info);
}

inline void all_models(vh::rng_t& rng, const bool thorough, const process_t& process, const fail_t& fail)
{
    // the table of weak learner ids -> wire format kind, for the model
    {
        std::string line;
        for (const auto& id : wlearner_t::all().ids())
        {
            const auto proto = wlearner_t::all().get(id);
            line += (line.empty() ? "" : ",") + id + ":" + std::to_string(wlearner_kind(*proto));
        }
        std::printf("WLIDS %s\n", line.c_str());
        std::string lids;
        for (const auto& id : linear_t::all().ids()) lids += (lids.empty() ? "" : ",") + id;
        std::printf("IDS linear %s\n", lids.c_str());
    }

    const int datasets = thorough ? 3 : 1;
    for (int idata = 0; idata < datasets; ++idata)
    {
        auto datasource = datasource_c15_t{thorough ? 120 : 80, rng.next()};
        datasource.load();
        const auto dataset = make_dataset(datasource);
        const auto samples = arange(0, dataset.samples());
        const auto loss    = loss_t::all().get(rng.range(0, 1) == 0 ? "mse" : "cauchy");

        // every weak learner type, fitted on the gradients of the loss at zero outputs
        const auto residuals = make_residuals(dataset, *loss);
        for (const auto& id : wlearner_t::all().ids())
        {
            auto wlearner = wlearner_t::all().get(id);
            // random valid parameters (keeps defaults where sampling leaves the domain)
            for (const auto& cparam : wlearner->parameters())
            {
                if (const auto* p = std::get_if<parameter_t::irange_t>(&cparam.storage()))
                {
                    try { wlearner->parameter(cparam.name()) = rng.range(p->m_min, std::min(p->m_max, p->m_min + 8)); }
                    catch (const std::exception&) {}
                }
            }
            scalar_t score = 0.0;
            try { score = wlearner->fit(dataset, samples, residuals); }
            catch (const std::exception& e) { fail("FIT wlearner " + id + " threw: " + e.what()); continue; }
            const auto kind = wlearner_kind(*wlearner);
            std::ostringstream info;
            info << "id=" << id << ";score=" << vh::hexf(score);
            // through the factory overload (type id + object) ...
            check_model("object:wlearner", wlearner, [] { return rwlearner_t{}; }, dataset, info.str(), process, fail);
            // ... and the object alone, read into a default-constructed instance of the same type
            check_model("wlearner:" + std::to_string(kind), bare_wlearner_t{wlearner->clone()},
                        [id] { return bare_wlearner_t{wlearner_t::all().get(id)}; }, dataset, info.str(), process, fail);
        }

        // linear models
        const auto lids = linear_t::all().ids();
        for (size_t i = 0; i < lids.size(); ++i)
        {
            if (!thorough && i != static_cast<size_t>(rng.range(0, static_cast<int64_t>(lids.size()) - 1)) && i != 0) continue;
            auto model = linear_t::all().get(lids[i]);
            model->parameter("linear::batch") = rng.range(10, 200);
            auto params = ml::params_t{};
            auto splitter = splitter_t::all().get("k-fold");
            splitter->parameter("splitter::folds") = 2;
            params.splitter(splitter);
            try { model->fit(dataset, samples, *loss, params); }
            catch (const std::exception& e) { fail("FIT linear " + lids[i] + " threw: " + e.what()); continue; }
            std::ostringstream info;
            info << "id=" << lids[i] << ";bias=" << model->bias().size() << ";weights=" << model->weights().rows() << "x" << model->weights().cols();
            check_model("object:linear", model, [] { return rlinear_t{}; }, dataset, info.str(), process, fail);
        }

        // gradient boosting with a random subset of prototypes and a random configuration
        const int gmodels = thorough ? 3 : 1;
        for (int g = 0; g < gmodels; ++g)
        {
            auto model = gboost_model_t{};
            model.parameter("gboost::max_rounds") = rng.range(10, thorough ? 30 : 12);
            model.parameter("gboost::epsilon")    = 1e-6;
            model.parameter("gboost::patience")   = rng.range(1, 3);
            model.parameter("gboost::seed")       = rng.range(0, 1024);
            auto prototypes = rwlearners_t{};
            const auto wids = wlearner_t::all().ids();
            for (const auto& id : wids)
            {
                if (id == "affine" || rng.range(0, thorough ? 1 : 2) == 0) prototypes.emplace_back(wlearner_t::all().get(id));
            }
            model.prototypes(std::move(prototypes));
            auto params   = ml::params_t{};
            auto splitter = splitter_t::all().get("k-fold");
            splitter->parameter("splitter::folds") = 2;
            params.splitter(splitter);
            try { model.fit(dataset, samples, *loss, params); }
            catch (const std::exception& e) { fail(std::string("FIT gboost threw: ") + e.what()); continue; }
            std::ostringstream info;
            info << "wlearners=" << model.wlearners().size() << ";bias=" << model.bias().size();
            check_model("gboost", model, [] { return gboost_model_t{}; }, dataset, info.str(), process, fail);
            // observational identity beyond predictions: the re-read model has the same prototype pool and the same weak learners
            // (type ids, parameters, serialised bytes) -- a re-fit of the loaded model boosts from its prototypes
            const auto same_pool = [&](const gboost_model_t& a, const char* what)
            {
                try
                {
                    auto               b = gboost_model_t{};
                    std::istringstream stream(to_bytes(a));
                    if (!::nano::read(stream, b)) { fail(std::string("ROUNDTRIP gboost ") + what + ": valid stream rejected"); return; }
                    const auto cmp = [&](const rwlearners_t& la, const rwlearners_t& lb, const char* which)
                    {
                        bool same = la.size() == lb.size();
                        for (size_t i = 0; same && i < la.size(); ++i)
                        {
                            same = la[i]->type_id() == lb[i]->type_id() && la[i]->parameters() == lb[i]->parameters() &&
                                   to_bytes(*la[i]) == to_bytes(*lb[i]);
                        }
                        if (!same)
                        {
                            std::string ta, tb;
                            for (const auto& w : la) ta += w->type_id() + ",";
                            for (const auto& w : lb) tb += w->type_id() + ",";
                            fail(std::string("ROUNDTRIP gboost ") + what + ": " + which + " of the re-read model differ: written [" + ta +
                                 "] re-read [" + tb + "]");
                        }
                    };
                    cmp(a.prototypes(), b.prototypes(), "prototypes");
                    cmp(a.wlearners(), b.wlearners(), "weak learners");
                }
                catch (const std::exception& e) { fail(std::string("ROUNDTRIP gboost ") + what + " exception: " + e.what()); }
            };
            same_pool(model, "fitted");
            {
                // configured but not fitted: one prototype with a non-default parameter
                auto fresh = gboost_model_t{};
                auto protos = rwlearners_t{};
                protos.emplace_back(wlearner_t::all().get("dtree"));
                protos.back()->parameter("wlearner::dtree::max_depth") = 2 + static_cast<int>(rng.range(0, 2));
                protos.emplace_back(wlearner_t::all().get("stump"));
                fresh.prototypes(std::move(protos));
                same_pool(fresh, "configured");
                // the fitted model read into the configured one and back (other prototype pool, no weak learners, empty bias)
                const auto make_g = [] { return gboost_model_t{}; };
                reuse_model("gboost", make_g, to_bytes(fresh), to_bytes(model), info.str(), fail);
                reuse_model("gboost", make_g, to_bytes(model), to_bytes(fresh), info.str(), fail);
            }
        }
    }
}
} // namespace c15
