// C15 harness, part 2: fitted models (linear, gradient boosting) and weak learners -- see c15_stream.cpp
#pragma once
#include "common.h"
#include <functional>
#include <string>

namespace c15
{
using reader_t  = std::function<char(const std::string&, std::string*)>;
using process_t = std::function<void(const std::string&, const std::string&, const reader_t&, const std::string&)>;
using fail_t    = std::function<void(const std::string&)>;

inline void all_models(vh::rng_t&, bool, const process_t&, const fail_t&)
{
}
} // namespace c15
