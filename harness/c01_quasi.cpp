// C01 (stage C01Q) harness: the quasi-Newton algebra of libnano recorded through the NANO_VERIF value hooks.
//
//   c01_quasi <quick|thorough> [only-run-id]          (every case derives from VERIF_SEED)
//
// Runs bfgs / dfp / sr1 / hoshino / fletcher (both initialisations of the inverse Hessian) and lbfgs (history 1..30) on
// the quadratic class of the property (0.5 x'Ax + a'x, A = s Q diag(spectrum) Q') and on registered smooth functions, and
// prints every hook event with all doubles as C hex floats:
//     QRUN <id> solver=<id> init=<identity|scaled|-> r=<hex|-> history=<h|-> func=<name> n=<n> eps=<hex> maxev=<k> lsk=<id>
//     QU <id> <k> <n> <dx> | <dg> | <H before, rows separated by ;> | <H after>           (ev_quasi_update, k-th of the run)
//     LD <id> <k> <n> <h> <g> | <s_0;..;s_{h-1}> | <y_0;..;y_{h-1}> | <r>                   (ev_lbfgs_direction; oldest first)
//     QEND <id> status=<int> updates=<count> directions=<count> recorded=<count>
//     DONE runs=<n> updates=<n> directions=<n> recorded=<n>
// The comparison with the exact model and the property oracles (secant equation, symmetry, positive definiteness, descent)
// are done by ocaml/c01q_driver.ml in exact rational arithmetic on these very numbers.
#include "common.h"
#include <algorithm>
#include <nano/solver.h>
#include <nano/verif.h>

using namespace nano;

namespace
{
std::string hv(const double* p, const tensor_size_t n)
{
    std::string s;
    for (tensor_size_t i = 0; i < n; ++i)
    {
        if (i) s += ",";
        s += vh::hexf(p[i]);
    }
    return s.empty() ? std::string("-") : s;
}

// matrix_t is row-major (checked at start-up, see main): n rows of n values
std::string hm2(const double* p, const tensor_size_t rows, const tensor_size_t n)
{
    std::string s;
    for (tensor_size_t i = 0; i < rows; ++i)
    {
        if (i) s += ";";
        s += hv(p + i * n, n);
    }
    return s;
}
std::string hm(const double* p, const tensor_size_t n)
{
    return hm2(p, n, n);
}

// 0.5 x'Ax + a'x with A = s * Q diag(spectrum) Q'   (the class of the property; same construction as harness/c02_solver.cpp)
class quad_function_t final : public function_t
{
public:
    quad_function_t(vh::rng_t& rng, const int n, const double kappa, const double s)
        : function_t("vquad", n), m_A(n, n), m_a(n), m_xstar(n)
    {
        convex(convexity::yes);
        smooth(smoothness::yes);
        matrix_t Q = matrix_t::identity(n, n);
        for (int k = 0; k < n; ++k)
        {
            vector_t v(n);
            double   nv = 0;
            for (int i = 0; i < n; ++i) { v(i) = rng.unit() - 0.5; nv += v(i) * v(i); }
            if (nv < 1e-12) { v(0) = 1.0; nv += 1.0; }
            matrix_t H = matrix_t::identity(n, n);
            for (int i = 0; i < n; ++i)
                for (int j = 0; j < n; ++j) H(i, j) -= 2.0 * v(i) * v(j) / nv;
            matrix_t P(n, n);
            for (int i = 0; i < n; ++i)
                for (int j = 0; j < n; ++j)
                {
                    double acc = 0;
                    for (int l = 0; l < n; ++l) acc += Q(i, l) * H(l, j);
                    P(i, j) = acc;
                }
            Q = P;
        }
        std::vector<double> spec(static_cast<size_t>(n));
        for (int i = 0; i < n; ++i) spec[static_cast<size_t>(i)] = std::exp(std::log(kappa) * rng.unit());
        spec[0] = 1.0;
        if (n > 1) spec[1] = kappa;
        for (int i = 0; i < n; ++i)
            for (int j = 0; j < n; ++j)
            {
                double acc = 0;
                for (int l = 0; l < n; ++l) acc += Q(i, l) * spec[static_cast<size_t>(l)] * Q(j, l);
                m_A(i, j) = s * acc;
            }
        for (int i = 0; i < n; ++i)
            for (int j = i + 1; j < n; ++j) m_A(j, i) = m_A(i, j) = 0.5 * (m_A(i, j) + m_A(j, i));
        for (int i = 0; i < n; ++i) m_xstar(i) = (rng.unit() - 0.5) * 10.0;
        for (int i = 0; i < n; ++i)
        {
            double acc = 0;
            for (int j = 0; j < n; ++j) acc += m_A(i, j) * m_xstar(j);
            m_a(i) = -acc;
        }
        strong_convexity(s);
    }
    rfunction_t clone() const override { return std::make_unique<quad_function_t>(*this); }
    scalar_t    do_vgrad(vector_cmap_t x, vector_map_t gx) const override
    {
        const auto n = size();
        double     f = 0;
        for (tensor_size_t i = 0; i < n; ++i)
        {
            double acc = 0;
            for (tensor_size_t j = 0; j < n; ++j) acc += m_A(i, j) * x(j);
            if (gx.size() == n) gx(i) = acc + m_a(i);
            f += x(i) * (0.5 * acc + m_a(i));
        }
        return f;
    }
    matrix_t m_A;
    vector_t m_a, m_xstar;
};

double log_uniform(vh::rng_t& r, const double lo, const double hi)
{
    return std::exp(std::log(lo) + (std::log(hi) - std::log(lo)) * r.unit());
}

vector_t make_x0(vh::rng_t& r, const tensor_size_t n, const double radius)
{
    vector_t x(n);
    for (tensor_size_t i = 0; i < n; ++i) x(i) = (r.unit() * 2.0 - 1.0) * radius;
    return x;
}

// ---- the hook ------------------------------------------------------------------------------------------------------
long g_id = 0, g_cap = 0, g_updates = 0, g_directions = 0, g_recorded = 0;
long g_total_updates = 0, g_total_directions = 0, g_total_recorded = 0;

void on_values(const int kind, const void*, const double* v, const int count)
{
    if (kind == verif::ev_quasi_update)
    {
        const auto k = g_updates++;
        const auto n = static_cast<tensor_size_t>(v[0]);
        if (count != 1 + 2 * n + 2 * n * n) { std::printf("FAIL %ld hook-layout quasi count=%d n=%ld\n", g_id, count, static_cast<long>(n)); return; }
        if (k >= g_cap) return;
        ++g_recorded;
        const double* dx = v + 1;
        const double* dg = dx + n;
        const double* H0 = dg + n;
        const double* H1 = H0 + n * n;
        std::printf("QU %ld %ld %ld %s | %s | %s | %s\n", g_id, k, static_cast<long>(n), hv(dx, n).c_str(), hv(dg, n).c_str(),
                    hm(H0, n).c_str(), hm(H1, n).c_str());
    }
    else if (kind == verif::ev_lbfgs_direction)
    {
        const auto k = g_directions++;
        const auto n = static_cast<tensor_size_t>(v[0]);
        const auto h = static_cast<tensor_size_t>(v[1]);
        if (count != 2 + 2 * n + 2 * n * h) { std::printf("FAIL %ld hook-layout lbfgs count=%d n=%ld h=%ld\n", g_id, count, static_cast<long>(n), static_cast<long>(h)); return; }
        if (k >= g_cap) return;
        ++g_recorded;
        const double* g  = v + 2;
        const double* ss = g + n;
        const double* ys = ss + n * h;
        const double* r  = ys + n * h;
        std::printf("LD %ld %ld %ld %ld %s | %s | %s | %s\n", g_id, k, static_cast<long>(n), static_cast<long>(h), hv(g, n).c_str(),
                    h ? hm2(ss, h, n).c_str() : "-", h ? hm2(ys, h, n).c_str() : "-", hv(r, n).c_str());
    }
}
} // namespace

int main(int argc, char** argv)
{
    std::setvbuf(stdout, nullptr, _IOLBF, 0);
    const std::string tier     = argc > 1 ? argv[1] : "quick";
    const long        only     = argc > 2 ? std::atol(argv[2]) : -1;
    const bool        thorough = tier == "thorough";
    const auto        seed     = vh::env_seed();

    // storage order of matrix_t::data(): the hook copies H.data(); rows are printed assuming row-major
    {
        matrix_t M = matrix_t::zero(2, 2);
        M(0, 1)    = 1.0;
        if (M.data()[1] != 1.0) { std::printf("FAIL 0 matrix-storage-not-row-major\n"); }
    }
    verif::g_values_hook.store(&on_values);

    // registered smooth functions
    std::vector<std::string> smooth_ids;
    for (const auto& id : function_t::all().ids())
    {
        const auto f = function_t::all().get(id)->make(4, 10);
        if (f && f->smooth()) smooth_ids.push_back(id);
    }

    static const char* quasi[] = {"bfgs", "dfp", "sr1", "hoshino", "fletcher"};
    static const char* lks[]   = {"cgdescent", "morethuente", "fletcher", "lemarechal", "backtrack"};
    static const int   dims[]  = {2, 3, 4, 5, 6, 8, 10, 12, 16};
    g_cap = thorough ? 40 : 24;

    long id = 0, runs = 0;
    const long cap0 = g_cap;
    const auto run = [&](const std::string& sid, const std::string& init, const double r, const long history, vh::rng_t& rng, const long k)
    {
        // lbfgs with a long history: a problem that needs more iterations than the history holds (n = 16, kappa = 1e3, tight epsilon)
        const bool  hard  = sid == "lbfgs" && history > 6;
        const int   n     = hard ? 16 : ((k % 11 == 10) ? 1 : dims[rng.range(0, 8)]);
        const bool  quad  = smooth_ids.empty() || (k % 3 != 2) || hard;
        g_cap             = hard ? cap0 + 24 : cap0;
        rfunction_t fn;
        std::string fname;
        if (quad)
        {
            const double kappa = (hard || k % 7 == 0) ? 1e3 : ((k % 7 == 5) ? 1.0 : log_uniform(rng, 1, 1e3));
            const double s     = (k % 5 == 0) ? 1e3 : ((k % 5 == 4) ? 1e-3 : log_uniform(rng, 1e-3, 1e3));
            fn                 = std::make_unique<quad_function_t>(rng, n, kappa, s);
            fname              = "vquad[k=" + vh::hexf(kappa) + ",s=" + vh::hexf(s) + "]";
        }
        else
        {
            for (int t = 0; t < 20 && !(fn && fn->smooth()); ++t)
                fn = function_t::all().get(smooth_ids[static_cast<size_t>(rng.range(0, static_cast<int64_t>(smooth_ids.size()) - 1))])->make(n, rng.range(10, 40));
            if (!fn || !fn->smooth()) return;
            fname = fn->name();
        }
        auto solver = solver_t::all().get(sid);
        const double eps   = hard ? 1e-13 : ((k % 2 == 0) ? 1e-8 : log_uniform(rng, 1e-12, 1e-4));
        const long   maxev = thorough ? 2000 : 600;
        solver->parameter("solver::epsilon")   = eps;
        solver->parameter("solver::max_evals") = static_cast<int64_t>(maxev);
        std::string lsk = solver->lsearchk().type_id();
        if (k % 4 == 3)
        {
            lsk = lks[rng.range(0, 4)];
            solver->lsearchk(lsk);
        }
        if (init != "-") solver->parameter("solver::quasi::initialization") = init;
        if (sid == "sr1") solver->parameter("solver::quasi::sr1::r") = r;
        if (sid == "lbfgs") solver->parameter("solver::lbfgs::history") = static_cast<int64_t>(history);
        const auto x0 = make_x0(rng, fn->size(), (k % 3 == 0) ? 10.0 : log_uniform(rng, 1e-3, 10.0));
        vector_t   g0(fn->size());
        if (!std::isfinite(fn->vgrad(x0, g0))) return;
        g_id = id;
        g_updates = g_directions = g_recorded = 0;
        std::printf("QRUN %ld solver=%s init=%s r=%s history=%s func=%s n=%ld eps=%s maxev=%ld lsk=%s\n", id, sid.c_str(), init.c_str(),
                    sid == "sr1" ? vh::hexf(r).c_str() : "-", sid == "lbfgs" ? std::to_string(history).c_str() : "-", fname.c_str(),
                    static_cast<long>(fn->size()), vh::hexf(eps).c_str(), maxev, lsk.c_str());
        const auto state = solver->minimize(*fn, x0, make_null_logger());
        std::printf("QEND %ld status=%d updates=%ld directions=%ld recorded=%ld\n", id, static_cast<int>(state.status()), g_updates, g_directions, g_recorded);
        g_total_updates += g_updates;
        g_total_directions += g_directions;
        g_total_recorded += g_recorded;
        ++runs;
    };

    // (a) the five quasi-Newton updates x both initialisations
    const long per = thorough ? 40 : 5;
    for (const auto* sid : quasi)
        for (int init = 0; init < 2; ++init)
            for (long k = 0; k < per; ++k, ++id)
            {
                vh::rng_t rng(seed * 1000003ULL + static_cast<uint64_t>(id) * 7919ULL + 23);
                if (only >= 0 && id != only) continue;
                // sr1: the safeguard threshold from its whole domain (0, 1): the default 1e-8, tiny, and large values that refuse updates
                const double r = (k % 3 == 0) ? 1e-8 : ((k % 3 == 1) ? log_uniform(rng, 1e-12, 1e-2) : log_uniform(rng, 1e-2, 0.9));
                run(sid, init ? "scaled" : "identity", r, 0, rng, k);
            }
    // (b) L-BFGS with every history size 1..30
    const long reps = thorough ? 8 : 1;
    for (long rep = 0; rep < reps; ++rep)
        for (long h = 1; h <= 30; ++h, ++id)
        {
            vh::rng_t rng(seed * 1000003ULL + static_cast<uint64_t>(id) * 7919ULL + 29);
            if (only >= 0 && id != only) continue;
            run("lbfgs", "-", 0.0, h, rng, h + rep);
        }
    std::printf("DONE runs=%ld updates=%ld directions=%ld recorded=%ld functions=%zu\n", runs, g_total_updates, g_total_directions, g_total_recorded,
                smooth_ids.size());
    return 0;
}
