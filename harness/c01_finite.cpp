// C01 (stage C01F) harness: finite termination of the conjugate-gradient, BFGS and L-BFGS solvers of libnano on strictly
// convex quadratics with (nearly) EXACT line searches.
//
//   c01_finite <quick|thorough> [only-run-id]          (every case derives from VERIF_SEED)
//
// Instances f(x) = x'Ax/2 + a'x with SMALL-INTEGER data, so that ocaml/c01f_driver.ml rebuilds them exactly as rationals:
//   dd1      n in 1..6 (thorough: 1..8), A symmetric, off-diagonal entries in {-1,0,1}, diagonal = sum_j |A_ij| + (1..4)
//            (strictly diagonally dominant => symmetric positive definite, well conditioned)
//   dd2      the same with off-diagonal entries in {-2..2}
//   lowrank  A = c I + u u', c in 1..4, u in {-2..2}^n  (two distinct eigenvalues: conjugate gradients need <= 2 iterations)
//   a in {-5..5}^n, x0 in {-10..10}^n.
// Solvers: the ten cgd ids (solver::cgd::orthotest = 0.1 and a few other values, solver::cgdN::eta default), bfgs with
//   solver::quasi::initialization = identity / scaled, lbfgs with solver::lbfgs::history in {1, 2, 3, 20};
//   16 (thorough: 160) runs per configuration, bfgs twice as many: 288 / 2880 runs.
// Line search: lsearchk = morethuente (strong Wolfe conditions |g(t).d| <= c2 |g(0).d|: two-sided, so a tiny c2 forces the
//   minimiser along d) with solver::tolerance = (c1, c2) = (1e-12, 1e-9), lsearch0 in {quadratic, constant, cgdescent, linear},
//   solver::epsilon = 1e-10, solver::max_evals = 2000.  Calibration (measured, seeds 1..7 and 20260926, thorough size):
//     - morethuente at (1e-12, 1e-9): every line search of a live iteration ends with |g(t).d| / |g(0).d| <= 1e-9 (median 2e-16:
//       the quadratic / secant interpolation is exact on a quadratic); a tighter c2 (1e-12 or 1e-13) is WORSE: the search then
//       sometimes ends by its "no further progress" exits with ratios up to 2e-6; a looser c2 (1e-6, 1e-3) gives 5e-7 .. 9e-4;
//     - cgdescent, lemarechal (Wolfe / approximate Wolfe: one-sided, an overshooting step is accepted) and backtrack (Armijo)
//       are NOT exact whatever (c1, c2) is (ratio up to 0.99; 15..80% of the runs need more than n + 2 iterations), fletcher
//       (strong Wolfe) ends ~7% of the runs without `converged` at this c2: all four are excluded;
//     - solver::epsilon: at the first state with |g_k|_2 <= 1e-10 |g_0|_2 the criterion |g|_inf / max(1, |f|) is <= 3.3e-12 and
//       before it >= 1e-7; below 1e-11 the solver sometimes cannot stop (the line search works on f values: 1 run of 10240
//       at 1e-12, 3% of the runs at 1e-14 end with max_iters after 2000 evaluations at |g| ~ 1e-12).
//   Calibration knobs (never set by tools/checks/c01.py; the values used are recorded in FRUN and read by the driver):
//   C01F_LSK=<id[,id..]> C01F_LS0=<id> C01F_C1=<double> C01F_C2=<double> C01F_EPS=<double>
// Output (all doubles as C hex floats, integers in decimal):
//     FRUN <id> solver=<sid> init=<identity|scaled|-> history=<h|-> orthotest=<hex|-> eta=<hex|-> n=<n> ls0=<id> lsk=<id>
//          c1=<hex> c2=<hex> eps=<hex> fam=<dd1|dd2|lowrank> | <A row-major integers> | <a integers> | <x0 integers>
//     FI <id> <k> <fcalls+gcalls so far> <f> | <x> | <g>        one per solver_t::done() call (k = 0: the initial state)
//     CD <id> <k> <n> <beta> <restarted> <orthotest> | <previous g> | <previous d> | <g> | <chosen d>      (ev_cgd_direction)
//     QU <id> <k> <n> <dx> | <dg> | <H before, rows separated by ;> | <H after>                           (ev_quasi_update)
//     LD <id> <k> <n> <h> <g> | <s_0;..;s_{h-1}> | <y_0;..;y_{h-1}> | <r>                                   (ev_lbfgs_direction)
//     FEND <id> status=<int> iters=<done() calls - 1> fcalls=<n> gcalls=<n> reach=<first k with |g_k|_2 <= 1e-10 |g_0|_2, or -1>
//     FAIL <id> <tag> <details>     direct oracle, independent of any model:
//          not-converged        the returned status is not `converged`
//          finite-termination   reach is -1 or reach > n + 2
//     DONE runs=<n> states=<n> cd=<n> qu=<n> ld=<n> fails=<n>
// The comparison with the exact model and the remaining oracles are done by ocaml/c01f_driver.ml on these very numbers.
#include "common.h"
#include <algorithm>
#include <nano/solver.h>
#include <nano/verif.h>

using namespace nano;

namespace
{
std::string hv(const double* p, const tensor_size_t n)
{
    std::string s;
    for (tensor_size_t i = 0; i < n; ++i)
    {
        if (i) s += ",";
        s += vh::hexf(p[i]);
    }
    return s.empty() ? std::string("-") : s;
}

// matrix_t is row-major (checked at start-up, see main): rows of n values
std::string hm2(const double* p, const tensor_size_t rows, const tensor_size_t n)
{
    std::string s;
    for (tensor_size_t i = 0; i < rows; ++i)
    {
        if (i) s += ";";
        s += hv(p + i * n, n);
    }
    return s;
}

std::string iv(const std::vector<long>& v)
{
    std::string s;
    for (size_t i = 0; i < v.size(); ++i)
    {
        if (i) s += ",";
        s += std::to_string(v[i]);
    }
    return s;
}

// 0.5 x'Ax + a'x with integer data; evaluated with plain scalar loops exactly like quad_function_t of harness/c01_cgd.cpp
class iquad_function_t final : public function_t
{
public:
    iquad_function_t(const int n, const std::vector<long>& A, const std::vector<long>& a)
        : function_t("viquad", n), m_A(n, n), m_a(n)
    {
        convex(convexity::yes);
        smooth(smoothness::yes);
        for (int i = 0; i < n; ++i)
        {
            for (int j = 0; j < n; ++j) m_A(i, j) = static_cast<double>(A[static_cast<size_t>(i * n + j)]);
            m_a(i) = static_cast<double>(a[static_cast<size_t>(i)]);
        }
        strong_convexity(1.0);
    }
    rfunction_t clone() const override { return std::make_unique<iquad_function_t>(*this); }
    scalar_t    do_vgrad(vector_cmap_t x, vector_map_t gx) const override
    {
        const auto n = size();
        double     f = 0;
        for (tensor_size_t i = 0; i < n; ++i)
        {
            double acc = 0;
            for (tensor_size_t j = 0; j < n; ++j) acc += m_A(i, j) * x(j);
            if (gx.size() == n) gx(i) = acc + m_a(i);
            f += x(i) * (0.5 * acc + m_a(i));
        }
        return f;
    }
    matrix_t m_A;
    vector_t m_a;
};

// ---- the hooks -----------------------------------------------------------------------------------------------------
long   g_id = 0, g_states = 0, g_cd = 0, g_qu = 0, g_ld = 0, g_reach = -1;
long   g_total_states = 0, g_total_cd = 0, g_total_qu = 0, g_total_ld = 0;
double g_g0norm = 0.0;
const long g_cap = 64;        // n + 2 iterations are expected; anything beyond 64 events per run is not printed

double norm2(const vector_t& v)
{
    double s = 0;
    for (tensor_size_t i = 0; i < v.size(); ++i) s += v(i) * v(i);
    return std::sqrt(s);
}

void on_event(const int kind, const void* object, const std::uint64_t, const std::uint64_t)
{
    if (kind != verif::ev_solver_done || object == nullptr) return;
    const auto& state = *static_cast<const solver_state_t*>(object);
    const auto  k     = g_states++;
    const auto  n     = state.x().size();
    // the counters of the state are updated after the hook (state.update_calls()): read the function's
    const auto calls = state.function().fcalls() + state.function().gcalls();
    const auto gn    = norm2(state.gx());
    if (k == 0) g_g0norm = gn;
    if (g_reach < 0 && gn <= 1e-10 * g_g0norm) g_reach = k;
    if (k >= g_cap) return;
    std::printf("FI %ld %ld %ld %s | %s | %s\n", g_id, k, static_cast<long>(calls), vh::hexf(state.fx()).c_str(),
                hv(state.x().data(), n).c_str(), hv(state.gx().data(), n).c_str());
}

void on_values(const int kind, const void*, const double* v, const int count)
{
    if (kind == verif::ev_cgd_direction)
    {
        const auto k = g_cd++;
        const auto n = static_cast<tensor_size_t>(v[0]);
        if (count != 4 + 4 * n) { std::printf("FAIL %ld hook-layout cgd count=%d n=%ld\n", g_id, count, static_cast<long>(n)); return; }
        if (k >= g_cap) return;
        const double* pg = v + 4;
        const double* pd = pg + n;
        const double* g  = pd + n;
        const double* d  = g + n;
        std::printf("CD %ld %ld %ld %s %d %s | %s | %s | %s | %s\n", g_id, k, static_cast<long>(n), vh::hexf(v[1]).c_str(),
                    v[2] != 0.0 ? 1 : 0, vh::hexf(v[3]).c_str(), hv(pg, n).c_str(), hv(pd, n).c_str(), hv(g, n).c_str(), hv(d, n).c_str());
    }
    else if (kind == verif::ev_quasi_update)
    {
        const auto k = g_qu++;
        const auto n = static_cast<tensor_size_t>(v[0]);
        if (count != 1 + 2 * n + 2 * n * n) { std::printf("FAIL %ld hook-layout quasi count=%d n=%ld\n", g_id, count, static_cast<long>(n)); return; }
        if (k >= g_cap) return;
        const double* dx = v + 1;
        const double* dg = dx + n;
        const double* H0 = dg + n;
        const double* H1 = H0 + n * n;
        std::printf("QU %ld %ld %ld %s | %s | %s | %s\n", g_id, k, static_cast<long>(n), hv(dx, n).c_str(), hv(dg, n).c_str(),
                    hm2(H0, n, n).c_str(), hm2(H1, n, n).c_str());
    }
    else if (kind == verif::ev_lbfgs_direction)
    {
        const auto k = g_ld++;
        const auto n = static_cast<tensor_size_t>(v[0]);
        const auto h = static_cast<tensor_size_t>(v[1]);
        if (count != 2 + 2 * n + 2 * n * h) { std::printf("FAIL %ld hook-layout lbfgs count=%d n=%ld h=%ld\n", g_id, count, static_cast<long>(n), static_cast<long>(h)); return; }
        if (k >= g_cap) return;
        const double* g  = v + 2;
        const double* ss = g + n;
        const double* ys = ss + n * h;
        const double* r  = ys + n * h;
        std::printf("LD %ld %ld %ld %ld %s | %s | %s | %s\n", g_id, k, static_cast<long>(n), static_cast<long>(h), hv(g, n).c_str(),
                    h ? hm2(ss, h, n).c_str() : "-", h ? hm2(ys, h, n).c_str() : "-", hv(r, n).c_str());
    }
}

struct config_t
{
    const char* solver;
    const char* init;    // bfgs: identity | scaled; "-" otherwise
    long        history; // lbfgs; 0 otherwise
    long        weight;  // runs of this configuration = weight * (16 quick | 160 thorough)
};

double env_double(const char* name, const double dflt)
{
    const char* s = std::getenv(name);
    return s ? std::strtod(s, nullptr) : dflt;
}
} // namespace

int main(int argc, char** argv)
{
    std::setvbuf(stdout, nullptr, _IOLBF, 0);
    const std::string tier     = argc > 1 ? argv[1] : "quick";
    const long        only     = argc > 2 ? std::atol(argv[2]) : -1;
    const bool        thorough = tier == "thorough";
    const auto        seed     = vh::env_seed();

    long fails = 0;
    // storage order of matrix_t::data(): the quasi-Newton hook copies H.data(); rows are printed assuming row-major
    {
        matrix_t M = matrix_t::zero(2, 2);
        M(0, 1)    = 1.0;
        if (M.data()[1] != 1.0) { std::printf("FAIL 0 matrix-storage-not-row-major\n"); ++fails; }
    }
    verif::g_event_hook.store(&on_event);
    verif::g_values_hook.store(&on_values);

    static const config_t configs[] = {
        {"cgd-hs", "-", 0, 1},   {"cgd-fr", "-", 0, 1},   {"cgd-pr", "-", 0, 1},   {"cgd-cd", "-", 0, 1},   {"cgd-ls", "-", 0, 1},
        {"cgd-dy", "-", 0, 1},   {"cgd-n", "-", 0, 1},    {"cgd-dycd", "-", 0, 1}, {"cgd-dyhs", "-", 0, 1}, {"cgd-frpr", "-", 0, 1},
        {"bfgs", "identity", 0, 2}, {"bfgs", "scaled", 0, 2},
        {"lbfgs", "-", 1, 1},    {"lbfgs", "-", 2, 1},    {"lbfgs", "-", 3, 1},    {"lbfgs", "-", 20, 1}};
    for (const auto& c : configs)
        if (!solver_t::all().get(c.solver)) { std::printf("FAIL 0 missing-solver %s\n", c.solver); ++fails; }

    // the line-search configuration (see the header): as exact as the parameter domain 0 < c1 < c2 < 1 usefully allows
    std::vector<std::string> lsks = {"morethuente"};
    if (const char* s = std::getenv("C01F_LSK")) lsks = vh::split(s, ',');
    std::vector<std::string> ls0s = {"quadratic", "constant", "cgdescent", "linear"};
    if (const char* s = std::getenv("C01F_LS0")) ls0s = vh::split(s, ',');
    const double c1  = env_double("C01F_C1", 1e-12);
    const double c2  = env_double("C01F_C2", 1e-9);
    const double eps = env_double("C01F_EPS", 1e-10);
    // orthotest: the default (half of the runs) and a few other values of its domain (0, 1)
    static const double orthotests[] = {0.1, 0.1, 0.1, 0.1, 0.01, 0.5, 0.9, 0.001};

    const long per = thorough ? 160 : 16;
    long       id = 0, runs = 0;
    for (const auto& c : configs)
        for (const auto& lsk : lsks)
            for (long k = 0; k < per * c.weight; ++k, ++id)
            {
                vh::rng_t rng(seed * 1000003ULL + static_cast<uint64_t>(id) * 7919ULL + 41);
                if (only >= 0 && id != only) continue;
                const std::string sid   = c.solver;
                const bool        is_cg = sid.rfind("cgd", 0) == 0;
                // ---- the instance: small integers ----
                const int         n   = static_cast<int>(rng.range(1, thorough ? 8 : 6));
                const int         fam = static_cast<int>(k % 4);         // 0, 1: dd1   2: dd2   3: lowrank
                const char*       fname = fam <= 1 ? "dd1" : (fam == 2 ? "dd2" : "lowrank");
                const auto        un  = static_cast<size_t>(n);
                std::vector<long> A(un * un, 0), a(un), x0(un);
                if (fam <= 2)
                {
                    const long amp = fam == 2 ? 2 : 1;
                    for (size_t i = 0; i < un; ++i)
                        for (size_t j = i + 1; j < un; ++j) A[i * un + j] = A[j * un + i] = rng.range(-amp, amp);
                    for (size_t i = 0; i < un; ++i)
                    {
                        long s = 0;
                        for (size_t j = 0; j < un; ++j)
                            if (j != i) s += std::labs(A[i * un + j]);
                        A[i * un + i] = s + rng.range(1, 4);
                    }
                }
                else
                {
                    const long        cc = rng.range(1, 4);
                    std::vector<long> u(un);
                    for (auto& x : u) x = rng.range(-2, 2);
                    for (size_t i = 0; i < un; ++i)
                        for (size_t j = 0; j < un; ++j) A[i * un + j] = u[i] * u[j] + (i == j ? cc : 0);
                }
                for (auto& x : a) x = rng.range(-5, 5);
                for (auto& x : x0) x = rng.range(-10, 10);
                const iquad_function_t fn(n, A, a);

                // ---- the solver ----
                auto         solver = solver_t::all().get(sid);
                const double ot     = orthotests[rng.range(0, 7)];
                const auto&  ls0    = ls0s[static_cast<size_t>(k / 4) % ls0s.size()];
                const double eta    = 0.01;         // the default of solver::cgdN::eta
                solver->parameter("solver::epsilon")   = eps;
                solver->parameter("solver::max_evals") = static_cast<int64_t>(2000);
                solver->parameter("solver::tolerance") = std::make_tuple(c1, c2);
                if (is_cg) solver->parameter("solver::cgd::orthotest") = ot;
                if (sid == "cgd-n") solver->parameter("solver::cgdN::eta") = eta;
                if (sid == "bfgs") solver->parameter("solver::quasi::initialization") = std::string(c.init);
                if (sid == "lbfgs") solver->parameter("solver::lbfgs::history") = static_cast<int64_t>(c.history);
                solver->lsearch0(ls0);
                solver->lsearchk(lsk);

                vector_t vx0(n);
                for (int i = 0; i < n; ++i) vx0(i) = static_cast<double>(x0[static_cast<size_t>(i)]);

                g_id     = id;
                g_states = g_cd = g_qu = g_ld = 0;
                g_reach  = -1;
                g_g0norm = 0.0;
                std::printf("FRUN %ld solver=%s init=%s history=%s orthotest=%s eta=%s n=%d ls0=%s lsk=%s c1=%s c2=%s eps=%s fam=%s | %s | %s | %s\n",
                            id, sid.c_str(), c.init, sid == "lbfgs" ? std::to_string(c.history).c_str() : "-",
                            is_cg ? vh::hexf(ot).c_str() : "-", sid == "cgd-n" ? vh::hexf(eta).c_str() : "-", n,
                            solver->lsearch0().type_id().c_str(), solver->lsearchk().type_id().c_str(), vh::hexf(c1).c_str(),
                            vh::hexf(c2).c_str(), vh::hexf(eps).c_str(), fname, iv(A).c_str(), iv(a).c_str(), iv(x0).c_str());
                const auto state = solver->minimize(fn, vx0, make_null_logger());
                std::printf("FEND %ld status=%d iters=%ld fcalls=%ld gcalls=%ld reach=%ld\n", id, static_cast<int>(state.status()),
                            g_states - 1, static_cast<long>(fn.fcalls()), static_cast<long>(fn.gcalls()), g_reach);
                // ---- the direct oracles ----
                if (state.status() != solver_status::converged)
                {
                    std::printf("FAIL %ld not-converged solver=%s lsk=%s n=%d status=%d iters=%ld evals=%ld |g|/|g0|=%s\n", id, sid.c_str(),
                                lsk.c_str(), n, static_cast<int>(state.status()), g_states - 1,
                                static_cast<long>(fn.fcalls() + fn.gcalls()),
                                vh::hexf(g_g0norm > 0 ? norm2(state.gx()) / g_g0norm : 0.0).c_str());
                    ++fails;
                }
                if (g_reach < 0 || g_reach > n + 2)
                {
                    std::printf("FAIL %ld finite-termination solver=%s lsk=%s n=%d reach=%ld iters=%ld: |g_k|_2 <= 1e-10 |g_0|_2 not within n + 2 iterations\n",
                                id, sid.c_str(), lsk.c_str(), n, g_reach, g_states - 1);
                    ++fails;
                }
                g_total_states += g_states;
                g_total_cd += g_cd;
                g_total_qu += g_qu;
                g_total_ld += g_ld;
                ++runs;
            }
    std::printf("DONE runs=%ld states=%ld cd=%ld qu=%ld ld=%ld fails=%ld\n", runs, g_total_states, g_total_cd, g_total_qu, g_total_ld, fails);
    return 0;
}
