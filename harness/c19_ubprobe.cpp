// C19 UB probe: is `static_cast<int64_t>(double)` executed outside its defined domain?
// Built together with /repo/src/parameter.cpp under -fsanitize=float-cast-overflow (recovering), so that UBSan prints
// "runtime error: ... is outside the range of representable values of type 'long'" right after the CALL line that
// triggers it. Prints, per call, what the library did (THROW / accepted + stored value).
// Since fix 0c6dfeb every ASSIGN of a non-convertible double must THROW without any report from src/parameter.cpp
// (tools/checks/c19.py gates on both); the CONSTRUCT calls document what is still unguarded (make_scalar_ in
// include/nano/parameter.h casts programmer-given doubles) and are informational.
#include "common.h"
#include <limits>
#include <nano/parameter.h>

using namespace nano;

namespace
{
template <class tassign>
void probe(const char* what, parameter_t p, const tassign& assign)
{
    std::printf("CALL %s\n", what);
    std::fflush(stdout);
    bool threw = false;
    try
    {
        assign(p);
    }
    catch (std::exception&)
    {
        threw = true;
    }
    std::ostringstream o;
    o << p.value();
    std::printf("ASSIGN %s -> %s stored=%s\n", what, threw ? "THROW" : "ACCEPTED", o.str().c_str());
    std::fflush(stdout);
}
} // namespace

int main()
{
    std::setvbuf(stdout, nullptr, _IOLBF, 0);
    const double  inf  = std::numeric_limits<double>::infinity();
    const double  nan  = std::nan("");
    const int64_t imin = std::numeric_limits<int64_t>::min();
    const int64_t imax = std::numeric_limits<int64_t>::max();

    // a domain as registered by the library (solver::max_iters): 10 <= v <= 1000
    const auto lib = parameter_t::make_integer("solver::max_iters", 10, LE, 300, LE, 1000);
    probe("make_integer(10<=300<=1000) = NaN", lib, [&](parameter_t& p) { p = nan; });
    probe("make_integer(10<=300<=1000) = +inf", lib, [&](parameter_t& p) { p = inf; });
    probe("make_integer(10<=300<=1000) = 1e19", lib, [&](parameter_t& p) { p = 1e19; });
    probe("make_integer(10<=300<=1000) = -inf", lib, [&](parameter_t& p) { p = -inf; });

    // a domain that contains INT64_MIN: before the fix the x86-64 result of the undefined conversion (0x8000000000000000)
    // was *accepted* here
    const auto wide = parameter_t::make_integer("wide", imin, LE, 0, LE, 0);
    probe("make_integer(INT64_MIN<=0<=0) = +inf", wide, [&](parameter_t& p) { p = inf; });
    probe("make_integer(INT64_MIN<=0<=0) = NaN", wide, [&](parameter_t& p) { p = nan; });
    probe("make_integer(INT64_MIN<=0<=0) = 1e19", wide, [&](parameter_t& p) { p = 1e19; });
    probe("make_integer(INT64_MIN<=0<=0) = +2^63", wide, [&](parameter_t& p) { p = 9223372036854775808.0; });
    probe("make_integer(INT64_MIN<=0<=0) = -2^63-2048", wide, [&](parameter_t& p) { p = -9223372036854777856.0; });

    const auto pair = parameter_t::make_integer_pair("pair", imin, LE, 0, LE, 1, LE, imax);
    probe("make_integer_pair(INT64_MIN<=0<=1<=INT64_MAX) = (+2^63, 11.0)", pair,
          [&](parameter_t& p) { p = std::make_tuple(9223372036854775808.0, 11.0); });
    probe("make_integer_pair(INT64_MIN<=0<=1<=INT64_MAX) = (NaN, NaN)", pair, [&](parameter_t& p) { p = std::make_tuple(nan, nan); });

    // construction: make_integer converts its arguments with the same cast
    std::printf("CALL make_integer(\"c\", 0, LE, NaN, LE, 10)\n");
    try
    {
        const auto c = parameter_t::make_integer("c", 0, LE, nan, LE, 10);
        std::ostringstream o;
        o << c.value();
        std::printf("CONSTRUCT -> ACCEPTED stored=%s\n", o.str().c_str());
    }
    catch (std::exception&)
    {
        std::printf("CONSTRUCT -> THROW\n");
    }
    std::printf("DONE\n");
    return 0;
}
