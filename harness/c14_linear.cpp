// C14 harness (second extension): the wrappers linear_t::fit / linear_t::predict of src/linear.cpp on real fitted models.
//
// Per case: a small dataset (continuous inputs, optionally one categorical input, continuous targets with 1..3 components),
// trained on the first rows (no missing value), an ordinary / ridge model with one of the four scaling modes, predictions on ALL
// rows (the later ones have missing inputs). The fit of src/linear.cpp (anonymous ::fit) is replayed with the public API
// (flatten_iterator_t, make_function, solver.minimize from x0 = 0, function.weights/bias) to observe the solution (W, b) in
// SCALED space; the stored model must be nano::upscale(flatten_stats, m, targets_stats, m, W, b) bit for bit.
//
// Output:
//   CONST <eps> <big>
//   LIN <case> model=<id> mode=<0..3> | <9 stats>/... | <9 stats>/... | w11,w12/w21,.. | b1,.. = w'11,../.. | b'1,..    (stored)
//   LPR <case> mode=<0..3> | x1,..,xC = p1,..,pT       one raw input row (nan = missing) and linear_t::predict of it
//   FAIL lin-store ...        the stored (weights, bias) are not nano::upscale of the fitted scaled-space solution
//   DONE cases=<n> ...
#include "common.h"
#include <iostream>
#include <nano/dataset.h>
#include <nano/dataset/iterator.h>
#include <nano/dataset/stats.h>
#include <nano/datasource.h>
#include <nano/generator/elemwise_identity.h>
#include <nano/linear.h>
#include <nano/linear/function.h>
#include <nano/logger.h>
#include <nano/loss.h>
#include <nano/machine/params.h>
#include <nano/solver.h>
#include <nano/splitter.h>

using namespace nano;

namespace
{
struct lcase_t
{
    tensor_size_t                    rows{0}, train{0};
    int                              C{1}, T{1};
    bool                             with_class{false};
    int                              classes{3};
    std::vector<std::vector<double>> x; // rows x C (nan = missing)
    std::vector<int>                 label; // rows (-1 = missing)
    std::vector<std::vector<double>> y; // rows x T
};

class lin_datasource_t final : public datasource_t
{
public:
    explicit lin_datasource_t(const lcase_t& c)
        : datasource_t("c14lin")
        , m_case(&c)
    {
    }

    rdatasource_t clone() const override { return std::make_unique<lin_datasource_t>(*this); }

private:
    void do_load() override
    {
        const auto& c = *m_case;
        features_t  features;
        for (int j = 0; j < c.C; ++j)
        {
            features.push_back(feature_t{"x" + std::to_string(j)}.scalar(feature_type::float64));
        }
        if (c.with_class)
        {
            strings_t labels;
            for (int l = 0; l < c.classes; ++l) labels.push_back("l" + std::to_string(l));
            features.push_back(feature_t{"cls"}.sclass(labels));
        }
        features.push_back(feature_t{"y"}.scalar(feature_type::float64, make_dims(c.T, 1, 1)));
        resize(c.rows, features, features.size() - 1U);
        for (tensor_size_t s = 0; s < c.rows; ++s)
        {
            const auto si = static_cast<size_t>(s);
            for (int j = 0; j < c.C; ++j)
            {
                if (std::isfinite(c.x[si][static_cast<size_t>(j)])) set(s, j, c.x[si][static_cast<size_t>(j)]);
            }
            tensor_size_t f = c.C;
            if (c.with_class)
            {
                if (c.label[si] >= 0) set(s, f, static_cast<int32_t>(c.label[si]));
                ++f;
            }
            tensor_mem_t<scalar_t, 3> vals(c.T, 1, 1);
            for (int t = 0; t < c.T; ++t) vals(t) = c.y[si][static_cast<size_t>(t)];
            set(s, f, vals);
        }
    }

    const lcase_t* m_case;
};

std::string stats_str(const scalar_stats_t& st, tensor_size_t c)
{
    std::ostringstream o;
    o << st.m_samples(c) << ";" << vh::hexf(st.m_min(c)) << ";" << vh::hexf(st.m_max(c)) << ";" << vh::hexf(st.m_mean(c))
      << ";" << vh::hexf(st.m_stdev(c)) << ";" << vh::hexf(st.m_div_range(c)) << ";" << vh::hexf(st.m_mul_range(c)) << ";"
      << vh::hexf(st.m_div_stdev(c)) << ";" << vh::hexf(st.m_mul_stdev(c));
    return o.str();
}

std::string all_stats_str(const scalar_stats_t& st)
{
    std::string s;
    for (tensor_size_t c = 0; c < st.m_min.size(); ++c) s += (c ? "/" : "") + stats_str(st, c);
    return s;
}

std::string hexjoin(const std::vector<double>& v)
{
    std::string s;
    for (size_t i = 0; i < v.size(); ++i) s += (i ? "," : "") + vh::hexf(v[i]);
    return s;
}

template <class tmat>
std::string mat_str(const tmat& W, tensor_size_t T, tensor_size_t C)
{
    std::string s;
    for (tensor_size_t i = 0; i < T; ++i)
    {
        std::vector<double> r;
        for (tensor_size_t j = 0; j < C; ++j) r.push_back(W(i, j));
        s += (i ? "/" : "") + hexjoin(r);
    }
    return s;
}

template <class tvec>
std::string vec_str(const tvec& b, tensor_size_t T)
{
    std::vector<double> r;
    for (tensor_size_t i = 0; i < T; ++i) r.push_back(b(i));
    return hexjoin(r);
}

bool same_bits(double a, double b)
{
    return std::memcmp(&a, &b, sizeof(double)) == 0;
}

const scaling_type modes[] = {scaling_type::none, scaling_type::mean, scaling_type::minmax, scaling_type::standard};

struct gen_t
{
    vh::rng_t rng;
    explicit gen_t(uint64_t seed)
        : rng(seed)
    {
    }
    double mag(double lo, double hi) { return std::pow(10.0, lo + (hi - lo) * rng.unit()); }
    double sgn() { return (rng.next() & 1U) ? 1.0 : -1.0; }

    std::vector<double> column(tensor_size_t rows, int& kind)
    {
        kind = static_cast<int>(rng.range(0, 6));
        std::vector<double> v(static_cast<size_t>(rows));
        switch (kind)
        {
        case 0: // one magnitude
        {
            const auto m = mag(-3, 3);
            for (auto& x : v) x = sgn() * m * (0.1 + 0.9 * rng.unit());
            break;
        }
        case 1: // offset + spread of the same order
        {
            const auto c = sgn() * mag(-2, 3);
            const auto d = std::fabs(c) * (0.05 + rng.unit());
            for (auto& x : v) x = c + d * (2.0 * rng.unit() - 1.0);
            break;
        }
        case 2: // small integers
            for (auto& x : v) x = static_cast<double>(rng.range(-5, 5));
            break;
        case 3: // dyadic
            for (auto& x : v) x = static_cast<double>(rng.range(-64, 64)) / 8.0;
            break;
        case 4: // large offset, small spread (ill-conditioned one-pass variance)
        {
            const auto c = sgn() * mag(2, 4);
            const auto d = mag(-3, -1);
            for (auto& x : v) x = c + d * (2.0 * rng.unit() - 1.0);
            break;
        }
        case 5: // constant on the training set (guarded denominators), other values later
        {
            const auto c = sgn() * mag(-2, 2);
            for (auto& x : v) x = c;
            break;
        }
        default: // positive log-uniform
            for (auto& x : v) x = mag(-3, 3);
            break;
        }
        return v;
    }
};

struct counters_t
{
    long cases{0}, fits{0}, ridge{0}, replay_ok{0}, pred_rows{0}, missing_rows{0}, missing_values{0}, fails{0}, lin_lines{0},
        class_cases{0}, const_columns{0};
    long mode_hist[4] = {0, 0, 0, 0};
};
counters_t cnt;

void fail(const std::string& clause, const std::string& id, const std::string& detail)
{
    cnt.fails++;
    if (cnt.fails <= 100) std::printf("FAIL %s %s %s\n", clause.c_str(), id.c_str(), detail.c_str());
}

void run_case(gen_t& g, long icase)
{
    lcase_t c;
    c.train      = g.rng.range(4, 40);
    const auto npred = g.rng.range(2, 8);
    c.rows       = c.train + npred;
    c.C          = static_cast<int>(g.rng.range(1, 6));
    c.T          = static_cast<int>(g.rng.range(1, 3));
    c.with_class = g.rng.range(0, 3) == 0;
    c.classes    = static_cast<int>(g.rng.range(2, 3));
    c.x.assign(static_cast<size_t>(c.rows), std::vector<double>(static_cast<size_t>(c.C)));
    c.y.assign(static_cast<size_t>(c.rows), std::vector<double>(static_cast<size_t>(c.T)));
    c.label.assign(static_cast<size_t>(c.rows), 0);
    for (int j = 0; j < c.C; ++j)
    {
        int        kind = 0;
        const auto col  = g.column(c.rows, kind);
        cnt.const_columns += kind == 5 ? 1 : 0;
        for (tensor_size_t s = 0; s < c.rows; ++s)
        {
            auto v = col[static_cast<size_t>(s)];
            if (kind == 5 && s >= c.train && (g.rng.next() & 1U)) v *= 1.0 + 0.5 * g.rng.unit(); // leaves the constant
            c.x[static_cast<size_t>(s)][static_cast<size_t>(j)] = v;
        }
    }
    // planted affine targets + noise
    const auto wm = g.mag(-2, 2);
    for (int t = 0; t < c.T; ++t)
    {
        std::vector<double> w0(static_cast<size_t>(c.C));
        for (auto& w : w0) w = g.rng.range(0, 5) == 0 ? 0.0 : g.sgn() * wm * (0.1 + g.rng.unit());
        const auto b0    = g.sgn() * g.mag(-2, 2);
        const auto noise = g.rng.range(0, 2) == 0 ? 0.0 : g.mag(-4, -1);
        for (tensor_size_t s = 0; s < c.rows; ++s)
        {
            double acc = b0;
            for (int j = 0; j < c.C; ++j) acc += w0[static_cast<size_t>(j)] * c.x[static_cast<size_t>(s)][static_cast<size_t>(j)];
            c.y[static_cast<size_t>(s)][static_cast<size_t>(t)] = acc * (1.0 + noise * (2.0 * g.rng.unit() - 1.0));
        }
    }
    for (tensor_size_t s = 0; s < c.rows; ++s) c.label[static_cast<size_t>(s)] = static_cast<int>(g.rng.range(0, c.classes - 1));
    // missing values in the prediction rows only
    for (tensor_size_t s = c.train; s < c.rows; ++s)
    {
        const auto how = g.rng.range(0, 3); // 0: none, 1: one input, 2: ~half, 3: all
        for (int j = 0; j < c.C; ++j)
        {
            const bool miss = how == 3 || (how == 2 && (g.rng.next() & 1U)) || (how == 1 && j == static_cast<int>(g.rng.range(0, c.C - 1)));
            if (miss) c.x[static_cast<size_t>(s)][static_cast<size_t>(j)] = std::numeric_limits<double>::quiet_NaN();
        }
        if (c.with_class && how >= 2 && (g.rng.next() & 1U)) c.label[static_cast<size_t>(s)] = -1;
    }

    lin_datasource_t ds(c);
    ds.load();
    dataset_t dataset{ds};
    if (g.rng.next() & 1U)
    {
        dataset.add<sclass_identity_generator_t>();
        dataset.add<scalar_identity_generator_t>();
    }
    else
    {
        dataset.add<scalar_identity_generator_t>();
        dataset.add<sclass_identity_generator_t>();
    }
    const auto C = dataset.columns();
    const auto T = static_cast<tensor_size_t>(c.T);
    cnt.cases++;
    cnt.class_cases += c.with_class ? 1 : 0;

    const auto mode     = static_cast<int>(g.rng.range(0, 3));
    const auto is_ridge = g.rng.range(0, 3) == 0;
    const auto model_id = std::string(is_ridge ? "ridge" : "ordinary");
    cnt.mode_hist[mode]++;
    cnt.ridge += is_ridge ? 1 : 0;

    auto model = linear_t::all().get(model_id);
    auto loss  = loss_t::all().get("mse");
    auto solver = solver_t::all().get("lbfgs");
    auto splitter = splitter_t::all().get("k-fold");
    if (!model || !loss || !solver || !splitter)
    {
        fail("lin-setup", std::to_string(icase), "cannot create model / loss / solver / splitter");
        return;
    }
    const auto batch = static_cast<tensor_size_t>(g.rng.range(0, 1) == 0 ? 100 : 1000);
    model->parameter("linear::batch")    = batch;
    model->parameter("linear::scaling")  = modes[mode];
    solver->parameter("solver::epsilon")   = 1e-8;
    solver->parameter("solver::max_evals") = 300;
    splitter->parameter("splitter::seed")  = static_cast<uint64_t>(42U);
    splitter->parameter("splitter::folds") = 2;
    auto fit_params = ml::params_t{}.splitter(*splitter).solver(*solver).logger(make_null_logger());

    const indices_t train = arange(0, c.train);
    const auto      fit_result = model->fit(dataset, train, *loss, fit_params);
    cnt.fits++;

    // replay of the final refit of ::fit (src/linear.cpp) to observe the solution in scaled space
    auto iterator = flatten_iterator_t{dataset, train};
    iterator.batch(batch);
    iterator.scaling(modes[mode]);
    iterator.cache_flatten(std::numeric_limits<tensor_size_t>::max());
    iterator.cache_targets(std::numeric_limits<tensor_size_t>::max());
    const auto params   = fit_result.params(fit_result.optimum_trial());
    const auto function = model->make_function(iterator, *loss, params);
    const vector_t x0   = vector_t::zero(function.size());
    const auto state    = solver->minimize(function, x0, make_null_logger());
    tensor1d_t b        = function.bias(state.x());
    tensor2d_t W        = function.weights(state.x());
    tensor1d_t b2       = b;
    tensor2d_t W2       = W;
    const auto& fst     = iterator.flatten_stats();
    const auto& tst     = iterator.targets_stats();
    ::nano::upscale(fst, modes[mode], tst, modes[mode], W2.tensor(), b2.tensor());

    const auto& Ws = model->weights();
    const auto& bs = model->bias();
    const auto  id = std::to_string(icase);
    bool        ok = Ws.rows() == T && Ws.cols() == C && bs.size() == T;
    for (tensor_size_t i = 0; ok && i < T; ++i)
    {
        ok = ok && same_bits(bs(i), b2(i));
        for (tensor_size_t j = 0; ok && j < C; ++j) ok = ok && same_bits(Ws(i, j), W2(i, j));
    }
    cnt.replay_ok += ok ? 1 : 0;
    const auto head = "model=" + model_id + " mode=" + std::to_string(mode);
    if (!ok)
    {
        fail("lin-store", id,
             head + " the stored (weights, bias) of linear_t::fit are not nano::upscale(flatten_stats, m, targets_stats, m, W, b) of the "
                    "fitted solution: fstats=" + all_stats_str(fst) + " tstats=" + all_stats_str(tst) + " W=" + mat_str(W, T, C) + " b=" +
                 vec_str(b, T) + " expected W'=" + mat_str(W2, T, C) + " b'=" + vec_str(b2, T) + " stored W'=" +
                 (Ws.rows() == T && Ws.cols() == C ? mat_str(Ws, T, C) : std::string("(shape)")) + " b'=" +
                 (bs.size() == T ? vec_str(bs, T) : std::string("(shape)")));
        if (!(Ws.rows() == T && Ws.cols() == C && bs.size() == T)) return;
    }
    std::printf("LIN %s %s | %s | %s | %s | %s = %s | %s\n", id.c_str(), head.c_str(), all_stats_str(fst).c_str(),
                all_stats_str(tst).c_str(), mat_str(W, T, C).c_str(), vec_str(b, T).c_str(), mat_str(Ws, T, C).c_str(),
                vec_str(bs, T).c_str());
    cnt.lin_lines++;

    // predictions of the stored model on all rows (the later ones have missing inputs)
    const indices_t all = arange(0, c.rows);
    tensor2d_t      buffer;
    const tensor2d_t raw = dataset.flatten(all, buffer);
    const auto      out  = model->predict(dataset, all);
    for (tensor_size_t s = (c.train > 6 ? c.train - 6 : 0); s < c.rows; ++s)
    {
        std::vector<double> xr, pr;
        bool                miss = false;
        for (tensor_size_t j = 0; j < C; ++j)
        {
            xr.push_back(raw(s, j));
            if (!std::isfinite(raw(s, j)))
            {
                miss = true;
                cnt.missing_values++;
            }
        }
        for (tensor_size_t i = 0; i < T; ++i) pr.push_back(out(s, i, 0, 0));
        cnt.pred_rows++;
        cnt.missing_rows += miss ? 1 : 0;
        std::printf("LPR %s mode=%d | %s = %s\n", id.c_str(), mode, hexjoin(xr).c_str(), hexjoin(pr).c_str());
    }
}
} // namespace

int main(int argc, char** argv)
{
    std::setvbuf(stdout, nullptr, _IOLBF, 0);
    const bool thorough = argc > 1 && std::string(argv[1]) == "thorough";
    long       ncases   = thorough ? 400 : 60;
    if (argc > 2) ncases = std::atol(argv[2]);
    const auto chunk = argc > 3 ? std::strtoull(argv[3], nullptr, 10) : 0ULL;
    std::printf("CONST %s %s\n", vh::hexf(epsilon2<scalar_t>()).c_str(), vh::hexf(std::numeric_limits<scalar_t>::max()).c_str());
    gen_t g((vh::env_seed() + 1000003ULL * chunk) * 0x9E3779B97F4A7C15ULL + 1414U);
    for (long icase = 0; icase < ncases; ++icase)
    {
        try
        {
            run_case(g, icase);
        }
        catch (const std::exception& e)
        {
            fail("lin-exception", std::to_string(icase), e.what());
        }
    }
    std::printf("DONE lin_cases=%ld fits=%ld ridge=%ld replay_ok=%ld lin_lines=%ld pred_rows=%ld missing_rows=%ld missing_values=%ld "
                "class_cases=%ld const_columns=%ld fails=%ld modes=0:%ld,1:%ld,2:%ld,3:%ld\n",
                cnt.cases, cnt.fits, cnt.ridge, cnt.replay_ok, cnt.lin_lines, cnt.pred_rows, cnt.missing_rows, cnt.missing_values,
                cnt.class_cases, cnt.const_columns, cnt.fails, cnt.mode_hist[0], cnt.mode_hist[1], cnt.mode_hist[2], cnt.mode_hist[3]);
    return 0;
}
