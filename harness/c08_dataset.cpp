// C08 harness: random data sources (12 feature types, structured dims, class counts 1..300, arbitrary masks,
// optional target), random generator stacks (identity x4, pairwise product, gradient, feature subsets), random
// sample index lists and drop/undrop/shuffle/unshuffle histories, driven through the real dataset_t.
// Prints everything the extracted Coq model needs to rebuild the case (DS/FEAT/SET/GEN/OP lines) and every
// observation (LAYOUT/NFEAT/NCOLS/C2F/GFEAT/FLAT/SEL*/TARGETS/TSEL*/REJ/SETBAD lines) for the differential
// correspondence (ocaml/c08_driver.ml), and checks the property directly against a shadow copy of the stored
// values (FAIL lines), independently of the model.
// Gradient generator: all three kernels (sobel / scharr / prewitt) are drawn; the images of gradient-eligible features
// carry values at the type limits, constant images and single spikes; the VALUES of the 4 features per channel are
// printed in hex (bit-exact exchange with the PrimFloat model) and checked here against an independent textbook
// 3x3 gradient computed from the shadow copy (gx, gy, magnitude exactly; angle within 1e-12), with (channel, mode)
// assigned by POSITION (4 features per channel, in the order gx, gy, magnitude, angle), not by the descriptor's name.
// Usage: c08_dataset <quick|thorough> [cases] [first-case]; seed from VERIF_SEED.
#include "common.h"
#include <nano/dataset.h>
#include <nano/generator/elemwise_gradient.h>
#include <nano/generator/elemwise_identity.h>
#include <nano/generator/pairwise_product.h>
#include <nano/verif.h>
#include <map>
#include <optional>
#include <set>

using namespace nano;

namespace
{
using i64 = int64_t;
using cell_t = std::optional<std::vector<i64>>;

const char* const type_names[] = {"int8", "int16", "int32", "int64", "uint8", "uint16", "uint32", "uint64", "float32", "float64", "sclass", "mclass"};

struct fdesc_t
{
    int type = 8; // index in type_names == feature_type value
    i64 classes = 0;
    i64 d0 = 1, d1 = 1, d2 = 1;
    bool is_sclass() const { return type == 10; }
    bool is_mclass() const { return type == 11; }
    bool is_cont() const { return type < 10; }
    i64 size() const { return d0 * d1 * d2; }
    bool is_scalar() const { return is_cont() && size() == 1; }
    bool is_struct() const { return is_cont() && size() > 1; }
    i64 width() const { return is_mclass() ? classes : is_sclass() ? 1 : size(); }
    i64 cols() const { return is_sclass() ? classes - 1 : is_mclass() ? classes : size(); }
};

struct setop_t
{
    i64 fi, sample;
    std::vector<i64> vals;
    bool bad; // expected to be rejected (invalid label / wrong number of values)
};

int g_fails = 0;
std::string g_case;

template <class... targs>
void fail(const char* what, const targs&... args)
{
    std::ostringstream o;
    o << "FAIL " << g_case << " " << what;
    ((o << " " << args), ...);
    std::printf("%s\n", o.str().c_str());
    ++g_fails;
}

std::string jl(const std::vector<i64>& v) { return vh::join(v.begin(), v.end()); }

std::string fmt(double v)
{
    if (std::isnan(v)) return "nan";
    if (std::isfinite(v) && std::fabs(v) < 9e15 && v == std::floor(v))
    {
        char buf[32];
        std::snprintf(buf, sizeof(buf), "%lld", static_cast<long long>(v));
        return buf;
    }
    return vh::hexf(v);
}

// gradient values: always hex (sign of zero and every bit preserved)
std::string fmtx(double v)
{
    if (std::isnan(v)) return "nan";
    return vh::hexf(v);
}

feature_t make_feature(size_t i, const fdesc_t& d)
{
    feature_t f{"f" + std::to_string(i)};
    if (d.is_sclass()) f.sclass(static_cast<size_t>(d.classes));
    else if (d.is_mclass()) f.mclass(static_cast<size_t>(d.classes));
    else f.scalar(static_cast<feature_type>(d.type), make_dims(d.d0, d.d1, d.d2));
    return f;
}

class c08_datasource_t final : public datasource_t
{
public:
    c08_datasource_t(i64 samples, std::vector<fdesc_t> feats, int target, std::vector<setop_t> ops)
        : datasource_t("c08")
        , m_n(samples)
        , m_feats(std::move(feats))
        , m_target(target)
        , m_ops(std::move(ops))
    {
    }

    rdatasource_t clone() const override { return std::make_unique<c08_datasource_t>(*this); }

private:
    void do_load() override
    {
        features_t features;
        for (size_t i = 0; i < m_feats.size(); ++i) features.push_back(make_feature(i, m_feats[i]));
        resize(m_n, features, m_target < 0 ? string_t::npos : static_cast<size_t>(m_target));
        for (const auto& op : m_ops)
        {
            const auto& d = m_feats[static_cast<size_t>(op.fi)];
            bool thrown  = false;
            try
            {
                if (d.is_sclass() && op.vals.size() == 1U) { set(op.sample, op.fi, op.vals[0]); }
                else if (d.is_scalar() && op.vals.size() == 1U) { set(op.sample, op.fi, op.vals[0]); }
                else if (d.is_mclass() || d.is_sclass())
                {
                    tensor_mem_t<i64, 1> hits(static_cast<tensor_size_t>(op.vals.size()));
                    for (size_t k = 0; k < op.vals.size(); ++k) hits(static_cast<tensor_size_t>(k)) = op.vals[k];
                    if (d.is_mclass()) set(op.sample, op.fi, hits);
                    else thrown = true; // a vector for a single-label feature does not compile to a write: not exercised
                }
                else
                {
                    // structured (or a wrong-sized tensor for a scalar): pass a rank-1 tensor of the values
                    tensor_mem_t<i64, 1> values(static_cast<tensor_size_t>(op.vals.size()));
                    for (size_t k = 0; k < op.vals.size(); ++k) values(static_cast<tensor_size_t>(k)) = op.vals[k];
                    set(op.sample, op.fi, values);
                }
            }
            catch (const std::exception&)
            {
                thrown = true;
            }
            if (op.bad) std::printf("SETBAD %lld %lld | %s = %s\n", (long long)op.fi, (long long)op.sample, jl(op.vals).c_str(), thrown ? "rejected" : "accepted");
            else
            {
                std::printf("SET %lld %lld | %s\n", (long long)op.fi, (long long)op.sample, jl(op.vals).c_str());
                if (thrown) fail("valid-set-rejected", op.fi, op.sample, jl(op.vals));
            }
            if (op.bad && !thrown) fail("invalid-set-accepted", op.fi, op.sample, jl(op.vals));
        }
    }

    i64                  m_n;
    std::vector<fdesc_t> m_feats;
    int                  m_target;
    std::vector<setop_t> m_ops;
};

// value ranges per storage type (integers exactly representable in the storage type and in double; products < 2^53)
i64 rand_value(vh::rng_t& rng, int type)
{
    static const i64 lo[] = {-128, -32768, -(1LL << 26), -(1LL << 26), 0, 0, 0, 0, -(1LL << 20), -(1LL << 26)};
    static const i64 hi[] = {127, 32767, (1LL << 26), (1LL << 26), 255, 65535, (1LL << 26), (1LL << 26), (1LL << 20), (1LL << 26)};
    const auto m = rng.next() % 10;
    if (m == 0) return lo[type];
    if (m == 1) return hi[type];
    if (m < 6) return rng.range(std::max<i64>(lo[type], -9), std::min<i64>(hi[type], 9));
    return rng.range(lo[type], hi[type]);
}

// pixels of gradient-eligible images: the full range of the storage type where every integer of the range is exactly
// representable in the storage type AND in double (8/16/32-bit integers: the type limits; 64-bit integers and float64:
// +-2^52; float32: +-2^24), so that the differences / weighted sums of the 3x3 kernels do round in double
const i64 pix_lo[] = {-128, -32768, -(1LL << 31), -(1LL << 52), 0, 0, 0, 0, -(1LL << 24), -(1LL << 52)};
const i64 pix_hi[] = {127, 32767, (1LL << 31) - 1, (1LL << 52), 255, 65535, (1LL << 32) - 1, (1LL << 52), (1LL << 24), (1LL << 52)};
i64 rand_pixel(vh::rng_t& rng, int type)
{
    const auto m = rng.next() % 10;
    if (m == 0) return pix_lo[type];
    if (m == 1) return pix_hi[type];
    if (m == 2) return pix_hi[type] - static_cast<i64>(rng.next() % 3);
    if (m < 6) return rng.range(std::max<i64>(pix_lo[type], -9), std::min<i64>(pix_hi[type], 9));
    return rng.range(pix_lo[type], pix_hi[type]);
}

// one image (channels x rows x cols values): constant / single spike / limits only / random
std::vector<i64> rand_image(vh::rng_t& rng, int type, i64 size)
{
    std::vector<i64> v(static_cast<size_t>(size));
    const auto m = rng.next() % 20;
    if (m < 4)
    {
        const auto c = rand_pixel(rng, type);
        for (auto& x : v) x = c;
    }
    else if (m < 7)
    {
        const auto c = (rng.next() % 2 == 0) ? 0 : rand_pixel(rng, type);
        for (auto& x : v) x = c;
        v[static_cast<size_t>(rng.range(0, size - 1))] = (rng.next() % 2 == 0) ? pix_hi[type] : rand_pixel(rng, type);
    }
    else if (m < 10)
    {
        for (auto& x : v) x = (rng.next() % 2 == 0) ? pix_lo[type] : pix_hi[type];
    }
    else
    {
        for (auto& x : v) x = rand_pixel(rng, type);
    }
    return v;
}

const char* const kernel_names[] = {"sobel", "scharr", "prewitt"};

struct gen_spec_t
{
    std::string kind; // sclass mclass scalar struct product gradient
    std::vector<i64> ids1, ids2;
    bool two_lists = false;
    int kernel = 0;   // gradient: kernel3x3_type
};

// what the oracle expects of the i-th gradient feature of the dataset (by position)
struct gexp_t
{
    int input = 0, channel = 0, mode = 0, kernel = 0;
};

enum class st_t { normal, dropped, shuffled };

struct dsf_t // a dataset (generated) feature as understood by the oracle: from its descriptor only
{
    feature_t feature;
    std::string kind;  // sclass mclass scalar struct (of the descriptor)
    int src1 = -1, src2 = -1; // input feature indices of the sources (parsed from the name)
    bool product = false, gradient = false;
    int channel = 0, mode = 0, kernel = 0; // gradient: by position in the generator (see gexp_t)
    i64 classes = 0, size = 1, cols = 0, offset = 0;
    st_t state = st_t::normal;
    std::vector<i64> perm;
};

bool same(double a, double b) { return (std::isnan(a) && std::isnan(b)) || a == b; }

struct runner_t
{
    vh::rng_t& rng;
    i64 N;
    std::vector<fdesc_t> feats;   // raw features (target included)
    int target;                   // raw index or -1
    std::vector<std::vector<cell_t>> shadow; // [raw feature][sample]
    std::vector<int> inputs;      // input feature index -> raw index
    const dataset_t* ds = nullptr;
    std::vector<dsf_t> dfs;

    const cell_t& input_cell(int input, i64 sample) const { return shadow[static_cast<size_t>(inputs[static_cast<size_t>(input)])][static_cast<size_t>(sample)]; }

    // expected value of dataset feature f at (requested) sample s: nullopt = missing
    std::optional<std::vector<double>> expected(const dsf_t& f, i64 s) const
    {
        if (f.state == st_t::dropped) return std::nullopt;
        if (f.state == st_t::shuffled) s = f.perm[static_cast<size_t>(s)];
        const auto& c1 = input_cell(f.src1, s);
        if (!c1) return std::nullopt;
        if (f.product)
        {
            const auto& c2 = input_cell(f.src2, s);
            if (!c2) return std::nullopt;
            return std::vector<double>{static_cast<double>((*c1)[0]) * static_cast<double>((*c2)[0])};
        }
        std::vector<double> out;
        for (auto v : *c1) out.push_back(static_cast<double>(v));
        return out;
    }

    // independent textbook 3x3 gradient of dataset feature f at (requested) sample s: nullopt = missing.
    // pixel(ch, r, c) of the stored (channels, rows, cols) image; weights: sobel 1/4 2/4 1/4, scharr 3/16 10/16 3/16,
    // prewitt 1/3 1/3 1/3; gx = sum_i w_i * (p(r+i, c+2) - p(r+i, c)), gy = sum_i w_i * (p(r+2, c+i) - p(r, c+i))
    std::optional<std::vector<double>> expected_gradient(const dsf_t& f, i64 s) const
    {
        if (f.state == st_t::dropped) return std::nullopt;
        if (f.state == st_t::shuffled) s = f.perm[static_cast<size_t>(s)];
        const auto& cell = input_cell(f.src1, s);
        if (!cell) return std::nullopt;
        const auto& sd = feats[static_cast<size_t>(inputs[static_cast<size_t>(f.src1)])];
        static const double ws[3][3] = {{0.25, 0.5, 0.25}, {0.1875, 0.625, 0.1875}, {1.0 / 3.0, 1.0 / 3.0, 1.0 / 3.0}};
        const double* w = ws[f.kernel];
        const auto pix = [&](i64 r, i64 c) { return static_cast<double>((*cell)[static_cast<size_t>(f.channel * sd.d1 * sd.d2 + r * sd.d2 + c)]); };
        std::vector<double> out;
        for (i64 r = 0; r + 2 < sd.d1; ++r)
        {
            for (i64 c = 0; c + 2 < sd.d2; ++c)
            {
                const double gx = w[0] * (pix(r, c + 2) - pix(r, c)) + w[1] * (pix(r + 1, c + 2) - pix(r + 1, c)) + w[2] * (pix(r + 2, c + 2) - pix(r + 2, c));
                const double gy = w[0] * (pix(r + 2, c) - pix(r, c)) + w[1] * (pix(r + 2, c + 1) - pix(r, c + 1)) + w[2] * (pix(r + 2, c + 2) - pix(r, c + 2));
                out.push_back(f.mode == 0 ? gx : f.mode == 1 ? gy : f.mode == 2 ? std::sqrt(gx * gx + gy * gy) : std::atan2(gy, gx));
            }
        }
        return out;
    }

    // gx, gy, magnitude: bit for bit; angle: 1e-12 absolute
    static bool same_gradient(int mode, double got, double want)
    {
        if (std::isnan(got) || std::isnan(want)) return std::isnan(got) && std::isnan(want);
        if (mode == 3) return std::fabs(got - want) <= 1e-12;
        return got == want && std::signbit(got) == std::signbit(want);
    }

    std::vector<i64> sample_list(bool valid = true)
    {
        std::vector<i64> s;
        const auto mode = rng.next() % 8;
        if (mode == 0) { for (i64 i = 0; i < N; ++i) s.push_back(i); }
        else if (mode == 1) { for (i64 i = N - 1; i >= 0; --i) s.push_back(i); }
        else if (mode == 2) { s = {N - 1}; }
        else if (mode == 3) { s = {0, N - 1, N - 1, 0}; }
        else
        {
            const auto len = rng.range(1, std::min<i64>(2 * N, 24));
            for (i64 i = 0; i < len; ++i) s.push_back((rng.next() % 4 == 0) ? (N - 1 - static_cast<i64>(rng.next() % std::min<i64>(N, 3))) : rng.range(0, N - 1));
        }
        if (s.size() > 40U) { const auto b = static_cast<size_t>(rng.range(0, static_cast<i64>(s.size()) - 40)); s = std::vector<i64>(s.begin() + static_cast<long>(b), s.begin() + static_cast<long>(b) + 40); }
        if (!valid)
        {
            static const i64 deltas[] = {0, 0, 0, 1, 5, 1000};
            const auto bad = (rng.next() % 3 == 0) ? -1 - static_cast<i64>(rng.next() % 3) : N + deltas[rng.next() % 6];
            const auto pos = static_cast<size_t>(rng.range(0, static_cast<i64>(s.size())));
            if (rng.next() % 4 == 0) s = {bad};
            else s.insert(s.begin() + static_cast<long>(pos), bad);
        }
        return s;
    }

    static indices_t to_indices(const std::vector<i64>& s)
    {
        indices_t idx(static_cast<tensor_size_t>(s.size()));
        for (size_t i = 0; i < s.size(); ++i) idx(static_cast<tensor_size_t>(i)) = s[i];
        return idx;
    }

    // ---- queries -------------------------------------------------------------------------------
    tensor2d_t flat_buffer;  // reused across calls on purpose (stale contents must never show)
    sclass_mem_t sbuf;
    mclass_mem_t mbuf;
    scalar_mem_t cbuf;
    struct_mem_t tbuf;

    void query_flatten()
    {
        const auto s   = sample_list();
        const auto idx = to_indices(s);
        if (rng.next() % 3 == 0) { flat_buffer.resize(static_cast<tensor_size_t>(s.size()) + 3, ds->columns() + 2); flat_buffer.full(12345.0); }
        const auto flat = ds->flatten(idx, flat_buffer);
        std::string out;
        if (flat.size<0>() != static_cast<tensor_size_t>(s.size()) || flat.size<1>() != ds->columns()) fail("flatten-dims", jl(s));
        std::vector<char> gradcol(static_cast<size_t>(std::max<tensor_size_t>(ds->columns(), 0)), 0);
        for (const auto& d : dfs) if (d.gradient) for (i64 c = 0; c < d.cols; ++c) if (static_cast<size_t>(d.offset + c) < gradcol.size()) gradcol[static_cast<size_t>(d.offset + c)] = 1;
        for (tensor_size_t i = 0; i < flat.size<0>(); ++i)
        {
            if (i) out += ";";
            for (tensor_size_t c = 0; c < flat.size<1>(); ++c) { if (c) out += ","; out += gradcol[static_cast<size_t>(c)] ? fmtx(flat(i, c)) : fmt(flat(i, c)); }
        }
        std::printf("FLAT %s = %s\n", jl(s).c_str(), out.c_str());
        // direct oracle: every feature's segment is the documented encoding of the stored value
        for (size_t i = 0; i < s.size(); ++i)
        {
            for (size_t f = 0; f < dfs.size(); ++f)
            {
                const auto& d = dfs[f];
                if (d.gradient)
                {
                    // the segment is the row-major flattening of the textbook gradient image (all NaN if missing)
                    const auto eg = expected_gradient(d, s[i]);
                    if (eg && static_cast<i64>(eg->size()) != d.cols) { fail("gradient-size", "feature", f, "expected", eg->size(), "columns", d.cols); return; }
                    for (i64 c = 0; c < d.cols; ++c)
                    {
                        const double want = eg ? (*eg)[static_cast<size_t>(c)] : std::nan("");
                        const auto got = flat(static_cast<tensor_size_t>(i), d.offset + c);
                        if (!same_gradient(d.mode, got, want)) { fail("gradient-flatten-value", "feature", f, "kernel", kernel_names[d.kernel], "channel", d.channel, "mode", d.mode, "sample", s[i], "column", d.offset + c, "got", fmtx(got), "want", fmtx(want), "samples", jl(s)); return; }
                    }
                    continue;
                }
                const auto ev = expected(d, s[i]);
                for (i64 c = 0; c < d.cols; ++c)
                {
                    double want = std::nan("");
                    if (ev)
                    {
                        if (d.kind == "sclass") want = (static_cast<double>(c) == (*ev)[0]) ? 1.0 : -1.0;
                        else if (d.kind == "mclass") want = 2.0 * (*ev)[static_cast<size_t>(c)] - 1.0;
                        else want = (*ev)[static_cast<size_t>(c)];
                    }
                    const auto got = flat(static_cast<tensor_size_t>(i), d.offset + c);
                    if (!same(got, want)) { fail("flatten-value", "feature", f, "sample", s[i], "column", d.offset + c, "got", fmt(got), "want", fmt(want), "samples", jl(s)); return; }
                }
            }
        }
    }

    void query_select(size_t f)
    {
        const auto s   = sample_list();
        const auto idx = to_indices(s);
        const auto& d  = dfs[f];
        const auto fi  = static_cast<tensor_size_t>(f);
        std::string out;
        std::vector<std::vector<double>> got(s.size());
        const char* tag = "SELS";
        if (d.kind == "sclass")
        {
            const auto v = ds->select(idx, fi, sbuf);
            if (v.size() != idx.size()) fail("select-dims", f);
            for (tensor_size_t i = 0; i < v.size(); ++i) got[static_cast<size_t>(i)] = {static_cast<double>(v(i))};
        }
        else if (d.kind == "mclass")
        {
            tag = "SELM";
            const auto v = ds->select(idx, fi, mbuf);
            if (v.size<0>() != idx.size() || v.size<1>() != d.classes) fail("select-dims", f);
            for (tensor_size_t i = 0; i < v.size<0>(); ++i) for (tensor_size_t c = 0; c < v.size<1>(); ++c) got[static_cast<size_t>(i)].push_back(v(i, c));
        }
        else if (d.kind == "scalar")
        {
            tag = "SELC";
            const auto v = ds->select(idx, fi, cbuf);
            if (v.size() != idx.size()) fail("select-dims", f);
            for (tensor_size_t i = 0; i < v.size(); ++i) got[static_cast<size_t>(i)] = {v(i)};
        }
        else
        {
            tag = "SELT";
            const auto v = ds->select(idx, fi, tbuf);
            if (v.size<0>() != idx.size() || v.size() != idx.size() * d.size) fail("select-dims", f);
            const auto dims = d.feature.dims();
            if (v.size<1>() != dims[0] || v.size<2>() != dims[1] || v.size<3>() != dims[2]) fail("select-struct-dims", f);
            for (tensor_size_t i = 0; i < v.size<0>(); ++i) for (tensor_size_t c = 0; c < d.size; ++c) got[static_cast<size_t>(i)].push_back(v.tensor(i).data()[c]);
        }
        for (size_t i = 0; i < s.size(); ++i)
        {
            if (i) out += ";";
            for (size_t c = 0; c < got[i].size(); ++c) { if (c) out += ","; out += d.gradient ? fmtx(got[i][c]) : fmt(got[i][c]); }
        }
        std::printf("%s %zu | %s = %s\n", tag, f, jl(s).c_str(), out.c_str());
        // direct oracle: identity / product / missing markers
        const double miss = (d.kind == "sclass" || d.kind == "mclass") ? -1.0 : std::nan("");
        for (size_t i = 0; i < s.size(); ++i)
        {
            if (d.gradient)
            {
                const bool want_missing = d.state == st_t::dropped || !input_cell(d.src1, d.state == st_t::shuffled ? d.perm[static_cast<size_t>(s[i])] : s[i]);
                for (auto v : got[i]) if (std::isnan(v) != want_missing) { fail("gradient-missing-pattern", "feature", f, "sample", s[i]); return; }
                // the values: textbook 3x3 gradient of the stored image
                const auto eg = expected_gradient(d, s[i]);
                if (eg && eg->size() != got[i].size()) { fail("gradient-size", "feature", f, "expected", eg->size(), "got", got[i].size()); return; }
                for (size_t c = 0; eg && c < got[i].size(); ++c)
                {
                    if (!same_gradient(d.mode, got[i][c], (*eg)[c])) { fail("gradient-select-value", "feature", f, "kernel", kernel_names[d.kernel], "channel", d.channel, "mode", d.mode, "sample", s[i], "component", c, "got", fmtx(got[i][c]), "want", fmtx((*eg)[c]), "samples", jl(s)); return; }
                    if (d.mode == 2 && !(got[i][c] >= 0.0)) { fail("gradient-magnitude-negative", "feature", f, "sample", s[i], "component", c, "got", fmtx(got[i][c])); return; }
                }
                continue;
            }
            const auto ev = expected(d, s[i]);
            for (size_t c = 0; c < got[i].size(); ++c)
            {
                const double want = ev ? (*ev)[c] : miss;
                if (!same(got[i][c], want)) { fail("select-value", "feature", f, "sample", s[i], "component", c, "got", fmt(got[i][c]), "want", fmt(want), "samples", jl(s)); return; }
            }
        }
        // the two views agree (this also covers the gradient features, bit-exactly: same scalar code)
        if (d.cols > 0)
        {
            tensor2d_t buffer;
            const auto flat = ds->flatten(idx, buffer);
            for (size_t i = 0; i < s.size(); ++i)
            {
                for (i64 c = 0; c < d.cols; ++c)
                {
                    double want;
                    if (d.kind == "sclass") want = got[i][0] < 0 ? std::nan("") : (static_cast<double>(c) == got[i][0] ? 1.0 : -1.0);
                    else if (d.kind == "mclass") want = got[i][0] < 0 ? std::nan("") : 2.0 * got[i][static_cast<size_t>(c)] - 1.0;
                    else want = got[i][static_cast<size_t>(c)];
                    const auto have = flat(static_cast<tensor_size_t>(i), d.offset + c);
                    if (!same(have, want)) { fail("views-disagree", "feature", f, "sample", s[i], "column", d.offset + c, "flatten", fmt(have), "select-encoded", fmt(want), "samples", jl(s)); return; }
                }
            }
        }
    }

    void query_targets()
    {
        if (target < 0) return;
        const auto s   = sample_list();
        const auto idx = to_indices(s);
        const auto& t  = feats[static_cast<size_t>(target)];
        tensor4d_t buffer;
        if (rng.next() % 2 == 0) { buffer.resize(static_cast<tensor_size_t>(s.size()) + 1, 7, 3, 2); buffer.full(777.0); }
        const auto tg = ds->targets(idx, buffer);
        const auto per = t.is_cont() ? t.size() : t.classes;
        if (tg.size<0>() != idx.size() || tg.size() != idx.size() * per) { fail("targets-dims", jl(s)); return; }
        const auto td = ds->target_dims();
        if (tg.size<1>() != td[0] || tg.size<2>() != td[1] || tg.size<3>() != td[2]) fail("targets-dims-vs-target_dims", jl(s));
        std::string out;
        for (tensor_size_t i = 0; i < tg.size<0>(); ++i)
        {
            if (i) out += ";";
            for (i64 c = 0; c < per; ++c) { if (c) out += ","; out += fmt(tg.tensor(i).data()[c]); }
        }
        std::printf("TARGETS %s = %s\n", jl(s).c_str(), out.c_str());
        for (size_t i = 0; i < s.size(); ++i)
        {
            const auto& cell = shadow[static_cast<size_t>(target)][static_cast<size_t>(s[i])];
            for (i64 c = 0; c < per; ++c)
            {
                double want = std::nan("");
                if (cell)
                {
                    if (t.is_sclass()) want = (c == (*cell)[0]) ? 1.0 : -1.0;
                    else if (t.is_mclass()) want = 2.0 * static_cast<double>((*cell)[static_cast<size_t>(c)]) - 1.0;
                    else want = static_cast<double>((*cell)[static_cast<size_t>(c)]);
                }
                const auto got = tg.tensor(static_cast<tensor_size_t>(i)).data()[c];
                if (!same(got, want)) { fail("targets-value", "sample", s[i], "component", c, "got", fmt(got), "want", fmt(want)); return; }
            }
        }
        // the per-feature view of the target
        std::string sel;
        std::vector<std::vector<double>> got(s.size());
        if (t.is_sclass()) { const auto v = ds->select(idx, sbuf); for (tensor_size_t i = 0; i < v.size(); ++i) got[static_cast<size_t>(i)] = {static_cast<double>(v(i))}; }
        else if (t.is_mclass()) { const auto v = ds->select(idx, mbuf); for (tensor_size_t i = 0; i < v.size<0>(); ++i) for (tensor_size_t c = 0; c < v.size<1>(); ++c) got[static_cast<size_t>(i)].push_back(v(i, c)); }
        else if (t.is_scalar()) { const auto v = ds->select(idx, cbuf); for (tensor_size_t i = 0; i < v.size(); ++i) got[static_cast<size_t>(i)] = {v(i)}; }
        else { const auto v = ds->select(idx, tbuf); for (tensor_size_t i = 0; i < v.size<0>(); ++i) for (i64 c = 0; c < t.size(); ++c) got[static_cast<size_t>(i)].push_back(v.tensor(i).data()[c]); }
        for (size_t i = 0; i < s.size(); ++i)
        {
            if (i) sel += ";";
            for (size_t c = 0; c < got[i].size(); ++c) { if (c) sel += ","; sel += fmt(got[i][c]); }
            const auto& cell = shadow[static_cast<size_t>(target)][static_cast<size_t>(s[i])];
            if (got[i].size() != static_cast<size_t>(t.width())) { fail("target-select-dims", s[i]); return; }
            for (size_t c = 0; c < got[i].size(); ++c)
            {
                const double want = cell ? static_cast<double>((*cell)[c]) : ((t.is_cont()) ? std::nan("") : -1.0);
                if (!same(got[i][c], want)) { fail("target-select-value", "sample", s[i], "component", c); return; }
            }
        }
        std::printf("TSEL %s = %s\n", jl(s).c_str(), sel.c_str());
    }

    template <class tcall>
    void expect_reject(const char* what, const std::string& args, const tcall& call)
    {
        bool thrown = false;
        try { call(); }
        catch (const std::exception&) { thrown = true; }
        std::printf("REJ %s | %s = %s\n", what, args.c_str(), thrown ? "rejected" : "accepted");
        if (!thrown) fail("out-of-range-accepted", what, args);
    }

    void query_rejects()
    {
        const auto F = ds->features();
        for (int k = 0; k < 3; ++k)
        {
            const auto s   = sample_list(false);
            const auto idx = to_indices(s);
            switch (rng.next() % 4)
            {
            case 0: expect_reject("flatten", jl(s), [&] { tensor2d_t b; ds->flatten(idx, b); }); break;
            case 1:
                if (target >= 0) { expect_reject("targets", jl(s), [&] { tensor4d_t b; ds->targets(idx, b); }); break; }
                [[fallthrough]];
            case 2:
                if (target >= 0)
                {
                    const auto& t = feats[static_cast<size_t>(target)];
                    expect_reject("tselect", jl(s), [&] { if (t.is_sclass()) ds->select(idx, sbuf); else if (t.is_mclass()) ds->select(idx, mbuf); else if (t.is_scalar()) ds->select(idx, cbuf); else ds->select(idx, tbuf); });
                    break;
                }
                [[fallthrough]];
            default:
                if (F > 0)
                {
                    const auto f = static_cast<size_t>(rng.range(0, F - 1));
                    const auto& d = dfs[f];
                    const auto fi = static_cast<tensor_size_t>(f);
                    expect_reject("select", std::to_string(f) + " ; " + jl(s), [&] { if (d.kind == "sclass") ds->select(idx, fi, sbuf); else if (d.kind == "mclass") ds->select(idx, fi, mbuf); else if (d.kind == "scalar") ds->select(idx, fi, cbuf); else ds->select(idx, fi, tbuf); });
                }
                else expect_reject("flatten", jl(s), [&] { tensor2d_t b; ds->flatten(idx, b); });
                break;
            }
        }
        // feature indices outside [0, F)
        const auto good = to_indices(sample_list());
        static const i64 offs[] = {0, 0, 1, 7};
        const tensor_size_t badf = (rng.next() % 3 == 0) ? static_cast<tensor_size_t>(-1 - static_cast<i64>(rng.next() % 2)) : F + offs[rng.next() % 4];
        const auto bs = std::to_string(badf);
        switch (rng.next() % 7)
        {
        case 0: expect_reject("fselect-sclass", bs, [&] { ds->select(good, badf, sbuf); }); break;
        case 1: expect_reject("fselect-scalar", bs, [&] { ds->select(good, badf, cbuf); }); break;
        case 2: expect_reject("fselect-struct", bs, [&] { ds->select(good, badf, tbuf); }); break;
        case 3: expect_reject("fselect-mclass", bs, [&] { ds->select(good, badf, mbuf); }); break;
        case 4: expect_reject("feature", bs, [&] { (void)ds->feature(badf); }); break;
        case 5: expect_reject("drop", bs, [&] { ds->drop(badf); }); break;
        default: expect_reject("shuffle", bs, [&] { ds->shuffle(badf); }); break;
        }
    }

    // the empty list of samples is a valid selection (repo fix 2030fc5: check() took min()/max() of an empty list):
    // every view must accept it and return zero rows; no random draws here (the case streams stay as they were)
    void query_empty_selection()
    {
        const auto idx = indices_t{};
        try
        {
            tensor2d_t buffer;
            const auto flat = ds->flatten(idx, buffer);
            if (flat.size<0>() != 0) fail("empty-selection-flatten-rows", flat.size<0>());
            if (target >= 0) { tensor4d_t tb; const auto t = ds->targets(idx, tb); if (t.size<0>() != 0) fail("empty-selection-targets-rows", t.size<0>()); }
            for (size_t f = 0; f < dfs.size(); ++f)
            {
                const auto fi = static_cast<tensor_size_t>(f);
                const auto& d = dfs[f];
                if (d.kind == "sclass") { if (ds->select(idx, fi, sbuf).size() != 0) fail("empty-selection-select-rows", f); }
                else if (d.kind == "mclass") { if (ds->select(idx, fi, mbuf).size<0>() != 0) fail("empty-selection-select-rows", f); }
                else if (d.kind == "scalar") { if (ds->select(idx, fi, cbuf).size() != 0) fail("empty-selection-select-rows", f); }
                else { if (ds->select(idx, fi, tbuf).size<0>() != 0) fail("empty-selection-select-rows", f); }
            }
        }
        catch (const std::exception& e)
        {
            fail("empty-selection-rejected", e.what());
        }
    }

    void queries(int nsel)
    {
        query_empty_selection();
        query_flatten();
        const auto F = dfs.size();
        if (F > 0)
        {
            if (static_cast<size_t>(nsel) >= F) { for (size_t f = 0; f < F; ++f) query_select(f); }
            else { for (int k = 0; k < nsel; ++k) query_select(static_cast<size_t>(rng.range(0, static_cast<i64>(F) - 1))); }
        }
    }
};

int parse_input(const std::string& name, size_t& pos)
{
    // "f<k>" at pos
    if (name[pos] != 'f') return -1;
    size_t e = pos + 1;
    while (e < name.size() && std::isdigit(static_cast<unsigned char>(name[e]))) ++e;
    if (e == pos + 1) return -1;
    const int k = std::atoi(name.substr(pos + 1, e - pos - 1).c_str());
    pos = e;
    return k;
}

void run_case(uint64_t seed, const std::string& id, bool big)
{
    vh::rng_t rng(seed);
    g_case = id;
    std::printf("CASE %s %llu\n", id.c_str(), (unsigned long long)seed);

    // ---- schema --------------------------------------------------------------------------------
    const auto F = static_cast<size_t>(rng.range(1, 12));
    std::vector<fdesc_t> feats(F);
    i64 total_width = 0;
    for (auto& d : feats)
    {
        const auto m = rng.next() % 100;
        if (m < 22)
        {
            d.type = 10;
            static const i64 cs[] = {1, 2, 2, 3, 3, 4, 5, 7, 8, 9, 16, 255, 256, 257, 300};
            d.classes = (rng.next() % 8 == 0) ? rng.range(1, 300) : cs[rng.next() % 15];
            if (!big && d.classes > 40 && rng.next() % 3 != 0) d.classes = cs[rng.next() % 11];
        }
        else if (m < 38)
        {
            d.type = 11;
            d.classes = (rng.next() % 12 == 0) ? rng.range(1, big ? 300 : 40) : rng.range(1, 9);
        }
        else
        {
            d.type = static_cast<int>(rng.next() % 10);
            const auto k = rng.next() % 100;
            if (k < 50) { /* scalar */ }
            else if (k < 85) { d.d0 = rng.range(1, 3); d.d1 = rng.range(1, 3); d.d2 = rng.range(1, 2); }
            else
            {
                // eligible for the gradient generator (rows, cols >= 3). NB: 3x3 is excluded on purpose: its 1x1 gradient
                // features are described as scalars but generated as structured ones, so no select() overload serves
                // them (see notes/C08.md, defect candidate) -- outside the property's stated dims (up to 3x3x2) anyway.
                d.d0 = rng.range(1, 2);
                d.d1 = rng.range(3, 4);
                d.d2 = (d.d1 == 3) ? 4 : rng.range(3, 4);
            }
        }
        total_width += d.width();
    }
    int target = -1;
    if (rng.next() % 3 != 0) target = static_cast<int>(rng.range(0, static_cast<i64>(F) - 1));

    // ---- number of samples ---------------------------------------------------------------------
    static const i64 ns[] = {1, 2, 3, 5, 7, 8, 9, 10, 13, 15, 16, 17, 23, 24, 25, 31, 33, 63, 64, 65, 100, 127, 129, 199, 200};
    i64 N = (rng.next() % 3 == 0) ? rng.range(1, 200) : ns[rng.next() % 25];
    const i64 budget = big ? 12000 : 5000;
    if (N * total_width > budget) N = std::max<i64>(1, budget / total_width);

    // ---- values, masks and the order of the set() calls ---------------------------------------
    std::vector<std::vector<cell_t>> shadow(F, std::vector<cell_t>(static_cast<size_t>(N)));
    std::vector<setop_t> ops;
    for (size_t fi = 0; fi < F; ++fi)
    {
        const auto& d = feats[fi];
        // probability that a value is given: 0 (all missing), 1 (none missing) or in between; the target is always full
        const auto pm = rng.next() % 6;
        const double given = (static_cast<int>(fi) == target) ? 1.0 : pm == 0 ? 0.0 : pm == 1 ? 1.0 : rng.unit();
        for (i64 s = 0; s < N; ++s)
        {
            if (!(rng.unit() < given) && !(given >= 1.0)) continue;
            const auto writes = (rng.next() % 10 == 0) ? 2 : 1; // sometimes overwritten: the last value wins
            for (int w = 0; w < writes; ++w)
            {
                setop_t op{static_cast<i64>(fi), s, {}, false};
                if (d.is_sclass()) op.vals = {(rng.next() % 4 == 0) ? d.classes - 1 : (rng.next() % 4 == 0) ? std::max<i64>(0, d.classes - 2) : rng.range(0, d.classes - 1)};
                else if (d.is_mclass()) { for (i64 c = 0; c < d.classes; ++c) op.vals.push_back(static_cast<i64>(rng.next() % 2)); }
                else if (d.d1 >= 3 && d.d2 >= 3) { op.vals = rand_image(rng, d.type, d.size()); }
                else { for (i64 c = 0; c < d.size(); ++c) op.vals.push_back(rand_value(rng, d.type)); }
                ops.push_back(op);
            }
        }
    }
    // interleave: random order, but keep the relative order of the writes to one cell
    for (size_t i = ops.size(); i > 1; --i)
    {
        const auto j = static_cast<size_t>(rng.next() % i);
        std::swap(ops[i - 1], ops[j]);
    }
    {
        std::map<std::pair<i64, i64>, std::vector<size_t>> where;
        for (size_t i = 0; i < ops.size(); ++i) where[{ops[i].fi, ops[i].sample}].push_back(i);
        (void)where; // the shadow simply records the last write in the final order
    }
    // a few invalid writes (must be rejected and leave no trace)
    const auto nbad = rng.next() % 3;
    for (uint64_t b = 0; b < nbad; ++b)
    {
        const auto fi = static_cast<size_t>(rng.range(0, static_cast<i64>(F) - 1));
        const auto& d = feats[fi];
        if (static_cast<int>(fi) == target) continue;
        setop_t op{static_cast<i64>(fi), rng.range(0, N - 1), {}, true};
        if (d.is_sclass()) op.vals = {(rng.next() % 2 == 0) ? d.classes : (rng.next() % 2 == 0) ? -1 : d.classes + rng.range(1, 300)};
        else if (d.is_mclass()) { const auto n = d.classes + ((rng.next() % 2 == 0) ? 1 : -1); for (i64 c = 0; c < n; ++c) op.vals.push_back(1); }
        else { const auto n = d.size() + ((rng.next() % 2 == 0 || d.size() == 1) ? 1 : -1); for (i64 c = 0; c < n; ++c) op.vals.push_back(1); }
        ops.insert(ops.begin() + static_cast<long>(rng.range(0, static_cast<i64>(ops.size()))), op);
    }
    for (const auto& op : ops) if (!op.bad) shadow[static_cast<size_t>(op.fi)][static_cast<size_t>(op.sample)] = op.vals;

    std::printf("DS %lld %zu %d\n", (long long)N, F, target);
    for (size_t i = 0; i < F; ++i) std::printf("FEAT %zu %s %lld %lld %lld %lld\n", i, type_names[feats[i].type], (long long)feats[i].classes, (long long)feats[i].d0, (long long)feats[i].d1, (long long)feats[i].d2);

    c08_datasource_t source(N, feats, target, ops);
    source.load();
    std::printf("LOADED %lld %lld\n", (long long)source.samples(), (long long)source.features());
    if (source.samples() != N || source.features() != static_cast<tensor_size_t>(F) - (target >= 0 ? 1 : 0)) fail("datasource-counts");

    // ---- storage layout: element offset of each feature's block inside its pool ---------------
    {
        std::map<std::string, const char*> first;
        const auto visitor = [&](size_t raw)
        {
            return [&, raw](const feature_t&, const auto& data, const auto& mask)
            {
                using tsc = std::remove_cv_t<std::remove_pointer_t<decltype(data.data())>>;
                const char* pool = std::is_same_v<tsc, float> ? "float32" : std::is_same_v<tsc, double> ? "float64"
                                 : std::is_same_v<tsc, int8_t> ? "int8" : std::is_same_v<tsc, int16_t> ? "int16"
                                 : std::is_same_v<tsc, int32_t> ? "int32" : std::is_same_v<tsc, int64_t> ? "int64"
                                 : std::is_same_v<tsc, uint8_t> ? "uint8" : std::is_same_v<tsc, uint16_t> ? "uint16"
                                 : std::is_same_v<tsc, uint32_t> ? "uint32" : "uint64";
                const auto* p = reinterpret_cast<const char*>(data.data());
                if (!first.count(pool)) first[pool] = p;
                std::printf("LAYOUT %zu %s %lld %lld %lld\n", raw, pool, (long long)((p - first[pool]) / static_cast<long>(sizeof(tsc))), (long long)data.size(), (long long)mask.size());
            };
        };
        // in raw feature order, so that the first feature of each pool (range begin 0) is seen first
        tensor_size_t input = 0;
        for (size_t raw = 0; raw < F; ++raw)
        {
            if (static_cast<int>(raw) == target) source.visit_target(visitor(raw));
            else source.visit_inputs(input++, visitor(raw));
        }
    }

    // ---- dataset + generators ------------------------------------------------------------------
    const auto threads = static_cast<size_t>((rng.next() % 4 == 0) ? rng.range(1, 16) : rng.range(1, 3));
    dataset_t dataset(source, threads);
    const auto I = source.features();
    const auto ngen = rng.range(I == 0 ? 0 : 1, 5);
    const auto subset = [&](bool allow_empty)
    {
        std::vector<i64> ids;
        if (I == 0 || (allow_empty && rng.next() % 2 == 0)) return ids; // empty = all features
        const auto n = rng.range(1, std::min<i64>(I + 1, 6));
        for (i64 k = 0; k < n; ++k) ids.push_back(rng.range(0, I - 1)); // any order, repeats allowed
        if (rng.next() % 3 == 0) std::sort(ids.begin(), ids.end());
        return ids;
    };
    const auto to_idx = [](const std::vector<i64>& v) { return runner_t::to_indices(v); };
    std::vector<gen_spec_t> gens;
    for (i64 g = 0; g < ngen; ++g)
    {
        gen_spec_t spec;
        static const char* kinds[] = {"sclass", "mclass", "scalar", "struct", "product", "gradient", "scalar", "sclass"};
        spec.kind = kinds[rng.next() % 8];
        // mostly pick a kind that has matching input features (a generator without features is legal, but teaches little)
        for (int attempt = 0; attempt < 4; ++attempt)
        {
            bool present = false;
            for (size_t raw = 0; raw < F; ++raw)
            {
                if (static_cast<int>(raw) == target) continue;
                const auto& d = feats[raw];
                present = present || (spec.kind == "sclass" && d.is_sclass()) || (spec.kind == "mclass" && d.is_mclass()) ||
                          ((spec.kind == "scalar" || spec.kind == "product") && d.is_scalar()) || (spec.kind == "struct" && d.is_struct()) ||
                          (spec.kind == "gradient" && d.is_struct() && d.d1 >= 3 && d.d2 >= 3);
            }
            if (present || rng.next() % 8 == 0) break;
            spec.kind = kinds[rng.next() % 8];
        }
        spec.ids1 = subset(true);
        spec.ids2 = spec.ids1;
        if (spec.kind == "sclass") { if (spec.ids1.empty()) dataset.add<sclass_identity_generator_t>(); else dataset.add<sclass_identity_generator_t>(to_idx(spec.ids1)); }
        else if (spec.kind == "mclass") { if (spec.ids1.empty()) dataset.add<mclass_identity_generator_t>(); else dataset.add<mclass_identity_generator_t>(to_idx(spec.ids1)); }
        else if (spec.kind == "scalar") { if (spec.ids1.empty()) dataset.add<scalar_identity_generator_t>(); else dataset.add<scalar_identity_generator_t>(to_idx(spec.ids1)); }
        else if (spec.kind == "struct") { if (spec.ids1.empty()) dataset.add<struct_identity_generator_t>(); else dataset.add<struct_identity_generator_t>(to_idx(spec.ids1)); }
        else if (spec.kind == "gradient")
        {
            spec.kernel = static_cast<int>(rng.next() % 3);
            const auto kt = static_cast<kernel3x3_type>(spec.kernel);
            // the default-kernel constructors are exercised too (sobel)
            if (spec.kernel == 0 && rng.next() % 2 == 0) { if (spec.ids1.empty()) dataset.add<gradient_generator_t>(); else dataset.add<gradient_generator_t>(to_idx(spec.ids1)); }
            else if (spec.ids1.empty()) dataset.add<gradient_generator_t>(kt);
            else dataset.add<gradient_generator_t>(kt, to_idx(spec.ids1));
        }
        else if (!spec.ids1.empty() && rng.next() % 2 == 0)
        {
            // two DIFFERENT feature lists (any order, repeats, different lengths): the products of list 1 x list 2
            spec.ids2 = subset(false);
            if (spec.ids2.empty()) spec.ids2 = spec.ids1;
            dataset.add<pairwise_product_generator_t>(to_idx(spec.ids1), to_idx(spec.ids2));
        }
        else { if (spec.ids1.empty()) dataset.add<pairwise_product_generator_t>(); else dataset.add<pairwise_product_generator_t>(to_idx(spec.ids1)); }
        std::printf("GEN %s%s%s %s | %s\n", spec.kind.c_str(), spec.kind == "gradient" ? "@" : "", spec.kind == "gradient" ? kernel_names[spec.kernel] : "", jl(spec.ids1).c_str(), jl(spec.ids2).c_str());
        gens.push_back(spec);
    }

    runner_t r{rng, N, feats, target, shadow, {}, &dataset, {}};
    for (size_t raw = 0; raw < F; ++raw) if (static_cast<int>(raw) != target) r.inputs.push_back(static_cast<int>(raw));

    // the gradient features the dataset must contain, in order: per gradient generator, per selected structured feature
    // with rows, cols >= 3 (in the order of the given list, repeats kept), per channel, the 4 modes gx, gy, magnitude, angle
    std::vector<gexp_t> gexp;
    for (const auto& spec : gens)
    {
        if (spec.kind != "gradient") continue;
        auto ids = spec.ids1;
        if (ids.empty()) for (i64 i = 0; i < I; ++i) ids.push_back(i);
        for (const auto id : ids)
        {
            const auto& d = feats[static_cast<size_t>(r.inputs[static_cast<size_t>(id)])];
            if (!d.is_struct() || d.d1 < 3 || d.d2 < 3) continue;
            for (i64 ch = 0; ch < d.d0; ++ch) for (int mode = 0; mode < 4; ++mode) gexp.push_back({static_cast<int>(id), static_cast<int>(ch), mode, spec.kernel});
        }
    }
    size_t ngrad = 0;

    // ---- bookkeeping ---------------------------------------------------------------------------
    const auto DF = dataset.features();
    const auto DC = dataset.columns();
    std::printf("NFEAT = %lld\nNCOLS = %lld\n", (long long)DF, (long long)DC);
    {
        const auto td = dataset.target_dims();
        std::printf("TDIMS = %lld,%lld,%lld\n", (long long)td[0], (long long)td[1], (long long)td[2]);
        if (target >= 0)
        {
            const auto& tf = dataset.target();
            const auto& t  = feats[static_cast<size_t>(target)];
            if (tf.name() != "f" + std::to_string(target) || static_cast<int>(tf.type()) != t.type || (!t.is_cont() && tf.classes() != t.classes)) fail("target-descriptor");
        }
    }
    i64 offset = 0;
    for (tensor_size_t f = 0; f < DF; ++f)
    {
        dsf_t d;
        d.feature = dataset.feature(f);
        const auto& ft = d.feature;
        const auto dims = ft.dims();
        d.kind = ft.is_sclass() ? "sclass" : ft.is_mclass() ? "mclass" : ft.is_scalar() ? "scalar" : "struct";
        d.classes = ft.classes();
        d.size = (d.kind == "sclass" || d.kind == "mclass") ? 1 : ::nano::size(dims);
        d.cols = d.kind == "sclass" ? d.classes - 1 : d.kind == "mclass" ? d.classes : d.size;
        d.offset = offset;
        offset += d.cols;
        std::printf("GFEAT %lld = %s %lld %lld %lld %lld\n", (long long)f, type_names[static_cast<int>(ft.type())], (long long)ft.classes(), (long long)dims[0], (long long)dims[1], (long long)dims[2]);
        // sources from the descriptor's name
        const auto& name = ft.name();
        size_t pos = 0;
        if (name.rfind("product(", 0) == 0)
        {
            d.product = true;
            pos = 8;
            d.src1 = parse_input(name, pos);
            ++pos;
            d.src2 = parse_input(name, pos);
        }
        else if (name.find("::") != std::string::npos && name.find("(f") != std::string::npos)
        {
            d.gradient = true;
            pos = name.find("(f") + 1;
            d.src1 = parse_input(name, pos);
        }
        else d.src1 = parse_input(name, pos);
        // names are raw indices: map to input indices
        const auto to_input = [&](int raw) { for (size_t i = 0; i < r.inputs.size(); ++i) if (r.inputs[i] == raw) return static_cast<int>(i); return -1; };
        d.src1 = to_input(d.src1);
        if (d.product) d.src2 = to_input(d.src2);
        if (d.src1 < 0 || (d.product && d.src2 < 0)) { fail("descriptor-name-unparsed", name); d.src1 = 0; d.src2 = 0; }
        // identity descriptors are the stored ones; product/gradient sources have the right kinds
        const auto& s1 = feats[static_cast<size_t>(r.inputs[static_cast<size_t>(d.src1)])];
        if (!d.product && !d.gradient)
        {
            if (static_cast<int>(ft.type()) != s1.type || (!s1.is_cont() && ft.classes() != s1.classes) || (s1.is_cont() && (dims[0] != s1.d0 || dims[1] != s1.d1 || dims[2] != s1.d2))) fail("identity-descriptor", name);
        }
        else if (d.product)
        {
            const auto& s2 = feats[static_cast<size_t>(r.inputs[static_cast<size_t>(d.src2)])];
            if (!s1.is_scalar() || !s2.is_scalar() || d.kind != "scalar") fail("product-descriptor", name);
        }
        else if (!s1.is_struct() || dims[0] != 1 || dims[1] != s1.d1 - 2 || dims[2] != s1.d2 - 2) fail("gradient-descriptor", name);
        if (d.gradient)
        {
            // (channel, mode, kernel) by position; the descriptor (source, name, type) must say the same
            if (ngrad >= gexp.size()) fail("gradient-feature-unexpected", f, name);
            else
            {
                const auto& e = gexp[ngrad];
                d.channel = e.channel;
                d.mode    = e.mode;
                d.kernel  = e.kernel;
                static const char* const suffix[] = {"gx", "gy", "gg", "theta"};
                const auto want = std::string(kernel_names[e.kernel]) + "::" + suffix[e.mode] + "(f" + std::to_string(r.inputs[static_cast<size_t>(e.input)]) + "[channel::" + std::to_string(e.channel) + "])";
                if (d.src1 != e.input || name != want || static_cast<int>(ft.type()) != 9) fail("gradient-descriptor-order", f, "name", name, "expected", want);
            }
            ++ngrad;
        }
        r.dfs.push_back(d);
    }
    if (ngrad != gexp.size()) fail("gradient-feature-count", ngrad, gexp.size());
    if (offset != DC) fail("columns-not-sum-of-feature-columns", offset, DC);
    {
        std::vector<i64> c2f;
        for (tensor_size_t c = 0; c < DC; ++c) c2f.push_back(dataset.column2feature(c));
        std::printf("C2F = %s\n", jl(c2f).c_str());
        for (size_t f = 0; f < r.dfs.size(); ++f)
            for (i64 c = 0; c < r.dfs[f].cols; ++c)
                if (static_cast<size_t>(r.dfs[f].offset + c) >= c2f.size() || c2f[static_cast<size_t>(r.dfs[f].offset + c)] != static_cast<i64>(f)) { fail("column2feature", f, c); break; }
    }

    // ---- baseline views, then a drop/shuffle history with the views re-checked after every step ------
    r.queries(static_cast<int>(DF));
    r.query_targets();
    r.query_rejects();
    const auto nops = DF == 0 ? 0 : rng.range(0, 7);
    for (i64 k = 0; k < nops; ++k)
    {
        const auto m = rng.next() % 10;
        const auto f = static_cast<size_t>(rng.range(0, DF - 1));
        if (m < 4)
        {
            dataset.drop(static_cast<tensor_size_t>(f));
            r.dfs[f].state = st_t::dropped;
            std::printf("OP drop %zu\n", f);
        }
        else if (m < 8)
        {
            dataset.shuffle(static_cast<tensor_size_t>(f));
            const auto all = arange(0, N);
            const auto p   = dataset.shuffled(static_cast<tensor_size_t>(f), all);
            std::vector<i64> perm(p.begin(), p.end());
            r.dfs[f].state = st_t::shuffled;
            r.dfs[f].perm  = perm;
            std::printf("OP shuffle %zu %s\n", f, jl(perm).c_str());
            auto sorted = perm;
            std::sort(sorted.begin(), sorted.end());
            bool bij = static_cast<i64>(sorted.size()) == N;
            for (i64 i = 0; bij && i < N; ++i) bij = sorted[static_cast<size_t>(i)] == i;
            if (!bij) fail("shuffle-not-a-bijection", f, jl(perm));
            // shuffled(feature, samples) is the reported permutation applied to any list
            const auto s  = r.sample_list();
            const auto ps = dataset.shuffled(static_cast<tensor_size_t>(f), runner_t::to_indices(s));
            std::vector<i64> pv(ps.begin(), ps.end());
            std::printf("SHUF %zu | %s = %s\n", f, jl(s).c_str(), jl(pv).c_str());
            for (size_t i = 0; i < s.size(); ++i) if (pv[i] != perm[static_cast<size_t>(s[i])]) { fail("shuffled-list", f); break; }
        }
        else if (m == 8)
        {
            dataset.undrop();
            for (auto& d : r.dfs) d.state = st_t::normal; // as implemented: one flag per feature, undrop clears them all
            std::printf("OP undrop\n");
        }
        else
        {
            dataset.unshuffle();
            for (auto& d : r.dfs) d.state = st_t::normal;
            std::printf("OP unshuffle\n");
        }
        r.queries(3);
        if (rng.next() % 3 == 0) r.query_rejects();
    }
    if (nops > 0)
    {
        // undoing restores the original views
        if (rng.next() % 2 == 0) { dataset.undrop(); std::printf("OP undrop\n"); }
        else { dataset.unshuffle(); std::printf("OP unshuffle\n"); }
        for (auto& d : r.dfs) d.state = st_t::normal;
        r.queries(static_cast<int>(DF));
        r.query_targets();
    }
    std::printf("ENDCASE %s\n", id.c_str());
}
} // namespace

int main(int argc, char** argv)
{
    std::setvbuf(stdout, nullptr, _IOLBF, 0);
    const std::string tier = argc > 1 ? argv[1] : "quick";
    const auto seed        = vh::env_seed();
    int cases              = tier == "thorough" ? 5000 : 300;
    if (argc > 2) cases = std::atoi(argv[2]);
    const int first = argc > 3 ? std::atoi(argv[3]) : 0;
    ::nano::verif::g_rng_seed.store(seed * 2654435761ULL + 12345ULL);
    for (int c = first; c < first + cases; ++c)
    {
        vh::rng_t mix(seed ^ (0xC08C08ULL + static_cast<uint64_t>(c) * 0x9E3779B97F4A7C15ULL));
        run_case(mix.next(), "c" + std::to_string(c), c % 10 == 9);
    }
    std::printf("DONE cases=%d fails=%d\n", cases, g_fails);
    return 0;
}
