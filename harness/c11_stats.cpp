// C11 harness, extension stage "STATS": the code that computes and stores the reported statistics (ml::store_stats /
// ml::load_stats, tensor_t::mean / stdev, nano::percentile) and the layout / queries of ml::result_t (add, store, stats,
// value, optimum_trial, closest_trial), run on random and adversarial value lists.
//
// lines (consumed by ocaml/c11_stats_driver.ml, which recomputes them with the model extracted from Coq, C11_Stats_Defs):
//   STAT tag | v,v,.. | mean,stdev,count,p01,..,p99 | l:r,l:r,.. (9)     ml::store_stats + ml::load_stats on the values; the
//                                                                        positions recorded by nano::detail::percentile
//   RNEW folds nparams                                                   ml::result_t{spaces, folds}
//   RADD n | p,p;p,p;..                                                  add(params)
//   RSTORE t f | tr errors | tr losses | vd errors | vd losses = rec;rec;rec;rec   store(t, f, ..), then the four stats() read back
//   RFINAL | errors | losses = rec;rec                                   store(errors_losses), stats(errors), stats(losses)
//   RCELL t f = rec;rec;rec;rec                                          dump of every (trial, fold) at the end of a scenario
//   RVALUE t split kind = v     (split: 0 train 1 valid, kind: 0 errors 1 losses)
//   ROPT = trial | value(0),value(1),...
//   RCLOSE max | p,p = trial
//   FAIL ...       direct property violation (oracles coded independently of the model)
//   DONE ...
#include "common.h"
#include <algorithm>
#include <array>
#include <nano/core/stats.h>
#include <nano/machine/result.h>
#include <nano/machine/stats.h>
#include <nano/tuner/space.h>

using namespace nano;

namespace
{
using vec_t = std::vector<double>;
long g_fails = 0, g_stat = 0, g_perm = 0, g_scen = 0, g_stores = 0, g_values = 0, g_opts = 0, g_closest = 0, g_oracles = 0;

void fail(const std::string& msg)
{
    ++g_fails;
    if (g_fails <= 40) std::printf("FAIL %s\n", msg.c_str());
}

std::string fl(const vec_t& v)
{
    std::string s;
    for (size_t i = 0; i < v.size(); ++i)
    {
        if (i) s += ",";
        s += vh::hexf(v[i]);
    }
    return s.empty() ? "-" : s;
}
std::string fl(const std::array<double, 12>& v)
{
    return fl(vec_t(v.begin(), v.end()));
}

const double kPcts[9] = {1.0, 5.0, 10.0, 20.0, 50.0, 80.0, 90.0, 95.0, 99.0};
const char*  kNames[12] = {"mean", "stdev", "count", "per01", "per05", "per10", "per20", "per50", "per80", "per90", "per95", "per99"};

std::array<double, 12> members(const ml::stats_t& s)
{
    return {s.m_mean,  s.m_stdev, s.m_count, s.m_per01, s.m_per05, s.m_per10,
            s.m_per20, s.m_per50, s.m_per80, s.m_per90, s.m_per95, s.m_per99};
}

// the real routine on a copy of the values (store_stats re-orders its argument)
std::array<double, 12> real_stats(const vec_t& vals)
{
    tensor1d_t v(static_cast<tensor_size_t>(vals.size()));
    for (size_t i = 0; i < vals.size(); ++i) v(static_cast<tensor_size_t>(i)) = vals[i];
    tensor1d_t st(12);
    st.full(-7.0);
    ml::store_stats(v.tensor(), st.tensor());
    return members(ml::load_stats(st.tensor()));
}

bool same_bits(double a, double b)
{
    return std::memcmp(&a, &b, sizeof(double)) == 0 || (std::isnan(a) && std::isnan(b));
}

// the sanity facts a reader can check on a record, against the values it was computed from (independent of the model):
// count = n; percentiles non-decreasing and inside [min, max]; each percentile is an element or the midpoint of two neighbours of
// the sorted values at the position p (n - 1) / 100 computed in exact integer arithmetic; mean inside [min, max] up to the rounding of
// an n-term sum; deviation finite, >= 0, and (within the one-pass rounding) 0 for constant values
void oracle(const std::string& what, const vec_t& vals, const std::array<double, 12>& r)
{
    ++g_oracles;
    const auto n = vals.size();
    vec_t      s(vals);
    std::sort(s.begin(), s.end());
    const double mn = s.front(), mx = s.back();
    double       maxabs = std::max(std::fabs(mn), std::fabs(mx)), sumabs = 0.0;
    for (double x : vals) sumabs += std::fabs(x);
    const double u = 1.1102230246251565e-16;
    if (r[2] != static_cast<double>(n)) fail("STATS count " + vh::hexf(r[2]) + " is not the number of values " + std::to_string(n) + " ;; " + what);
    for (int i = 3; i < 12; ++i)
    {
        if (!(r[static_cast<size_t>(i)] >= mn && r[static_cast<size_t>(i)] <= mx))
            fail(std::string("STATS ") + kNames[i] + "=" + vh::hexf(r[static_cast<size_t>(i)]) + " is outside [min, max] = [" + vh::hexf(mn) + ", " + vh::hexf(mx) + "] ;; " + what);
        if (i > 3 && !(r[static_cast<size_t>(i - 1)] <= r[static_cast<size_t>(i)]))
            fail(std::string("STATS ") + kNames[i - 1] + "=" + vh::hexf(r[static_cast<size_t>(i - 1)]) + " > " + kNames[i] + "=" + vh::hexf(r[static_cast<size_t>(i)]) + " ;; " + what);
        // exact position: p (n - 1) / 100 with integer p
        const auto   p   = static_cast<uint64_t>(kPcts[i - 3]);
        const auto   num = p * static_cast<uint64_t>(n - 1);
        const auto   lo  = static_cast<size_t>(num / 100), hi = static_cast<size_t>((num + 99) / 100);
        const double a = s[lo], b = s[hi];
        const double want = lo == hi ? a : (std::isfinite(a + b) ? (a + b) / 2 : a / 2 + b / 2);
        if (!same_bits(want, r[static_cast<size_t>(i)]) && !(want == 0.0 && r[static_cast<size_t>(i)] == 0.0))
            fail(std::string("STATS ") + kNames[i] + "=" + vh::hexf(r[static_cast<size_t>(i)]) + " is not the value at position " + std::to_string(p) + "*(n-1)/100 of the sorted values (" +
                 vh::hexf(want) + ", elements " + std::to_string(lo) + " and " + std::to_string(hi) + ") ;; " + what);
    }
    const double tol_mean = 2.0 * static_cast<double>(n + 1) * u * sumabs / static_cast<double>(n) + 1e-320;
    if (std::isfinite(sumabs) && !(r[0] >= mn - tol_mean && r[0] <= mx + tol_mean))
        fail("STATS mean=" + vh::hexf(r[0]) + " is outside [min, max] = [" + vh::hexf(mn) + ", " + vh::hexf(mx) + "] ;; " + what);
    if (maxabs <= 1e150)
    {
        if (!(r[1] >= 0.0) || !std::isfinite(r[1])) fail("STATS stdev=" + vh::hexf(r[1]) + " is negative or not finite ;; " + what);
        if (n == 1 && r[1] != 0.0) fail("STATS stdev=" + vh::hexf(r[1]) + " of a single value is not 0 ;; " + what);
        // two-pass reference: sqrt(sum (x - m)^2 / n / (n - 1))
        if (n > 1)
        {
            long double m = 0, q = 0;
            for (double x : vals) m += x;
            m /= static_cast<long double>(n);
            for (double x : vals) q += (x - m) * (x - m);
            const double ref = static_cast<double>(std::sqrt(q / static_cast<long double>(n) / static_cast<long double>(n - 1)));
            // one-pass variance: absolute error <= ~ (n + 4) u max|x|^2, so the deviation is off by <= sqrt of that / (n - 1)
            const double tol = std::sqrt(2.0 * static_cast<double>(n + 4) * u / static_cast<double>(n - 1)) * maxabs + 1e-150;
            if (!(std::fabs(r[1] - ref) <= tol)) fail("STATS stdev=" + vh::hexf(r[1]) + " differs from the two-pass reference " + vh::hexf(ref) + " ;; " + what);
            if (mn == mx && !(r[1] <= tol)) fail("STATS stdev=" + vh::hexf(r[1]) + " of a constant vector ;; " + what);
        }
    }
}

std::string positions_of(const vec_t& vals)
{
    vec_t s(vals);
    std::sort(s.begin(), s.end());
    std::string out;
    for (int i = 0; i < 9; ++i)
    {
        std::vector<std::ptrdiff_t> pos;
        const auto v = nano::detail::percentile(s.begin(), s.end(), kPcts[i],
                                                [&](auto p)
                                                {
                                                    pos.push_back(static_cast<std::ptrdiff_t>(p));
                                                    return s[static_cast<size_t>(p)];
                                                });
        (void)v;
        if (i) out += ",";
        out += std::to_string(pos.front()) + ":" + std::to_string(pos.back());
    }
    return out;
}

// ---- value generators -------------------------------------------------------------------------------------------------
double dyadic(vh::rng_t& rng, int bits, double scale)
{
    return static_cast<double>(rng.range(0, (int64_t{1} << bits) - 1)) / static_cast<double>(int64_t{1} << bits) * scale;
}

vec_t make_values(vh::rng_t& rng, int kind, size_t n)
{
    vec_t v(n);
    switch (kind)
    {
    case 0: // full-precision uniform in [0, 1)
        for (auto& x : v) x = rng.unit();
        break;
    case 1: // ties: few distinct values
    {
        const auto k = rng.range(1, 4);
        vec_t      pool(static_cast<size_t>(k));
        for (auto& x : pool) x = dyadic(rng, 6, 8.0);
        for (auto& x : v) x = pool[static_cast<size_t>(rng.range(0, k - 1))];
        break;
    }
    case 2: // constant (what a saturated fold reports)
    {
        const double c = (rng.unit() + 0.05) * std::pow(10.0, static_cast<double>(rng.range(-6, 6)));
        for (auto& x : v) x = c;
        break;
    }
    case 3: // 0/1 classification errors
        for (auto& x : v) x = rng.range(0, 3) == 0 ? 1.0 : 0.0;
        break;
    case 4: // huge magnitudes, both signs (squares still finite)
        for (auto& x : v) x = (rng.unit() - 0.5) * std::pow(10.0, static_cast<double>(rng.range(100, 150)));
        break;
    case 5: // tiny magnitudes
        for (auto& x : v) x = (rng.unit() + 1e-3) * std::pow(10.0, static_cast<double>(rng.range(-300, -100)));
        break;
    case 6: // mixed magnitudes: a few outliers
        for (auto& x : v) x = rng.range(0, 9) == 0 ? rng.unit() * 1e6 : rng.unit() * 1e-3;
        break;
    case 7: // sorted ascending / descending small dyadics with many ties
    {
        for (auto& x : v) x = dyadic(rng, 3, 4.0) - 1.0;
        std::sort(v.begin(), v.end());
        if (rng.range(0, 1)) std::reverse(v.begin(), v.end());
        for (auto& x : v) x = x == 0.0 ? 0.0 : x; // no negative zero
        break;
    }
    case 8: // nearly constant: cancellation in the one-pass variance
    {
        const double c = 1.0 + rng.unit();
        for (auto& x : v) x = c + static_cast<double>(rng.range(-3, 3)) * 2.220446049250313e-16;
        break;
    }
    default: // losses: exponential-looking positive values
        for (auto& x : v) x = -std::log(rng.unit() + 1e-12) * 0.37;
        break;
    }
    return v;
}

size_t make_size(vh::rng_t& rng, size_t maxn)
{
    // lengths around the places where a position p (n - 1) / 100 is an integer, and the smallest ones
    static const size_t special[] = {1, 1, 2, 2, 3, 4, 5, 6, 11, 21, 26, 51, 101, 100, 102, 201, 13, 7};
    if (rng.range(0, 2) == 0) return std::min(maxn, special[static_cast<size_t>(rng.range(0, 17))]);
    return static_cast<size_t>(rng.range(1, static_cast<int64_t>(maxn)));
}

void stat_case(vh::rng_t& rng, const std::string& tag, const vec_t& vals)
{
    ++g_stat;
    const auto r = real_stats(vals);
    std::printf("STAT %s | %s | %s | %s\n", tag.c_str(), fl(vals).c_str(), fl(r).c_str(), positions_of(vals).c_str());
    oracle("ml::store_stats on [" + fl(vals) + "] (" + tag + ")", vals, r);
    // the same multiset in another order: percentiles and count identical, mean / deviation within the any-order rounding bound
    if (vals.size() > 1)
    {
        ++g_perm;
        vec_t w(vals);
        for (size_t i = w.size(); i > 1; --i) std::swap(w[i - 1], w[static_cast<size_t>(rng.range(0, static_cast<int64_t>(i) - 1))]);
        const auto q = real_stats(w);
        double     sumabs = 0.0, maxabs = 0.0;
        for (double x : vals) sumabs += std::fabs(x), maxabs = std::max(maxabs, std::fabs(x));
        const double u = 1.1102230246251565e-16, n = static_cast<double>(vals.size());
        for (size_t i = 2; i < 12; ++i)
            if (!same_bits(r[i], q[i]) && !(r[i] == 0.0 && q[i] == 0.0))
                fail(std::string("STATS ") + kNames[i] + " depends on the order of the values: " + vh::hexf(r[i]) + " vs " + vh::hexf(q[i]) + " for [" + fl(vals) + "] and [" + fl(w) + "]");
        if (std::isfinite(sumabs) && !(std::fabs(r[0] - q[0]) <= 4.0 * (n + 1) * u * sumabs / n + 1e-320))
            fail("STATS mean depends on the order of the values beyond rounding: " + vh::hexf(r[0]) + " vs " + vh::hexf(q[0]) + " for [" + fl(vals) + "]");
        if (maxabs <= 1e150 && !(std::fabs(r[1] - q[1]) <= 2.0 * std::sqrt(2.0 * (n + 4) * u / (n - 1)) * maxabs + 1e-150))
            fail("STATS stdev depends on the order of the values beyond rounding: " + vh::hexf(r[1]) + " vs " + vh::hexf(q[1]) + " for [" + fl(vals) + "]");
    }
}

// ---- ml::result_t scenarios --------------------------------------------------------------------------------------------
std::string recs(const std::array<std::array<double, 12>, 4>& r)
{
    return fl(r[0]) + ";" + fl(r[1]) + ";" + fl(r[2]) + ";" + fl(r[3]);
}
std::array<std::array<double, 12>, 4> read_all(const ml::result_t& result, tensor_size_t t, tensor_size_t f)
{
    return {members(result.stats(t, f, ml::split_type::train, ml::value_type::errors)),
            members(result.stats(t, f, ml::split_type::train, ml::value_type::losses)),
            members(result.stats(t, f, ml::split_type::valid, ml::value_type::errors)),
            members(result.stats(t, f, ml::split_type::valid, ml::value_type::losses))};
}
tensor2d_t pack(const vec_t& e, const vec_t& l)
{
    tensor2d_t t(2, static_cast<tensor_size_t>(e.size()));
    for (size_t i = 0; i < e.size(); ++i) t(0, static_cast<tensor_size_t>(i)) = e[i], t(1, static_cast<tensor_size_t>(i)) = l[i];
    return t;
}

void scenario(vh::rng_t& rng, size_t maxn)
{
    ++g_scen;
    const auto folds   = rng.range(1, 5);
    const auto nparams = rng.range(0, 3);
    param_spaces_t spaces;
    for (int64_t i = 0; i < nparams; ++i) spaces.emplace_back("p" + std::to_string(i), param_space_t::type::linear, 0.0, 1.0, 2.0);
    auto result = ml::result_t{spaces, folds};
    std::printf("RNEW %" PRId64 " %" PRId64 "\n", folds, nparams);
    // sentinel per (trial, fold, split, kind): every stored vector is shifted by a distinct amount, so that every one of the
    // 48 numbers of a (trial, fold) identifies its cell
    tensor_size_t                                       trials = 0;
    using rec4_t = std::array<std::array<double, 12>, 4>;
    std::vector<std::vector<rec4_t>>                    last; // what was read back right after the last store to (trial, fold); NaN if nothing
    std::vector<vec_t>                                  params;
    const auto batches = rng.range(1, 3);
    const int  tie_mode = rng.range(0, 3) == 0 ? static_cast<int>(rng.range(1, 2)) : 0; // 1: all trials equal, 2: two classes of trials
    std::vector<std::array<std::array<vec_t, 4>, 2>> tie_pool(static_cast<size_t>(folds));
    for (int64_t b = 0; b < batches; ++b)
    {
        const auto add = rng.range(1, 4);
        tensor2d_t ps(add, nparams);
        std::string pstr;
        for (tensor_size_t t = 0; t < add; ++t)
        {
            vec_t row;
            for (tensor_size_t j = 0; j < nparams; ++j)
            {
                ps(t, j) = static_cast<double>(rng.range(-16, 16)) / 4.0;
                row.push_back(ps(t, j));
            }
            params.push_back(row);
            if (t) pstr += ";";
            pstr += fl(row);
        }
        // closest_trial among the old trials, before the new ones are added (what ml::tune asks)
        if (trials > 0 && nparams > 0)
            for (int k = 0; k < 3; ++k)
            {
                ++g_closest;
                tensor1d_t q(nparams);
                vec_t      qv;
                for (tensor_size_t j = 0; j < nparams; ++j) q(j) = k == 0 ? params[static_cast<size_t>(rng.range(0, trials - 1))][static_cast<size_t>(j)] : static_cast<double>(rng.range(-16, 16)) / 4.0, qv.push_back(q(j));
                const auto maxt = rng.range(0, 3) == 0 ? rng.range(0, trials) : trials;
                const auto got  = result.closest_trial(q.tensor(), maxt);
                std::printf("RCLOSE %" PRId64 " | %s = %" PRId64 "\n", maxt, fl(qv).c_str(), static_cast<int64_t>(got));
                // oracle: no earlier trial is at most as far, no later one strictly closer (squared distances of small dyadics are exact)
                auto d2 = [&](tensor_size_t t) { double s = 0; for (tensor_size_t j = 0; j < nparams; ++j) { const double d = params[static_cast<size_t>(t)][static_cast<size_t>(j)] - qv[static_cast<size_t>(j)]; s += d * d; } return s; };
                bool ok = maxt == 0 ? got == 0 : (got >= 0 && got < maxt);
                for (tensor_size_t t = 0; ok && t < maxt; ++t) ok = t < got ? d2(t) > d2(got) : d2(t) >= d2(got);
                if (!ok) fail("RESULT closest_trial(" + fl(qv) + ", " + std::to_string(maxt) + ") = " + std::to_string(got) + " is not the first closest of the first trials");
            }
        result.add(ps);
        std::printf("RADD %" PRId64 " | %s\n", add, nparams > 0 ? pstr.c_str() : "-");
        rec4_t nothing;
        for (auto& r : nothing) r.fill(std::numeric_limits<double>::quiet_NaN());
        last.resize(static_cast<size_t>(trials + add), std::vector<rec4_t>(static_cast<size_t>(folds), nothing));
        // stores in a scrambled order, some (trial, fold) left unset, some stored twice (also old trials)
        std::vector<std::pair<tensor_size_t, tensor_size_t>> order;
        for (tensor_size_t t = 0; t < trials + add; ++t)
            for (tensor_size_t f = 0; f < folds; ++f)
                if (t >= trials ? (tie_mode != 0 || rng.range(0, 9) != 0) : rng.range(0, 5) == 0) order.emplace_back(t, f);
        for (size_t i = order.size(); i > 1; --i) std::swap(order[i - 1], order[static_cast<size_t>(rng.range(0, static_cast<int64_t>(i) - 1))]);
        const auto dup = order.size();
        for (size_t i = 0; i < dup; ++i)
            if (rng.range(0, 6) == 0) order.push_back(order[i]);
        for (const auto& [t, f] : order)
        {
            ++g_stores;
            const auto ntr = make_size(rng, maxn), nvd = make_size(rng, maxn);
            const auto k1 = static_cast<int>(rng.range(0, 9)), k2 = static_cast<int>(rng.range(0, 9));
            std::array<vec_t, 4> v = {make_values(rng, k1, ntr), make_values(rng, k2, ntr), make_values(rng, k2, nvd), make_values(rng, k1, nvd)};
            if (tie_mode)
            {
                // trials of the same class (trial mod 2, or all of them) store the very same vectors for a fold: value(trial) has exact ties,
                // so that "first minimum" and "last minimum" differ
                auto& slot = tie_pool[static_cast<size_t>(f)][static_cast<size_t>(tie_mode == 1 ? 0 : t % 2)];
                if (slot[0].empty()) slot = v;
                v = slot;
            }
            if (!tie_mode && rng.range(0, 3) == 0) // value(trial) on exactly representable means: sentinels
                for (size_t c = 0; c < 4; ++c)
                    for (auto& x : v[c]) x = static_cast<double>((t * 8 + f) * 4 + static_cast<tensor_size_t>(c)) + (x > 0.5 ? 0.25 : 0.0);
            result.store(t, f, pack(v[0], v[1]), pack(v[2], v[3]));
            const auto back = read_all(result, t, f);
            std::printf("RSTORE %" PRId64 " %" PRId64 " | %s | %s | %s | %s = %s\n", static_cast<int64_t>(t), static_cast<int64_t>(f), fl(v[0]).c_str(), fl(v[1]).c_str(), fl(v[2]).c_str(),
                        fl(v[3]).c_str(), recs(back).c_str());
            last[static_cast<size_t>(t)][static_cast<size_t>(f)] = back;
            for (size_t c = 0; c < 4; ++c)
                oracle("ml::result_t::store(" + std::to_string(t) + ", " + std::to_string(f) + ") slot " + std::to_string(c) + " of [" + fl(v[c]) + "]", v[c], back[c]);
        }
        trials += add;
        // frame + layout, independently of the model: every (trial, fold) still reads, bit for bit, what was read back right after
        // the last store to it (whose 48 numbers were checked against the stored values by `oracle`), NaN if nothing was stored
        for (tensor_size_t t = 0; t < trials; ++t)
            for (tensor_size_t f = 0; f < folds; ++f)
            {
                const auto  got = read_all(result, t, f);
                const auto& v   = last[static_cast<size_t>(t)][static_cast<size_t>(f)];
                for (size_t c = 0; c < 4; ++c)
                {
                    const auto& want = v[c];
                    for (size_t i = 0; i < 12; ++i)
                        if (!same_bits(want[i], got[c][i]))
                        {
                            fail("RESULT stats(" + std::to_string(t) + ", " + std::to_string(f) + ") slot " + std::to_string(c) + " member " + kNames[i] + " reads " + vh::hexf(got[c][i]) +
                                 " but " + vh::hexf(want[i]) + " was stored there last (folds=" + std::to_string(folds) + " trials=" + std::to_string(trials) + ")");
                            break;
                        }
                }
                std::printf("RCELL %" PRId64 " %" PRId64 " = %s\n", static_cast<int64_t>(t), static_cast<int64_t>(f), recs(got).c_str());
            }
        // value() for every trial / split / kind, optimum_trial()
        std::string vals;
        for (tensor_size_t t = 0; t < trials; ++t)
        {
            for (int sp = 0; sp < 2; ++sp)
                for (int kd = 0; kd < 2; ++kd)
                {
                    ++g_values;
                    const auto v = result.value(t, sp == 0 ? ml::split_type::train : ml::split_type::valid, kd == 0 ? ml::value_type::errors : ml::value_type::losses);
                    std::printf("RVALUE %" PRId64 " %d %d = %s\n", static_cast<int64_t>(t), sp, kd, vh::hexf(v).c_str());
                    // oracle: the mean over the folds of the stored means of exactly this (trial, split, kind)
                    double s = 0.0;
                    for (tensor_size_t f = 0; f < folds; ++f)
                        s += members(result.stats(t, f, sp == 0 ? ml::split_type::train : ml::split_type::valid, kd == 0 ? ml::value_type::errors : ml::value_type::losses))[0];
                    if (!same_bits(v, s / static_cast<double>(folds)))
                        fail("RESULT value(" + std::to_string(t) + ", split " + std::to_string(sp) + ", kind " + std::to_string(kd) + ") = " + vh::hexf(v) + " is not the mean over the folds of the stored means " +
                             vh::hexf(s / static_cast<double>(folds)));
                }
            if (t) vals += ",";
            vals += vh::hexf(result.value(t));
            if (!same_bits(result.value(t), result.value(t, ml::split_type::valid, ml::value_type::errors))) fail("RESULT value(trial) is not the (validation, errors) value");
        }
        ++g_opts;
        const auto opt = result.optimum_trial();
        std::printf("ROPT = %" PRId64 " | %s\n", static_cast<int64_t>(opt), vals.c_str());
        bool ok = opt >= 0 && opt < trials, any = false;
        for (tensor_size_t t = 0; t < trials; ++t) any = any || result.value(t) < std::numeric_limits<double>::max();
        if (!any) ok = opt == 0;
        else
            for (tensor_size_t t = 0; ok && t < trials; ++t)
            {
                const auto vt = result.value(t), vo = result.value(opt);
                if (std::isnan(vt)) continue;
                ok = t < opt ? vt > vo : vt >= vo;
            }
        if (!ok) fail("RESULT optimum_trial() = " + std::to_string(opt) + " is not the first minimum of value(trial) = [" + vals + "]");
    }
    // the optimum's statistics
    {
        const auto n = make_size(rng, maxn);
        const auto e = make_values(rng, static_cast<int>(rng.range(0, 9)), n), l = make_values(rng, static_cast<int>(rng.range(0, 9)), n);
        result.store(pack(e, l));
        const auto re = members(result.stats(ml::value_type::errors)), rl = members(result.stats(ml::value_type::losses));
        std::printf("RFINAL | %s | %s = %s;%s\n", fl(e).c_str(), fl(l).c_str(), fl(re).c_str(), fl(rl).c_str());
        oracle("ml::result_t::store(errors_losses) errors of [" + fl(e) + "]", e, re);
        oracle("ml::result_t::store(errors_losses) losses of [" + fl(l) + "]", l, rl);
        // the final store must not disturb the per-fold statistics
        for (tensor_size_t t = 0; t < trials; ++t)
            for (tensor_size_t f = 0; f < folds; ++f) std::printf("RCELL %" PRId64 " %" PRId64 " = %s\n", static_cast<int64_t>(t), static_cast<int64_t>(f), recs(read_all(result, t, f)).c_str());
    }
}

// load_stats: member k of stats_t reads column k
void load_order_check()
{
    tensor1d_t st(12);
    for (tensor_size_t i = 0; i < 12; ++i) st(i) = static_cast<double>(100 + i);
    const auto m = members(ml::load_stats(st.tensor()));
    for (size_t i = 0; i < 12; ++i)
        if (m[i] != static_cast<double>(100 + i)) fail(std::string("STATS load_stats: member ") + kNames[i] + " reads " + vh::hexf(m[i]) + " from a buffer holding 100..111");
}
} // namespace

int main(int argc, char** argv)
{
    std::setvbuf(stdout, nullptr, _IOLBF, 0);
    const std::string tier     = argc > 1 ? argv[1] : "quick";
    const bool        thorough = tier == "thorough";
    vh::rng_t         boot(vh::env_seed());
    vh::rng_t         rng(boot.next() ^ 0x57A7557A75ULL);

    load_order_check();
    // deterministic small cases first: every length 1..12 x the value kinds
    for (size_t n = 1; n <= 12; ++n)
        for (int kind = 0; kind < 10; ++kind) stat_case(rng, "small", make_values(rng, kind, n));
    const int cases = thorough ? 12000 : 2500;
    for (int i = 0; i < cases; ++i)
    {
        const auto n = make_size(rng, thorough ? 500 : 260);
        stat_case(rng, "rand", make_values(rng, static_cast<int>(rng.range(0, 9)), n));
    }
    const int scen = thorough ? 900 : 150;
    for (int i = 0; i < scen; ++i) scenario(rng, thorough ? 60 : 40);

    std::printf("DONE fails=%ld stat_cases=%ld perm_cases=%ld scenarios=%ld stores=%ld values=%ld optimums=%ld closest=%ld oracle_records=%ld\n", g_fails, g_stat, g_perm,
                g_scen, g_stores, g_values, g_opts, g_closest, g_oracles);
    return 0;
}
