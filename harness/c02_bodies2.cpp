// C02 extension 3 harness: WHOLE RUNS of the real ellipsoid / osga / pgm / dgm / fgm / asga2 / asga4 solvers (src/solver/ellipsoid.cpp,
// osga.cpp, universal.cpp, asga.cpp) with a recording function_t (every evaluation: point, value, sub-gradient if requested), the
// NANO_VERIF solver_t::done entry/exit hooks and the values hook ev_ellipsoid_update (gHg, centre and shape matrix before / after).
// The extracted model `body2_run` (coq/theories/C02_Bodies2_Defs.v) must request exactly the recorded sequence of evaluation points,
// bit for bit, and end in the same state / status / counters (ocaml/c02c_driver.ml). The Eigen reductions the bodies read (dot,
// squaredNorm, lpNorm<2>) are answered by the driver with Eigen's summation order; the DOT lines printed first tie that order to
// the real library on every run. The property's own oracle (FAIL lines) is applied here, independently of the model.
//
//   c02_bodies2 <quick|thorough> [only-run-id]            (every case derives from VERIF_SEED and its index)
//
//   DOT  n | a | b | a.dot(b) (a-b).dot(a-b) (a-b).squaredNorm() a.lpNorm<2>()
//   CRUN id solver body fname n | eps maxev patience lsmax sc eps0 p1 p2 p3 p4 | x0       body: 0 ellipsoid, 1 osga, 2 pgm, 3 dgm, 4 fgm, 5 asga2, 6 asga4
//   CEV  id k withg f | x | g
//   CEL  id j f fbest gHg | x | g | H | x' | H'          the j-th ev_ellipsoid_update event
//   CDN  id j iter_ok conv ret evals calls fx valid      calls = fcalls + gcalls of the function at that moment
//   CRET id status fcalls gcalls fn_fcalls fn_gcalls vtest fx | x | g
//   FAIL id clause ...
//   CEND id
//   DONE runs=.. evals=.. fails=..
#include "common.h"
#include <algorithm>
#include <functional>
#include <map>
#include <nano/core/numeric.h>
#include <nano/function.h>
#include <nano/solver.h>
#include <nano/verif.h>

using namespace nano;

namespace
{
std::string hv(const vector_t& v)
{
    std::string s;
    for (tensor_size_t i = 0; i < v.size(); ++i)
    {
        if (i) s += ",";
        s += vh::hexf(v(i));
    }
    return s.empty() ? "-" : s;
}
bool same_bits(const double a, const double b) { return (std::isnan(a) && std::isnan(b)) || std::memcmp(&a, &b, sizeof(a)) == 0; }
bool same_bits(const vector_t& a, const vector_t& b)
{
    if (a.size() != b.size()) return false;
    for (tensor_size_t i = 0; i < a.size(); ++i)
        if (!same_bits(a(i), b(i))) return false;
    return true;
}
bool allfin(const vector_t& v)
{
    for (tensor_size_t i = 0; i < v.size(); ++i)
        if (!std::isfinite(v(i))) return false;
    return true;
}
vector_t copy_of(const vector_cmap_t& v)
{
    vector_t r(v.size());
    r.vector() = v.vector();
    return r;
}

struct eval_rec_t
{
    vector_t x, g;
    double   f{0};
    bool     withg{false};
};

class recorder_t final : public function_t
{
public:
    explicit recorder_t(const function_t& inner, const double sc = -1.0)
        : function_t("recorder", inner.size()), m_inner(&inner)
    {
        convex(inner.convex() ? convexity::yes : convexity::no);
        smooth(inner.smooth() ? smoothness::yes : smoothness::no);
        strong_convexity(sc >= 0.0 ? sc : inner.strong_convexity());
    }
    rfunction_t clone() const override { return std::make_unique<recorder_t>(*this); }
    scalar_t    do_vgrad(vector_cmap_t x, vector_map_t gx) const override
    {
        const auto f = m_inner->vgrad(x, gx);
        eval_rec_t r;
        r.x     = copy_of(x);
        r.f     = f;
        r.withg = gx.size() == x.size();
        if (r.withg) r.g = copy_of(gx);
        m_log.push_back(std::move(r));
        return f;
    }
    const function_t*               m_inner;
    mutable std::vector<eval_rec_t> m_log;
};

double logu(vh::rng_t& rng, const double lo, const double hi) { return std::exp(std::log(lo) + (std::log(hi) - std::log(lo)) * rng.unit()); }
double sym(vh::rng_t& rng) { return 2.0 * rng.unit() - 1.0; }

// ---- objectives --------------------------------------------------------------------------------------------------
class quad_t final : public function_t
{
public:
    quad_t(vh::rng_t& rng, const tensor_size_t n, const double kappa, const double s)
        : function_t("vquad", n), m_A(n, n), m_b(n)
    {
        convex(convexity::yes);
        smooth(smoothness::yes);
        matrix_t B(n, n);
        for (tensor_size_t i = 0; i < n; ++i)
        {
            m_b(i) = (2.0 * rng.unit() - 1.0) * 3.0;
            for (tensor_size_t j = 0; j < n; ++j) B(i, j) = (2.0 * rng.unit() - 1.0);
        }
        for (tensor_size_t i = 0; i < n; ++i)
            for (tensor_size_t j = 0; j < n; ++j)
            {
                double acc = (i == j) ? 1.0 : 0.0;
                for (tensor_size_t l = 0; l < n; ++l) acc += (kappa / static_cast<double>(n)) * B(i, l) * B(j, l);
                m_A(i, j) = s * acc;
            }
    }
    rfunction_t clone() const override { return std::make_unique<quad_t>(*this); }
    scalar_t    do_vgrad(vector_cmap_t x, vector_map_t gx) const override
    {
        const auto n = size();
        double     f = 0;
        for (tensor_size_t i = 0; i < n; ++i)
        {
            double acc = 0;
            for (tensor_size_t j = 0; j < n; ++j) acc += m_A(i, j) * x(j);
            if (gx.size() == n) gx(i) = acc + m_b(i);
            f += x(i) * (0.5 * acc + m_b(i));
        }
        return f;
    }
    matrix_t m_A;
    vector_t m_b;
};

// max of affine pieces (convex, non-smooth), minus an offset
class pwl_t final : public function_t
{
public:
    pwl_t(vh::rng_t& rng, const tensor_size_t n, const int pieces)
        : function_t("vpwl", n), m_W(pieces, n), m_b(pieces)
    {
        convex(convexity::yes);
        smooth(smoothness::no);
        for (int p = 0; p < pieces; ++p)
        {
            for (tensor_size_t i = 0; i < n; ++i) m_W(p, i) = sym(rng) * 2.0;
            m_b(p) = sym(rng);
        }
    }
    rfunction_t clone() const override { return std::make_unique<pwl_t>(*this); }
    scalar_t    do_vgrad(vector_cmap_t x, vector_map_t gx) const override
    {
        double best = -HUGE_VAL;
        tensor_size_t arg = 0;
        for (tensor_size_t p = 0; p < m_W.rows(); ++p)
        {
            double v = m_b(p);
            for (tensor_size_t i = 0; i < size(); ++i) v += m_W(p, i) * x(i);
            if (v > best) { best = v; arg = p; }
        }
        if (gx.size() == size())
            for (tensor_size_t i = 0; i < size(); ++i) gx(i) = m_W(arg, i);
        return best;
    }
    matrix_t m_W;
    vector_t m_b;
};

// scale * |x - c|_1 (sub-gradient sign(x - c), exactly zero at c)
class l1_t final : public function_t
{
public:
    l1_t(vector_t c, const double s)
        : function_t("vl1", c.size()), m_c(std::move(c)), m_s(s)
    {
        convex(convexity::yes);
        smooth(smoothness::no);
    }
    rfunction_t clone() const override { return std::make_unique<l1_t>(*this); }
    scalar_t    do_vgrad(vector_cmap_t x, vector_map_t gx) const override
    {
        double f = 0;
        for (tensor_size_t i = 0; i < size(); ++i)
        {
            const auto d = x(i) - m_c(i);
            f += m_s * std::fabs(d);
            if (gx.size() == size()) gx(i) = d > 0 ? m_s : (d < 0 ? -m_s : 0.0);
        }
        return f;
    }
    vector_t m_c;
    double   m_s{1};
};

class fun1d_t final : public function_t
{
public:
    using op_t = std::function<std::pair<double, double>(double)>;
    fun1d_t(string_t name, op_t op)
        : function_t(std::move(name), 1), m_op(std::move(op))
    {
        smooth(smoothness::no);
        convex(convexity::no);
    }
    rfunction_t clone() const override { return std::make_unique<fun1d_t>(*this); }
    scalar_t    do_vgrad(vector_cmap_t x, vector_map_t gx) const override
    {
        const auto [f, g] = m_op(x(0));
        if (gx.size() == 1) gx(0) = g;
        return f;
    }
    op_t m_op;
};

// inner(x) inside the box |x - c|_inf <= R, non-finite outside
class region_t final : public function_t
{
public:
    region_t(rfunction_t inner, vector_t center, const double radius, const int mode)
        : function_t("region", inner->size()), m_inner(std::move(inner)), m_center(std::move(center)), m_radius(radius), m_mode(mode)
    {
        convex(convexity::no);
        smooth(m_inner->smooth() ? smoothness::yes : smoothness::no);
    }
    region_t(const region_t& o)
        : function_t(o), m_inner(o.m_inner->clone()), m_center(o.m_center), m_radius(o.m_radius), m_mode(o.m_mode)
    {
    }
    rfunction_t clone() const override { return std::make_unique<region_t>(*this); }
    scalar_t    do_vgrad(vector_cmap_t x, vector_map_t gx) const override
    {
        const auto f = m_inner->vgrad(x, gx);
        double     d = 0;
        for (tensor_size_t i = 0; i < size(); ++i) d = std::max(d, std::fabs(x(i) - m_center(i)));
        if (d <= m_radius) return f;
        const bool withg = gx.size() == size();
        switch (m_mode)
        {
        case 0: if (withg) gx(0) = std::nan(""); return std::nan("");
        case 1: return HUGE_VAL;
        case 2: if (withg) gx(size() - 1) = HUGE_VAL; return f;       // finite value, infinite sub-gradient
        default: if (withg) for (tensor_size_t i = 0; i < size(); ++i) gx(i) = 0.0; return -HUGE_VAL;
        }
    }
    rfunction_t m_inner;
    vector_t    m_center;
    double      m_radius{1};
    int         m_mode{0};
};

class scaled_t final : public function_t
{
public:
    scaled_t(rfunction_t inner, const double scale)
        : function_t("scaled", inner->size()), m_inner(std::move(inner)), m_scale(scale)
    {
        convex(convexity::no);
        smooth(m_inner->smooth() ? smoothness::yes : smoothness::no);
    }
    scaled_t(const scaled_t& o) : function_t(o), m_inner(o.m_inner->clone()), m_scale(o.m_scale) {}
    rfunction_t clone() const override { return std::make_unique<scaled_t>(*this); }
    scalar_t    do_vgrad(vector_cmap_t x, vector_map_t gx) const override
    {
        const auto f = m_inner->vgrad(x, gx);
        if (gx.size() == size())
            for (tensor_size_t i = 0; i < size(); ++i) gx(i) *= m_scale;
        return f * m_scale;
    }
    rfunction_t m_inner;
    double      m_scale{1};
};

rfunction_t make_fun1d(vh::rng_t& rng)
{
    switch (rng.range(0, 5))
    {
    case 0: // hard wall: NaN at and beyond it
    {
        const auto wall = sym(rng) * 3, m = sym(rng) * 3;
        return std::make_unique<fun1d_t>("wall", [=](double x) { return x < wall ? std::make_pair((x - m) * (x - m), 2 * (x - m)) : std::make_pair(std::nan(""), std::nan("")); });
    }
    case 1: // oscillating
    {
        const auto w = logu(rng, 1e-1, 1e2), q = logu(rng, 1e-3, 1e0);
        return std::make_unique<fun1d_t>("osc", [=](double x) { return std::make_pair(std::sin(w * x) + q * x * x, w * std::cos(w * x) + 2 * q * x); });
    }
    case 2: // exponential (overflows)
    {
        const auto k = logu(rng, 1e-1, 1e2);
        return std::make_unique<fun1d_t>("exp", [=](double x) { return std::make_pair(std::exp(k * x) - x, k * std::exp(k * x) - 1.0); });
    }
    case 3: // steep kink next to the start: no improvement for many passes (value_test = 0 -> `converged` far from the minimum)
    {
        const auto s = logu(rng, 1e1, 1e4), c = sym(rng) * 0.2;
        return std::make_unique<fun1d_t>("kink", [=](double x) { return std::make_pair(s * std::fabs(x - c), x > c ? s : (x < c ? -s : 0.0)); });
    }
    case 4: // plateau: exactly zero sub-gradient on an interval
    {
        const auto a = sym(rng) * 2;
        return std::make_unique<fun1d_t>("plateau", [=](double x) { const auto d = std::fabs(x - a) - 1.0; return d > 0 ? std::make_pair(d * d, 2 * d * (x > a ? 1.0 : -1.0)) : std::make_pair(0.0, 0.0); });
    }
    default: // log barrier
    {
        const auto wall = sym(rng) * 3, c = logu(rng, 1e-3, 1e1);
        return std::make_unique<fun1d_t>("barrier", [=](double x) { return std::make_pair(-std::log(wall - x) + 0.5 * c * x * x, 1.0 / (wall - x) + c * x); });
    }
    }
}

// ---- done() events ---------------------------------------------------------------------------------------------------
struct dn_rec_t
{
    bool   iter_ok{false}, conv{false}, ret{false}, valid{false};
    size_t evals{0};
    long   calls{0};
    double fx{0};
};
std::vector<dn_rec_t> g_dns;
const recorder_t*     g_rec = nullptr;

void on_event(const int kind, const void* object, const std::uint64_t a, const std::uint64_t b)
{
    const auto* st = static_cast<const solver_state_t*>(object);
    if (kind == verif::ev_solver_done)
    {
        dn_rec_t e;
        e.iter_ok = a != 0;
        e.conv    = b != 0;
        e.evals   = g_rec ? g_rec->m_log.size() : 0;
        e.calls   = g_rec ? static_cast<long>(g_rec->fcalls() + g_rec->gcalls()) : 0;
        e.fx      = st->fx();
        e.valid   = st->valid();
        g_dns.push_back(e);
    }
    else if (kind == verif::ev_solver_exit && !g_dns.empty()) { g_dns.back().ret = a != 0; }
}

long g_fails = 0;
void fail(const long id, const std::string& what)
{
    ++g_fails;
    std::printf("FAIL %ld %s\n", id, what.c_str());
}

const char* const SOLVERS[] = {"ellipsoid", "osga", "pgm", "dgm", "fgm", "asga2", "asga4"};

// ev_ellipsoid_update: n, f(x), best f, gHg, x before[n], g[n], H before[n*n], x after[n], H after[n*n]
struct el_rec_t
{
    std::vector<double> v;
};
std::vector<el_rec_t> g_els;
void on_values(const int kind, const void*, const double* values, const int count)
{
    if (kind == verif::ev_ellipsoid_update)
    {
        el_rec_t e;
        e.v.assign(values, values + count);
        g_els.push_back(std::move(e));
    }
}
std::string hs(const double* p, const size_t n)
{
    std::string s;
    for (size_t i = 0; i < n; ++i)
    {
        if (i) s += ",";
        s += vh::hexf(p[i]);
    }
    return s.empty() ? "-" : s;
}
long                       g_evals = 0;
std::map<std::string, long> g_hist;

long double norm2l(const vector_t& v)
{
    long double s = 0;
    for (tensor_size_t i = 0; i < v.size(); ++i) s += static_cast<long double>(v(i)) * static_cast<long double>(v(i));
    return sqrtl(s);
}
double maxabs(const vector_t& v)
{
    double m = 0;
    for (tensor_size_t i = 0; i < v.size(); ++i) m = std::max(m, std::fabs(v(i)));
    return m;
}
double dist2(const vector_t& a, const vector_t& b)
{
    long double s = 0;
    for (tensor_size_t i = 0; i < a.size(); ++i) { const long double d = static_cast<long double>(a(i)) - b(i); s += d * d; }
    return static_cast<double>(sqrtl(s));
}

long double dotl(const vector_t& a, const vector_t& b)
{
    long double s = 0;
    for (tensor_size_t i = 0; i < a.size(); ++i) s += static_cast<long double>(a(i)) * static_cast<long double>(b(i));
    return s;
}

// the per-pass evaluation bound B of each body (fcalls + gcalls), from the configured parameters: what C02_bodies2_budget proves
long pass_bound(const int body, const long lsmax)
{
    switch (body)
    {
    case 0: return 2;
    case 1: return 3;
    case 2: return 2 * lsmax;
    case 3: return 3 * lsmax;
    default: return 4 * lsmax;
    }
}

void run_case(const uint64_t seed, const long id, const std::vector<std::string>& fids, const bool thorough)
{
    vh::rng_t rng(seed * 1000003ULL + static_cast<uint64_t>(id) * 7919ULL + 0xC02C);
    rng.next();
    const int body = static_cast<int>(id % 7);

    // ---- objective ---------------------------------------------------------------------------------------------------
    static const tensor_size_t DIMS[] = {1, 2, 2, 3, 4, 4, 8, 16};
    auto                       n      = DIMS[rng.range(0, thorough ? 7 : 6)];
    if (body == 0 && rng.range(0, 3) == 0) n = 1; // the bisection branch of the ellipsoid method
    rfunction_t                fn;
    std::string                fname;
    const auto                 fk = rng.range(0, 13);
    if (fk <= 4)
    {
        const auto& fid = fids[static_cast<size_t>(rng.range(0, static_cast<int64_t>(fids.size()) - 1))];
        fn              = function_t::all().get(fid)->make(n, rng.range(10, 20));
    }
    else if (fk <= 8) { fn = std::make_unique<quad_t>(rng, n, logu(rng, 1, 1e3), logu(rng, 1e-2, 1e2)); }
    else if (fk <= 10) { fn = std::make_unique<pwl_t>(rng, n, static_cast<int>(rng.range(2, 9))); }
    else if (fk == 11)
    {
        vector_t c(n);
        for (tensor_size_t i = 0; i < n; ++i) c(i) = std::ldexp(static_cast<double>(rng.range(-8, 8)), -2);
        fn = std::make_unique<l1_t>(c, rng.range(0, 3) == 0 ? std::numeric_limits<double>::epsilon() : logu(rng, 1e-2, 1e3));
    }
    else { fn = make_fun1d(rng); }
    if (!fn) return;
    n     = fn->size();
    fname = fn->type_id();

    const auto radius = logu(rng, 1e-3, 10.0);
    vector_t   x0(n);
    for (tensor_size_t i = 0; i < n; ++i) x0(i) = sym(rng) * radius;
    const auto xk = rng.range(0, 11);
    if (xk == 0)
        for (tensor_size_t i = 0; i < n; ++i) x0(i) = 0.0; // often the exact minimiser: zero sub-gradient at the start
    if (xk == 1)
        for (tensor_size_t i = 0; i < n; ++i) x0(i) = std::ldexp(static_cast<double>(rng.range(-8, 8)), -2);
    if (xk == 2)
        for (tensor_size_t i = 0; i < n; ++i) x0(i) = 1.0;

    const auto wrapk = rng.range(0, 13);
    if (wrapk <= 2)
    {
        fn    = std::make_unique<region_t>(std::move(fn), x0, logu(rng, 1e-3, 3.0) * (1.0 + radius), static_cast<int>(rng.range(0, 3)));
        fname = "region[" + fname + "]";
    }
    else if (wrapk == 3)
    {
        fn    = std::make_unique<scaled_t>(std::move(fn), logu(rng, 1e-220, 1e-150));
        fname = "tiny[" + fname + "]";
    }
    else if (wrapk == 4)
    {
        fn    = std::make_unique<scaled_t>(std::move(fn), logu(rng, 1e100, 1e300));
        fname = "huge[" + fname + "]";
    }
    const double sc = rng.range(0, 4) == 0 ? logu(rng, 1e-3, 1e1) : -1.0; // osga / asga read it (the value is only a parameter of the body)
    vector_t g0(n);
    const auto f0 = fn->vgrad(x0, g0);
    if (!std::isfinite(f0)) return; // outside the property's domain

    // ---- configuration (parameters at the ends of their registered domains too) --------------------------------------------
    double eps = 1e-8;
    switch (rng.range(0, 7))
    {
    case 0: eps = 1e-1; break;
    case 1: eps = logu(rng, 1e-3, 1e-1); break;
    case 2: eps = logu(rng, 1e-300, 1e-100); break;
    default: eps = logu(rng, 1e-10, 1e-3); break;
    }
    long maxev = 100;
    switch (rng.range(0, 7))
    {
    case 0: maxev = rng.range(10, 14); break;
    case 1: maxev = rng.range(10, 40); break;
    case 2: case 3: maxev = rng.range(40, 160); break;
    default: maxev = static_cast<long>(logu(rng, 20, thorough ? 2000 : 400)); break;
    }
    long patience = 10;
    switch (rng.range(0, 3))
    {
    case 0: patience = 10; break;
    case 1: patience = rng.range(10, 12); break;
    case 2: patience = rng.range(10, 40); break;
    default: patience = rng.range(0, 1) ? 1000 : 1000000; break;
    }
    auto solver = solver_t::all().get(SOLVERS[body]);
    if (!solver) return;
    solver->parameter("solver::epsilon")   = eps;
    long   lsmax = 0;
    double p1 = 0, p2 = 0, p3 = 0, p4 = 0;
    const auto pk = rng.range(0, 5);
    if (body == 0)
    {
        p1 = pk == 0 ? 1e160 : (pk == 1 ? 1e-300 : (pk == 2 ? 10.0 : logu(rng, 1e-3, 1e3)));
        solver->parameter("solver::ellipsoid::R") = p1;
    }
    else if (body == 1)
    {
        p1 = pk == 0 ? 0.9 : 0.01 + 0.98 * rng.unit();
        p2 = pk <= 1 ? 0.7 : 0.01 + 0.98 * rng.unit();
        p3 = pk <= 2 ? 0.1 : logu(rng, 1e-3, 10.0);
        p4 = pk <= 2 ? 1.1 : p3 * logu(rng, 1.0, rng.range(0, 3) == 0 ? 1e4 : 20.0); // exp(-kappa) down to an exact 0
        solver->parameter("solver::osga::lambda")    = p1;
        solver->parameter("solver::osga::alpha_max") = p2;
        solver->parameter("solver::osga::kappas")    = std::make_tuple(p3, p4);
        solver->parameter("solver::osga::patience")  = static_cast<int64_t>(patience);
    }
    else if (body <= 4)
    {
        p1    = pk == 0 ? 1.0 : (pk == 1 ? 1e-300 : (pk == 2 ? 1e300 : logu(rng, 1e-12, 1e4)));
        lsmax = rng.range(0, 2) == 0 ? 10 : (rng.range(0, 1) ? 100 : rng.range(10, 100));
        // the OTHER integer parameters get values that differ from the cap (a swapped parameter shows)
        if (patience == lsmax) patience += 1;
        solver->parameter("solver::universal::L0")                = p1;
        solver->parameter("solver::universal::lsearch_max_iters") = static_cast<int64_t>(lsmax);
        solver->parameter("solver::universal::patience")          = static_cast<int64_t>(patience);
    }
    else
    {
        p1    = pk == 0 ? 1.0 : (pk == 1 ? 1e-300 : (pk == 2 ? 1e300 : logu(rng, 1e-12, 1e4)));
        p2    = pk <= 1 ? 4.0 : 1.0 + logu(rng, 1e-3, 1e2);
        p3    = pk <= 1 ? 0.9 : 0.01 + 0.98 * rng.unit();
        lsmax = rng.range(0, 2) == 0 ? 10 : (rng.range(0, 1) ? 100 : rng.range(10, 40));
        if (patience == lsmax) patience += 1;
        solver->parameter("solver::asga::L0")                = p1;
        solver->parameter("solver::asga::gamma1")            = p2;
        solver->parameter("solver::asga::gamma2")            = p3;
        solver->parameter("solver::asga::lsearch_max_iters") = static_cast<int64_t>(lsmax);
        solver->parameter("solver::asga::patience")          = static_cast<int64_t>(patience);
    }
    if (maxev == lsmax) maxev += 1;
    solver->parameter("solver::max_evals") = maxev;

    // ---- run the real thing -------------------------------------------------------------------------------------------
    const auto rec = recorder_t{*fn, sc};
    g_rec          = &rec;
    g_dns.clear();
    g_els.clear();
    const auto state = solver->minimize(rec, x0, make_null_logger());
    g_rec            = nullptr;
    const auto& log  = rec.m_log;
    g_evals += static_cast<long>(log.size());

    // ---- print ----------------------------------------------------------------------------------------------------------
    std::printf("CRUN %ld %s %d %s %ld | %s %ld %ld %ld %s %s %s %s %s %s | %s\n", id, SOLVERS[body], body, fname.c_str(), static_cast<long>(n),
                vh::hexf(eps).c_str(), maxev, patience, lsmax, vh::hexf(rec.strong_convexity()).c_str(), vh::hexf(epsilon0<scalar_t>()).c_str(),
                vh::hexf(p1).c_str(), vh::hexf(p2).c_str(), vh::hexf(p3).c_str(), vh::hexf(p4).c_str(), hv(x0).c_str());
    for (size_t k = 0; k < log.size(); ++k)
    {
        const auto& e = log[k];
        std::printf("CEV %ld %zu %d %s | %s | %s\n", id, k, e.withg ? 1 : 0, vh::hexf(e.f).c_str(), hv(e.x).c_str(), e.withg ? hv(e.g).c_str() : "-");
    }
    const auto un = static_cast<size_t>(n);
    for (size_t j = 0; j < g_els.size(); ++j)
    {
        const auto& v = g_els[j].v;
        if (v.size() != 4 + 3 * un + 2 * un * un || static_cast<size_t>(v[0]) != un)
        {
            fail(id, "ellipsoid-event-malformed");
            continue;
        }
        const auto* p = v.data() + 4;
        std::printf("CEL %ld %zu %s %s %s | %s | %s | %s | %s | %s\n", id, j, vh::hexf(v[1]).c_str(), vh::hexf(v[2]).c_str(), vh::hexf(v[3]).c_str(),
                    hs(p, un).c_str(), hs(p + un, un).c_str(), hs(p + 2 * un, un * un).c_str(), hs(p + 2 * un + un * un, un).c_str(),
                    hs(p + 3 * un + un * un, un * un).c_str());
    }
    for (size_t j = 0; j < g_dns.size(); ++j)
    {
        const auto& e = g_dns[j];
        std::printf("CDN %ld %zu %d %d %d %zu %ld %s %d\n", id, j, e.iter_ok ? 1 : 0, e.conv ? 1 : 0, e.ret ? 1 : 0, e.evals, e.calls,
                    vh::hexf(e.fx).c_str(), e.valid ? 1 : 0);
    }
    const auto vtest = state.value_test(static_cast<tensor_size_t>(patience));
    std::printf("CRET %ld %d %ld %ld %ld %ld %s %s | %s | %s\n", id, static_cast<int>(state.status()), static_cast<long>(state.fcalls()),
                static_cast<long>(state.gcalls()), static_cast<long>(rec.fcalls()), static_cast<long>(rec.gcalls()), vh::hexf(vtest).c_str(),
                vh::hexf(state.fx()).c_str(), hv(state.x()).c_str(), hv(state.gx()).c_str());

    // ---- the property's own oracle (independent of the model) ----------------------------------------------------------
    const auto status = static_cast<int>(state.status()); // 0 max_iters, 1 converged, 2 failed
    long       nf = 0, ng = 0;
    for (const auto& e : log) { nf += 1; ng += e.withg ? 1 : 0; }
    const auto ne   = static_cast<long>(log.size());
    const auto B    = pass_bound(body, lsmax);
    const auto* last = g_dns.empty() ? nullptr : &g_dns.back();
    // an early test (zero exit): a done() call with no evaluation since the previous one (or since the construction)
    const bool zero_exit = last && last->evals == (g_dns.size() >= 2 ? g_dns[g_dns.size() - 2].evals : 1);
    // (1) termination within the budget; the per-pass bound
    if (nf + ng > std::max<long>(2, maxev - 1 + B)) fail(id, "budget-overshoot evaluations=" + std::to_string(nf + ng) + " max_evals=" + std::to_string(maxev) + " B=" + std::to_string(B));
    if (nf + ng > maxev + 1100 + 8 * static_cast<long>(n) && lsmax <= 100)
        fail(id, "budget-overshoot-property-constant evaluations=" + std::to_string(nf + ng));
    {
        long prev = 2;
        for (size_t j = 0; j < g_dns.size(); ++j)
        {
            const auto cost = g_dns[j].calls - prev;
            if (cost > B) fail(id, "pass-exceeds-its-evaluation-bound done=" + std::to_string(j) + " cost=" + std::to_string(cost) + " B=" + std::to_string(B));
            if (cost < 0) fail(id, "evaluation-counter-decreases");
            if (j + 1 < g_dns.size() && g_dns[j].ret) fail(id, "loop-continues-after-done-returned-true");
            if (j + 1 < g_dns.size() && cost == 0) fail(id, "pass-without-evaluation-goes-on done=" + std::to_string(j));
            if (prev >= maxev) fail(id, "pass-entered-beyond-the-budget done=" + std::to_string(j) + " calls=" + std::to_string(prev));
            prev = g_dns[j].calls;
        }
        if (prev != nf + ng) fail(id, "evaluation-after-the-last-done-call");
    }
    const bool pre_return = g_dns.empty() && ne == 1 && body >= 5;
    if (last && !last->ret && nf + ng < maxev) fail(id, "loop-left-below-the-budget-without-done");
    if (!last && nf + ng < maxev && !pre_return) fail(id, "loop-left-below-the-budget-without-done");
    if (state.fcalls() > nf || state.gcalls() > ng) fail(id, "reported-calls-exceed-actual");
    if (rec.fcalls() != nf || rec.gcalls() != ng) fail(id, "function-counters-differ-from-actual");
    // (2) the returned (x, fx[, gx]) is a recorded evaluation; not worse than the start; finite unless failed
    {
        long hit = -1, best = 0;
        for (long k = 0; k < ne; ++k)
        {
            const bool same_g = body == 1 ? true : (log[k].withg && same_bits(log[k].g, state.gx()));
            if (hit < 0 && same_bits(log[k].x, state.x()) && same_bits(log[k].f, state.fx()) && same_g) hit = k;
            if (std::isfinite(log[k].f) && log[k].f < log[best].f) best = k;
        }
        if (hit < 0) fail(id, "returned-triple-not-evaluated");
        if (!(state.fx() <= f0)) fail(id, "worse-than-start f=" + vh::hexf(state.fx()) + " f0=" + vh::hexf(f0));
        // ellipsoid hands every evaluation to update_if_better: the returned state is the first of the strictly smallest values
        if (body == 0 && (!same_bits(state.fx(), log[best].f) || !same_bits(state.x(), log[best].x)))
            fail(id, "returned-state-is-not-the-best-evaluation f=" + vh::hexf(state.fx()) + " best=" + vh::hexf(log[best].f) + " at evaluation " + std::to_string(best));
        if (status != 2 && !(std::isfinite(state.fx()) && allfin(state.x()))) fail(id, "non-finite-result-without-failed-status");
        if (status != 2 && last && !state.valid()) fail(id, "invalid-state-without-failed-status");
    }
    // (3) status facts
    {
        if (status < 0 || status > 2) fail(id, "status-not-in-{max_iters,converged,failed}");
        if (status == 1 && (!last || !last->ret || !last->iter_ok || !last->conv)) fail(id, "converged-without-a-done-call-with-both-flags");
        if (status == 2 && last && last->iter_ok && last->valid) fail(id, "failed-without-cause");
        if (status == 2 && !last) fail(id, "failed-without-done-call");
        if (status == 0 && last && last->ret) fail(id, "max-iters-after-done-returned-true");
        if (zero_exit && body >= 2) fail(id, "early-exit-in-a-body-that-has-none");
        if (pre_return && !(state.gradient_test() < std::numeric_limits<double>::epsilon())) fail(id, "asga-returns-before-the-loop-with-a-large-gradient");
        if (body >= 5 && !pre_return && maxabs(g0) / std::max(1.0, std::fabs(f0)) < std::numeric_limits<double>::epsilon() && allfin(g0))
            fail(id, "asga-enters-the-loop-with-a-zero-gradient");
    }
    // (4) per body: what `converged` / iter_ok mean
    if (body == 0)
    {
        // one ev_ellipsoid_update event per evaluation after the first; flags of the done() call that follows the j-th event
        if (static_cast<long>(g_els.size()) != ne - 1) fail(id, "ellipsoid-events-differ-from-evaluations events=" + std::to_string(g_els.size()));
        size_t j = 0;
        for (size_t d = 0; d < g_dns.size() && j < g_els.size(); ++d)
        {
            if (d + 1 == g_dns.size() && zero_exit) break;
            const auto& v = g_els[j].v;
            if (v.size() < 4) break;
            const auto gHg = v[3];
            const auto f   = log[j + 1].f;
            if (g_dns[d].iter_ok != std::isfinite(f)) fail(id, "iter-ok-differs-from-isfinite done=" + std::to_string(d));
            if (g_dns[d].conv != (std::sqrt(gHg) < eps)) fail(id, "converged-flag-differs-from-sqrt-gHg-below-epsilon done=" + std::to_string(d) + " gHg=" + vh::hexf(gHg));
            if (gHg < std::numeric_limits<double>::epsilon()) fail(id, "update-executed-with-gHg-below-machine-epsilon gHg=" + vh::hexf(gHg));
            // the centre handed to the function is the updated centre of the event
            if (v.size() == 4 + 3 * un + 2 * un * un)
            {
                bool same = true;
                for (size_t i = 0; i < un; ++i) same = same && same_bits(v[4 + 2 * un + un * un + i], log[j + 1].x(static_cast<tensor_size_t>(i)));
                if (!same) fail(id, "evaluation-not-at-the-updated-centre event=" + std::to_string(j));
                // f, best f of the event: the previous evaluation and the best value so far
                if (!same_bits(v[1], log[j].f)) fail(id, "event-value-differs-from-the-previous-evaluation event=" + std::to_string(j));
            }
            ++j;
        }
        if (zero_exit && n > 1)
        {
            // the exit must be justified: g'Hg recomputed (long double) from the last centre's sub-gradient and the last shape matrix
            const auto& gl = log.back().g;
            std::vector<long double> H(un * un, 0.0L);
            if (g_els.empty())
                for (size_t i = 0; i < un; ++i) H[i * un + i] = static_cast<long double>(p1) * p1;
            else
                for (size_t i = 0; i < un * un; ++i) H[i] = g_els.back().v[4 + 3 * un + un * un + i];
            long double q = 0;
            for (size_t i = 0; i < un; ++i)
                for (size_t l = 0; l < un; ++l) q += static_cast<long double>(gl(static_cast<tensor_size_t>(i))) * H[i * un + l] * gl(static_cast<tensor_size_t>(l));
            if (std::isfinite(static_cast<double>(q)) && allfin(gl) && q > 4.0L * std::numeric_limits<double>::epsilon() && q > 1e-6L * std::fabs(static_cast<double>(dotl(gl, gl))) * std::fabs(static_cast<double>(H[0])))
                fail(id, "early-exit-taken-with-gHg=" + vh::hexf(static_cast<double>(q)));
        }
    }
    if (body >= 2 && last && !zero_exit)
    {
        // universal / asga: converged only with iter_ok, and then exactly value_test < epsilon
        if (last->conv && !last->iter_ok && body <= 4) fail(id, "converged-flag-without-accepted-step");
        if (last->iter_ok && last->conv != (vtest < eps)) fail(id, "converged-flag-differs-from-value-test value_test=" + vh::hexf(vtest) + " eps=" + vh::hexf(eps));
        if (body >= 5 && last->conv != (vtest < eps)) fail(id, "converged-flag-differs-from-value-test value_test=" + vh::hexf(vtest) + " eps=" + vh::hexf(eps));
        // iter_ok = the descent test was passed: the last evaluated value(s) of the pass are finite
        // (dgm's value-only probe may be -inf: `f(yk) <= ..` holds; the candidate is the last evaluation WITH a sub-gradient)
        {
            long c = ne - 1;
            while (c > 0 && !log[c].withg) --c;
            if (last->iter_ok && !std::isfinite(log[c].f)) fail(id, "accepted-step-with-a-non-finite-value");
        }
        for (size_t d = 0; d + 1 < g_dns.size(); ++d)
            if (!g_dns[d].iter_ok) fail(id, "loop-goes-on-after-a-failed-inner-search done=" + std::to_string(d));
    }
    if (status == 1 && !zero_exit && state.valid() && maxabs(state.gx()) > 1e-2 * std::max(1.0, std::fabs(state.fx())) && body != 1)
        g_hist["converged_with_large_gradient"] += 1;
    g_hist[std::string("status=") + std::to_string(status)] += 1;
    g_hist[std::string("body=") + SOLVERS[body]] += 1;
    if (zero_exit) g_hist["early_exit"] += 1;
    if (pre_return) g_hist["asga_return_before_the_loop"] += 1;
    if (last && !last->iter_ok) g_hist["last_iter_ok_false"] += 1;
    if (last && !last->ret) g_hist["budget_exit"] += 1;
    if (!last) g_hist["no_done_call"] += 1;
    {
        long prev = 2, worst = 0;
        for (const auto& e : g_dns) { worst = std::max(worst, e.calls - prev); prev = e.calls; }
        if (body >= 2 && worst == B) g_hist["inner_cap_exhausted"] += 1;
        if (body >= 2 && worst > (body == 2 ? 2 : (body == 3 ? 3 : 4))) g_hist["inner_loop_backtracked"] += 1;
    }
    std::printf("CEND %ld\n", id);
}

// ties the driver's summation order (Eigen 3.4, SSE2 packets of two doubles) to the real library: the same expressions the bodies use
void print_dots(const uint64_t seed)
{
    vh::rng_t rng(seed * 77ULL + 0xD07);
    rng.next();
    for (tensor_size_t n = 1; n <= 19; ++n)
        for (int rep = 0; rep < 3; ++rep)
        {
            vector_t a(n), b(n);
            for (tensor_size_t i = 0; i < n; ++i)
            {
                a(i) = sym(rng) * std::exp(6.0 * sym(rng));
                b(i) = sym(rng) * std::exp(6.0 * sym(rng));
            }
            const double d1 = a.dot(b);
            const double d2 = (a - b).dot(a - b);
            const double d3 = (a - b).squaredNorm();
            const double d4 = a.lpNorm<2>();
            std::printf("DOT %ld | %s | %s | %s %s %s %s\n", static_cast<long>(n), hv(a).c_str(), hv(b).c_str(), vh::hexf(d1).c_str(), vh::hexf(d2).c_str(),
                        vh::hexf(d3).c_str(), vh::hexf(d4).c_str());
        }
}
} // namespace

int main(int argc, char** argv)
{
    std::setvbuf(stdout, nullptr, _IOLBF, 0);
    const std::string tier     = argc > 1 ? argv[1] : "quick";
    const long        only     = argc > 2 ? std::atol(argv[2]) : -1;
    const bool        thorough = tier == "thorough";
    const auto        seed     = vh::env_seed();
    verif::g_event_hook.store(&on_event);
    verif::g_values_hook.store(&on_values);

    std::vector<std::string> fids;
    for (const auto& fid : function_t::all().ids())
    {
        const auto f = function_t::all().get(fid)->make(2, 10);
        if (f) fids.push_back(fid);
    }
    print_dots(seed);
    const long cases = thorough ? 21000 : 1050;
    long       runs  = 0;
    for (long id = 0; id < cases; ++id)
    {
        if (only >= 0 && id != only) continue;
        run_case(seed, id, fids, thorough);
        ++runs;
    }
    std::string h;
    for (const auto& kv : g_hist) h += " " + kv.first + "=" + std::to_string(kv.second);
    std::printf("CHIST%s\n", h.c_str());
    std::printf("DONE runs=%ld evals=%ld fails=%ld functions=%zu\n", runs, g_evals, g_fails, fids.size());
    return 0;
}
