// C16 harness: enumerates shapes, index tuples, prefixes, slices, reshapes, gathers and summed-area
// tables on the real tensor classes (ASan+UBSan build) and prints, per operation, the arguments and
// what the implementation computed. The extracted Coq model recomputes every line.
// Usage: c16_tensor <mode> ; mode = quick | thorough ; seed from VERIF_SEED.
#include "common.h"
#include <nano/tensor/integral.h>
#include <nano/tensor/tensor.h>
#include <array>
#include <functional>
#include <tuple>
#include <utility>
#include <type_traits>

using namespace nano;
using vh::join;

static long g_fail = 0;
static long g_lines = 0;

#define FAIL(...)                                                                                                      \
    do {                                                                                                               \
        std::printf("FAIL ");                                                                                          \
        std::printf(__VA_ARGS__);                                                                                      \
        std::printf("\n");                                                                                             \
        ++g_fail;                                                                                                      \
    } while (0)

template <size_t N>
std::string ds(const std::array<tensor_size_t, N>& a)
{
    return join(a.begin(), a.end());
}
static std::string ds(const std::vector<tensor_size_t>& a) { return join(a.begin(), a.end()); }

template <class F, class A, size_t... I>
decltype(auto) call_idx(F&& f, const A& a, std::index_sequence<I...>)
{
    return f(a[I]...);
}

// enumerate all index tuples of the first P dimensions
template <size_t R, size_t P, class F>
void for_prefixes(const std::array<tensor_size_t, R>& dims, F&& f)
{
    std::array<tensor_size_t, P> idx{};
    if constexpr (P == 0)
    {
        f(idx);
    }
    else
    {
        for (size_t k = 0; k < P; ++k)
            if (dims[k] <= 0) return;
        for (;;)
        {
            f(idx);
            size_t k = P;
            while (k > 0)
            {
                --k;
                if (++idx[k] < dims[k]) break;
                idx[k] = 0;
                if (k == 0) return;
            }
        }
    }
}

template <class tscalar, size_t R>
struct shape_checker
{
    using tensor = tensor_mem_t<tscalar, R>;
    tensor                          t;
    std::array<tensor_size_t, R>    dims;
    explicit shape_checker(const std::array<tensor_size_t, R>& d) : t(d), dims(d)
    {
        for (tensor_size_t i = 0; i < t.size(); ++i) t(i) = static_cast<tscalar>(i % 120);
    }

    static tscalar val(tensor_size_t flat) { return static_cast<tscalar>(flat % 120); }

    void size_line()
    {
        std::printf("SIZE %s = %" PRId64 "\n", ds(dims).c_str(), static_cast<int64_t>(t.size()));
        ++g_lines;
    }

    void full_indices()
    {
        const tensor& ct = t;
        for_prefixes<R, R>(dims, [&](const std::array<tensor_size_t, R>& idx) {
            const auto off  = call_idx([&](auto... i) { return t.offset(i...); }, idx, std::make_index_sequence<R>{});
            const auto ptr  = &call_idx([&](auto... i) -> const tscalar& { return ct(i...); }, idx, std::make_index_sequence<R>{});
            const auto poff = static_cast<tensor_size_t>(ptr - ct.data());
            std::printf("OFF %s | %s = %" PRId64 "\n", ds(dims).c_str(), ds(idx).c_str(), static_cast<int64_t>(off));
            ++g_lines;
            if (poff != off) FAIL("element pointer %s | %s: ptr-offset %ld != offset %ld", ds(dims).c_str(), ds(idx).c_str(), (long)poff, (long)off);
            if (off < 0 || off >= t.size()) FAIL("offset out of range %s | %s -> %ld", ds(dims).c_str(), ds(idx).c_str(), (long)off);
            else if (*ptr != val(off)) FAIL("element value %s | %s", ds(dims).c_str(), ds(idx).c_str());
        });
    }

    // sub-views for every prefix length P < R
    template <size_t P>
    void prefixes()
    {
        const tensor& ct = t;
        for_prefixes<R, P>(dims, [&](const std::array<tensor_size_t, P>& p) {
            const auto seq = std::make_index_sequence<P>{};
            const auto o0  = call_idx([&](auto... i) { return ct.offset0(i...); }, p, seq);
            std::printf("OFF0 %s | %s = %" PRId64 "\n", ds(dims).c_str(), ds(p).c_str(), static_cast<int64_t>(o0));
            const auto sub = call_idx([&](auto... i) { return ct.tensor(i...); }, p, seq);
            std::printf("TENSOR %s | %s = %" PRId64 " ; %s\n", ds(dims).c_str(), ds(p).c_str(),
                        static_cast<int64_t>(sub.data() - ct.data()), ds(sub.dims()).c_str());
            const auto vec = call_idx([&](auto... i) { return ct.vector(i...); }, p, seq);
            std::printf("VECTOR %s | %s = %" PRId64 " ; %" PRId64 "\n", ds(dims).c_str(), ds(p).c_str(),
                        static_cast<int64_t>(vec.data() - ct.data()), static_cast<int64_t>(vec.size()));
            g_lines += 3;
            {
                tensor_size_t tail = 1;
                for (size_t k = P; k < R; ++k) tail *= dims[k];
                bool same = true;
                for (size_t k = P; k < R; ++k) same = same && sub.dims()[k - P] == dims[k];
                if (!same) FAIL("sub-tensor dims %s | %s -> %s", ds(dims).c_str(), ds(p).c_str(), ds(sub.dims()).c_str());
                if (vec.size() != tail) FAIL("vector view size %s | %s -> %ld", ds(dims).c_str(), ds(p).c_str(), (long)vec.size());
                if (vec.data() != sub.data()) FAIL("vector/tensor view base differ %s | %s", ds(dims).c_str(), ds(p).c_str());
            }
            // read every element through the views (ASan checks the accesses) and compare with full indexing
            for (tensor_size_t k = 0; k < vec.size(); ++k)
            {
                const auto flat = (vec.data() - ct.data()) + k;
                if (flat < 0 || flat >= ct.size()) { FAIL("vector view out of parent %s | %s", ds(dims).c_str(), ds(p).c_str()); break; }
                if (vec(k) != val(flat)) FAIL("vector view value %s | %s [%ld]", ds(dims).c_str(), ds(p).c_str(), (long)k);
            }
            for_prefixes<R - P, R - P>(sub.dims(), [&](const std::array<tensor_size_t, R - P>& r) {
                std::array<tensor_size_t, R> full{};
                for (size_t k = 0; k < P; ++k) full[k] = p[k];
                for (size_t k = 0; k < R - P; ++k) full[P + k] = r[k];
                const tscalar& a = call_idx([&](auto... i) -> const tscalar& { return sub(i...); }, r, std::make_index_sequence<R - P>{});
                const tscalar& b = call_idx([&](auto... i) -> const tscalar& { return ct(i...); }, full, std::make_index_sequence<R>{});
                if (&a != &b) FAIL("sub-tensor aliasing %s | %s + %s", ds(dims).c_str(), ds(p).c_str(), ds(r).c_str());
            });
            if constexpr (R >= 2 && P == R - 2)
            {
                const auto mat = call_idx([&](auto... i) { return ct.matrix(i...); }, p, seq);
                std::printf("MATRIX %s | %s = %" PRId64 " ; %" PRId64 " ; %" PRId64 "\n", ds(dims).c_str(), ds(p).c_str(),
                            static_cast<int64_t>(mat.data() - ct.data()), static_cast<int64_t>(mat.rows()),
                            static_cast<int64_t>(mat.cols()));
                ++g_lines;
                for (tensor_size_t i = 0; i < mat.rows(); ++i)
                    for (tensor_size_t j = 0; j < mat.cols(); ++j)
                    {
                        std::array<tensor_size_t, R> full{};
                        for (size_t k = 0; k < P; ++k) full[k] = p[k];
                        full[R - 2] = i;
                        full[R - 1] = j;
                        const tscalar& b = call_idx([&](auto... ii) -> const tscalar& { return ct(ii...); }, full, std::make_index_sequence<R>{});
                        if (&mat.coeffRef(i, j) != &b) FAIL("matrix aliasing %s | %s (%ld,%ld)", ds(dims).c_str(), ds(p).c_str(), (long)i, (long)j);
                    }
            }
        });
    }

    template <size_t... P>
    void all_prefixes(std::index_sequence<P...>)
    {
        (prefixes<P>(), ...);
    }

    void slices()
    {
        const tensor& ct = t;
        for (tensor_size_t b = 0; b <= dims[0]; ++b)
            for (tensor_size_t e = b; e <= dims[0]; ++e)
            {
                const auto s = ct.slice(b, e);
                std::printf("SLICE %s | %" PRId64 ",%" PRId64 " = %" PRId64 " ; %s\n", ds(dims).c_str(), (int64_t)b, (int64_t)e,
                            static_cast<int64_t>(s.data() - ct.data()), ds(s.dims()).c_str());
                ++g_lines;
                {
                    auto want = dims;
                    want[0]   = e - b;
                    if (s.dims() != want) FAIL("slice dims %s [%ld,%ld) -> %s", ds(dims).c_str(), (long)b, (long)e, ds(s.dims()).c_str());
                    if (s.size() > 0 && s.data() != &ct(b * (ct.size() / dims[0]))) FAIL("slice base %s [%ld,%ld)", ds(dims).c_str(), (long)b, (long)e);
                    for (tensor_size_t k = 0; k < s.size(); ++k)
                        if (s(k) != val(b * (ct.size() / dims[0]) + k)) { FAIL("slice content %s [%ld,%ld)", ds(dims).c_str(), (long)b, (long)e); break; }
                }
                for_prefixes<R, R>(s.dims(), [&](const std::array<tensor_size_t, R>& idx) {
                    auto full = idx;
                    full[0] += b;
                    const tscalar& a = call_idx([&](auto... i) -> const tscalar& { return s(i...); }, idx, std::make_index_sequence<R>{});
                    const tscalar& c = call_idx([&](auto... i) -> const tscalar& { return ct(i...); }, full, std::make_index_sequence<R>{});
                    if (&a != &c) FAIL("slice aliasing %s [%ld,%ld) %s", ds(dims).c_str(), (long)b, (long)e, ds(idx).c_str());
                });
            }
    }

    template <size_t Q>
    void reshape_to(const std::array<tensor_size_t, Q>& target)
    {
        const tensor& ct = t;
        const auto r = call_idx([&](auto... s) { return ct.reshape(s...); }, target, std::make_index_sequence<Q>{});
        std::printf("RESHAPE %s | %s = %s\n", ds(dims).c_str(), ds(target).c_str(), ds(r.dims()).c_str());
        ++g_lines;
        for (size_t k = 0; k < Q; ++k)
            if (target[k] != -1 && r.dims()[k] != target[k]) FAIL("reshape alters a given dimension %s -> %s", ds(dims).c_str(), ds(target).c_str());
        if (r.data() != ct.data()) FAIL("reshape does not alias %s -> %s", ds(dims).c_str(), ds(target).c_str());
        if (r.size() != ct.size()) FAIL("reshape changes size %s -> %s", ds(dims).c_str(), ds(target).c_str());
        else
            for (tensor_size_t k = 0; k < r.size(); ++k)
                if (r(k) != val(k)) { FAIL("reshape content %s -> %s", ds(dims).c_str(), ds(target).c_str()); break; }
    }

    // all factorisations of size() into Q factors, plus each with one factor replaced by -1
    template <size_t Q>
    void reshapes()
    {
        const auto total = t.size();
        std::array<tensor_size_t, Q> f{};
        std::function<void(size_t, tensor_size_t)> rec = [&](size_t k, tensor_size_t rem) {
            if (k + 1 == Q)
            {
                f[k] = rem;
                reshape_to<Q>(f);
                for (size_t m = 0; m < Q; ++m)
                {
                    auto g = f;
                    g[m]   = -1;
                    tensor_size_t others = 1;
                    for (size_t n = 0; n < Q; ++n) if (n != m) others *= f[n];
                    if (others > 0) reshape_to<Q>(g); // guard: product of the others > 0 (divides by construction)
                }
                return;
            }
            if (rem == 0)
            {
                for (tensor_size_t v = 0; v <= 3; ++v) { f[k] = v; rec(k + 1, v == 0 ? 1 : 0); }
                return;
            }
            for (tensor_size_t v = 1; v <= rem; ++v)
                if (rem % v == 0) { f[k] = v; rec(k + 1, rem / v); }
        };
        // zero-size tensors: factorisations containing a zero
        if (total == 0)
        {
            std::function<void(size_t, bool)> rz = [&](size_t k, bool haszero) {
                if (k == Q)
                {
                    if (!haszero) return;
                    reshape_to<Q>(f);
                    for (size_t m = 0; m < Q; ++m)
                    {
                        tensor_size_t others = 1;
                        for (size_t n = 0; n < Q; ++n) if (n != m) others *= f[n];
                        if (others > 0) { auto g = f; g[m] = -1; reshape_to<Q>(g); }
                    }
                    return;
                }
                for (tensor_size_t v = 0; v <= 2; ++v) { f[k] = v; rz(k + 1, haszero || v == 0); }
            };
            rz(0, false);
        }
        else
        {
            rec(0, total);
        }
    }

    void gathers(vh::rng_t& rng, int count)
    {
        if (dims[0] <= 0) return;
        const tensor& ct = t;
        for (int c = 0; c < count; ++c)
        {
            const auto n = rng.range(0, 6);
            indices_t  idx(n);
            for (tensor_size_t i = 0; i < n; ++i) idx(i) = rng.range(0, dims[0] - 1);
            const auto g = ct.indexed(idx);
            std::printf("GATHER %s | %s = %s ; %s\n", ds(dims).c_str(), join(idx.begin(), idx.end()).c_str(), ds(g.dims()).c_str(),
                        join(g.begin(), g.end()).c_str());
            ++g_lines;
            // direct check: row i of the gather equals row idx(i) of the source
            const auto row = ct.size() / dims[0];
            for (tensor_size_t i = 0; i < n; ++i)
                for (tensor_size_t k = 0; k < row; ++k)
                    if (g(i * row + k) != ct(idx(i) * row + k)) FAIL("gather row %s idx %ld", ds(dims).c_str(), (long)i);
        }
    }

    void conversions()
    {
        tensor_map_t<tscalar, R>  m(t);
        tensor_cmap_t<tscalar, R> c(t);
        tensor_cmap_t<tscalar, R> c2(m);
        tensor                    copy1(m);
        tensor                    copy2;
        copy2 = c;
        if (m.data() != t.data() || c.data() != t.data() || c2.data() != t.data()) FAIL("mapping storage does not alias %s", ds(dims).c_str());
        if (m.dims() != dims || c.dims() != dims || copy1.dims() != dims || copy2.dims() != dims) FAIL("conversion changes dims %s", ds(dims).c_str());
        if (t.size() > 0 && (copy1.data() == t.data() || copy2.data() == t.data())) FAIL("owning copy aliases %s", ds(dims).c_str());
        for (tensor_size_t k = 0; k < t.size(); ++k)
            if (copy1(k) != t(k) || copy2(k) != t(k) || m(k) != t(k) || c(k) != t(k)) { FAIL("conversion content %s", ds(dims).c_str()); break; }
        // assignment through a mutable map writes the owner
        if (t.size() > 0)
        {
            tensor other(dims);
            for (tensor_size_t k = 0; k < other.size(); ++k) other(k) = static_cast<tscalar>((k * 7 + 3) % 100);
            tensor backup = t;
            m = other;
            for (tensor_size_t k = 0; k < t.size(); ++k) if (t(k) != other(k)) { FAIL("map assignment %s", ds(dims).c_str()); break; }
            t = backup;
        }
        // conversions whose source aliases the destination: an owning tensor assigned from a (constant or mutable)
        // view of its own buffer must end up with exactly the viewed elements (ASan sees a use-after-free otherwise)
        for (tensor_size_t b = 0; b <= dims[0]; ++b)
            for (tensor_size_t e = b; e <= dims[0]; ++e)
            {
                const auto row = dims[0] > 0 ? t.size() / dims[0] : 0;
                {
                    tensor x = t;
                    x        = std::as_const(x).slice(b, e);
                    auto want = dims;
                    want[0]   = e - b;
                    if (x.dims() != want) FAIL("self-aliasing const-view assignment dims %s [%ld,%ld)", ds(dims).c_str(), (long)b, (long)e);
                    else
                        for (tensor_size_t k = 0; k < x.size(); ++k)
                            if (x(k) != val(b * row + k)) { FAIL("self-aliasing const-view assignment content %s [%ld,%ld) at %ld", ds(dims).c_str(), (long)b, (long)e, (long)k); break; }
                }
                {
                    tensor x = t;
                    x        = x.slice(b, e);
                    auto want = dims;
                    want[0]   = e - b;
                    if (x.dims() != want) FAIL("self-aliasing view assignment dims %s [%ld,%ld)", ds(dims).c_str(), (long)b, (long)e);
                    else
                        for (tensor_size_t k = 0; k < x.size(); ++k)
                            if (x(k) != val(b * row + k)) { FAIL("self-aliasing view assignment content %s [%ld,%ld) at %ld", ds(dims).c_str(), (long)b, (long)e, (long)k); break; }
                }
            }
        std::printf("CONV %s = ok\n", ds(dims).c_str());
        ++g_lines;
        storage_scripts();
    }

    // scripts of storage conversions replayed by the model of C16_StorageDefs.v: slot 0 = t, slot 1 = another owning tensor of the
    // same dims holding (7k+3) mod 100, slots 2, 3 are created by the script. Printed: the contents of the slots named after `=`.
    //   O d s = constructor tensor(view)   A d s = owning := view   M d s m = (c)map of   S d s m b e = slice   W d s = map := storage
    static std::string dump(const tscalar* p, tensor_size_t n)
    {
        std::string r = "[";
        for (tensor_size_t k = 0; k < n; ++k) r += (k ? "," : "") + std::to_string(static_cast<long>(p[k]));
        return r + "]";
    }
    void storage_scripts()
    {
        if (t.size() == 0 || t.size() > 200) return;
        const auto row = t.size() / dims[0];
        tensor     other(dims);
        for (tensor_size_t k = 0; k < other.size(); ++k) other(k) = static_cast<tscalar>((k * 7 + 3) % 100);
        for (tensor_size_t b = 0; b <= dims[0]; ++b)
            for (tensor_size_t e = b; e <= dims[0]; ++e)
            {
                for (int mut = 0; mut < 2; ++mut)
                {
                    // x = tensor(map of t); v = (const) slice [b, e) of x; x = v   (the view aliases the destination)
                    tensor x{tensor_cmap_t<tscalar, R>(t)};
                    if (mut) x = x.slice(b, e); else x = std::as_const(x).slice(b, e);
                    std::printf("STO %s | O 2 0;S 3 2 %d %ld %ld;A 2 3 = 0:%s 2:%s\n", ds(dims).c_str(), mut, (long)b, (long)e,
                                dump(t.data(), t.size()).c_str(), dump(x.data(), x.size()).c_str());
                    ++g_lines;
                }
                // y = other; y = const slice [b, e) of t    (no aliasing: source in another buffer)
                {
                    tensor y = other;
                    y        = std::as_const(t).slice(b, e);
                    std::printf("STO %s | O 2 1;S 3 0 0 %ld %ld;A 2 3 = 0:%s 1:%s 2:%s\n", ds(dims).c_str(), (long)b, (long)e,
                                dump(t.data(), t.size()).c_str(), dump(other.data(), other.size()).c_str(), dump(y.data(), y.size()).c_str());
                    ++g_lines;
                }
                // mutable slice [b, e) of a copy of t := the same rows of other (map := owning-backed view of equal size)
                if (e > b)
                {
                    tensor z = t;
                    z.slice(b, e) = std::as_const(other).slice(b, e);
                    std::printf("STO %s | O 2 0;S 3 2 1 %ld %ld;S 4 1 0 %ld %ld;W 3 4 = 1:%s 2:%s\n", ds(dims).c_str(), (long)b, (long)e, (long)b, (long)e,
                                dump(other.data(), other.size()).c_str(), dump(z.data(), z.size()).c_str());
                    ++g_lines;
                    // ... and from a disjoint slice of the SAME tensor (rows [b,e) := rows [b2, b2 + e - b) with b2 >= e)
                    const auto len = e - b;
                    if (e + len <= dims[0])
                    {
                        tensor w = t;
                        w.slice(b, e) = std::as_const(w).slice(e, e + len);
                        std::printf("STO %s | O 2 0;S 3 2 1 %ld %ld;S 4 2 0 %ld %ld;W 3 4 = 2:%s\n", ds(dims).c_str(), (long)b, (long)e, (long)e, (long)(e + len),
                                    dump(w.data(), w.size()).c_str());
                        ++g_lines;
                    }
                }
                (void)row;
            }
    }
};

// the summed-area table with an input scalar NARROWER than the output scalar and values at the limits of the input
// type: a prefix sum along any axis leaves the input type's range, so an accumulation carried out in the input type
// (instead of the output type) shows as a wrong cell (seeded change C16/4: std::partial_sum in the 1-D pass)
template <class tin, class tout, size_t R>
void integral_case_widening(const std::array<tensor_size_t, R>& dims, vh::rng_t& rng, const long long lo, const long long hi)
{
    tensor_mem_t<tin, R>  in(dims);
    tensor_mem_t<tout, R> out(dims);
    for (tensor_size_t i = 0; i < in.size(); ++i)
    {
        const auto pick = rng.range(0, 3);
        const long long v = pick == 0 ? hi : pick == 1 ? lo : static_cast<long long>(rng.range(0, 1000)) * (hi - lo) / 1000 + lo;
        in(i) = static_cast<tin>(v);
    }
    out.zero();
    integral(in, out);
    std::string si, so;
    for (tensor_size_t i = 0; i < in.size(); ++i) { si += (i ? "," : "") + std::to_string(static_cast<long long>(in(i))); }
    for (tensor_size_t i = 0; i < out.size(); ++i) { so += (i ? "," : "") + std::to_string(static_cast<long long>(out(i))); }
    std::printf("INTEGRAL %s | %s = %s\n", ds(dims).c_str(), si.c_str(), so.c_str());
    ++g_lines;
}

template <size_t R>
void integral_case(const std::array<tensor_size_t, R>& dims, vh::rng_t& rng)
{
    tensor_mem_t<int32_t, R> in(dims);
    tensor_mem_t<int64_t, R> out(dims);
    for (tensor_size_t i = 0; i < in.size(); ++i) in(i) = static_cast<int32_t>(rng.range(-9, 9));
    out.zero();
    integral(in, out);
    std::printf("INTEGRAL %s | %s = %s\n", ds(dims).c_str(), join(in.begin(), in.end()).c_str(), join(out.begin(), out.end()).c_str());
    ++g_lines;
    // widening combinations (sums stay exact in the output type: at most a few hundred cells per enumerated shape)
    if (in.size() > 0 && in.size() <= 4096)
    {
        switch (rng.range(0, 5))
        {
        case 0: integral_case_widening<int8_t, int32_t, R>(dims, rng, -128, 127); break;
        case 1: integral_case_widening<uint8_t, uint32_t, R>(dims, rng, 0, 255); break;
        case 2: integral_case_widening<int16_t, int64_t, R>(dims, rng, -32768, 32767); break;
        case 3: integral_case_widening<uint16_t, uint64_t, R>(dims, rng, 0, 65535); break;
        case 4: integral_case_widening<uint8_t, double, R>(dims, rng, 0, 255); break;
        default: integral_case_widening<float, double, R>(dims, rng, -(1LL << 24), 1LL << 24); break;
        }
    }
}

template <class tscalar, size_t R>
void check_shape(const std::array<tensor_size_t, R>& dims, vh::rng_t& rng, bool reshapes)
{
    shape_checker<tscalar, R> c(dims);
    c.size_line();
    c.full_indices();
    c.template all_prefixes(std::make_index_sequence<R>{});
    c.slices();
    if (reshapes)
    {
        c.template reshapes<1>();
        c.template reshapes<2>();
        c.template reshapes<3>();
        if (c.t.size() <= 64) c.template reshapes<4>();
    }
    c.gathers(rng, 2);
    c.conversions();
    integral_case<R>(dims, rng);
}

template <class tscalar, size_t R>
void exhaustive(tensor_size_t maxdim, vh::rng_t& rng)
{
    std::array<tensor_size_t, R> dims{};
    for (;;)
    {
        check_shape<tscalar, R>(dims, rng, true);
        size_t k = R;
        bool   done = false;
        while (k > 0)
        {
            --k;
            if (++dims[k] <= maxdim) break;
            dims[k] = 0;
            if (k == 0) done = true;
        }
        if (done) break;
    }
}

template <class tscalar, size_t R>
void random_large(vh::rng_t& rng, int count, tensor_size_t maxsize)
{
    for (int c = 0; c < count; ++c)
    {
        std::array<tensor_size_t, R> dims{};
        tensor_size_t total = 1;
        for (size_t k = 0; k < R; ++k)
        {
            const auto room = std::max<tensor_size_t>(1, maxsize / total);
            const auto cap  = std::min<tensor_size_t>(room, static_cast<tensor_size_t>(std::pow(static_cast<double>(maxsize), 1.0 / R) * 2));
            dims[k] = rng.range(1, std::max<tensor_size_t>(1, cap));
            total *= dims[k];
        }
        // sampled accesses only (the full enumeration would be too large)
        tensor_mem_t<tscalar, R> t(dims);
        for (tensor_size_t i = 0; i < t.size(); ++i) t(i) = static_cast<tscalar>(i % 120);
        const auto& ct = t;
        std::printf("SIZE %s = %" PRId64 "\n", ds(dims).c_str(), (int64_t)t.size());
        for (int s = 0; s < 40; ++s)
        {
            std::array<tensor_size_t, R> idx{};
            for (size_t k = 0; k < R; ++k) idx[k] = (s == 0) ? dims[k] - 1 : rng.range(0, dims[k] - 1);
            const auto off = call_idx([&](auto... i) { return ct.offset(i...); }, idx, std::make_index_sequence<R>{});
            const auto ptr = &call_idx([&](auto... i) -> const tscalar& { return ct(i...); }, idx, std::make_index_sequence<R>{});
            std::printf("OFF %s | %s = %" PRId64 "\n", ds(dims).c_str(), ds(idx).c_str(), (int64_t)off);
            if (ptr - ct.data() != off || *ptr != static_cast<tscalar>(off % 120)) FAIL("large element %s | %s", ds(dims).c_str(), ds(idx).c_str());
            ++g_lines;
        }
        const auto b = rng.range(0, dims[0]);
        const auto e = rng.range(b, dims[0]);
        const auto sl = ct.slice(b, e);
        std::printf("SLICE %s | %" PRId64 ",%" PRId64 " = %" PRId64 " ; %s\n", ds(dims).c_str(), (int64_t)b, (int64_t)e,
                    static_cast<int64_t>(sl.data() - ct.data()), ds(sl.dims()).c_str());
        for (tensor_size_t k = 0; k < sl.size(); ++k) if (sl(k) != ct(b * (ct.size() / dims[0]) + k)) { FAIL("large slice %s", ds(dims).c_str()); break; }
        const auto r2 = ct.reshape(dims[0], -1);
        std::printf("RESHAPE %s | %" PRId64 ",-1 = %s\n", ds(dims).c_str(), (int64_t)dims[0], ds(r2.dims()).c_str());
        const auto r1 = ct.reshape(-1);
        std::printf("RESHAPE %s | -1 = %s\n", ds(dims).c_str(), ds(r1.dims()).c_str());
        g_lines += 4;
    }
}

int main(int argc, char** argv)
{
    const std::string mode = argc > 1 ? argv[1] : "quick";
    vh::rng_t         rng(vh::env_seed());
    std::setvbuf(stdout, nullptr, _IOLBF, 0); // so that the last operation before a sanitizer abort is visible
    if (mode == "quick")
    {
        exhaustive<int32_t, 1>(4, rng);
        exhaustive<int32_t, 2>(4, rng);
        exhaustive<int32_t, 3>(4, rng);
        exhaustive<int32_t, 4>(2, rng);
        exhaustive<int8_t, 2>(3, rng);
        exhaustive<double, 3>(2, rng);
        check_shape<int32_t, 5>({{2, 3, 2, 2, 3}}, rng, true);
        check_shape<int32_t, 5>({{1, 2, 3, 1, 2}}, rng, true);
        check_shape<int16_t, 5>({{3, 1, 1, 2, 2}}, rng, true);
        random_large<int32_t, 2>(rng, 6, 100000);
        random_large<uint64_t, 3>(rng, 6, 100000);
        random_large<float, 4>(rng, 6, 100000);
    }
    else
    {
        exhaustive<int32_t, 1>(4, rng);
        exhaustive<int32_t, 2>(4, rng);
        exhaustive<int32_t, 3>(4, rng);
        exhaustive<int32_t, 4>(4, rng);
        exhaustive<int32_t, 5>(3, rng);
        exhaustive<int8_t, 3>(4, rng);
        exhaustive<uint8_t, 2>(4, rng);
        exhaustive<int16_t, 2>(4, rng);
        exhaustive<uint16_t, 3>(3, rng);
        exhaustive<uint32_t, 3>(3, rng);
        exhaustive<int64_t, 4>(3, rng);
        exhaustive<uint64_t, 4>(2, rng);
        exhaustive<float, 3>(4, rng);
        exhaustive<double, 4>(3, rng);
        random_large<int32_t, 1>(rng, 20, 100000);
        random_large<int32_t, 2>(rng, 40, 100000);
        random_large<uint64_t, 3>(rng, 40, 100000);
        random_large<float, 4>(rng, 40, 100000);
        random_large<double, 5>(rng, 40, 100000);
    }
    std::printf("DONE lines=%ld fails=%ld\n", g_lines, g_fail);
    return 0;
}
