// C17 harness: drives nano::parallel::pool_t with randomly generated scenarios (several submitting
// threads calling map / chunked map / enqueue, tasks that throw, destruction while idle / busy / with
// queued tasks), with seeded delays injected at every synchronisation point (NANO_VERIF hooks), and prints
// per scenario the configuration, the linearised event trace and what the operators observed.
// The extracted Coq protocol model must accept the trace (ocaml/c17_driver.ml).
// Usage: c17_pool <quick|thorough> [count]; seed from VERIF_SEED.
#include "common.h"
#include <nano/core/parallel.h>
#include <atomic>
#include <chrono>
#include <memory>
#include <mutex>
#include <stdexcept>
#include <thread>
#include <pthread.h>
#include <sys/syscall.h>
#include <unistd.h>

#ifndef NANO_VERIF
#error "this harness needs the NANO_VERIF hooks"
#endif

using namespace nano;
using nano::parallel::pool_t;

namespace
{
struct event_t
{
    int      kind;
    int      actor; // submitter id for submitter events, tnum for worker events
    uint64_t a;
    int64_t  qsize; // lock-protected events: m_tasks.size() read under the (verified) lock, else -1
    int      stop;  // lock-protected events: m_stop read under the lock, else -1
};

constexpr size_t          max_events = 1U << 20;
std::vector<event_t>      g_events(max_events);
std::atomic<size_t>       g_nevents{0};
std::atomic<uint64_t>     g_sched_seed{0};
std::atomic<int>          g_delay_level{0};
thread_local int          tl_sid  = -1;
thread_local uint64_t     tl_rng  = 0;
thread_local bool         tl_init = false;

std::atomic<int> g_unlocked_events{0};
std::atomic<int> g_unlocked_kind{0};
std::atomic<long> g_locked_verified[16];   // per event kind: emitted with the queue mutex held by the emitting thread
std::atomic<long> g_lockfree_inside{0};    // lock-free events that were emitted while the emitting thread held the mutex
bool              g_owner_probe = false;   // the glibc owner field is usable (self-test at start-up)
thread_local long tl_tid = 0;

long my_tid()
{
    if (tl_tid == 0) tl_tid = static_cast<long>(::syscall(SYS_gettid));
    return tl_tid;
}

// who holds the mutex: glibc records the kernel thread id of the owner in the pthread mutex
bool held_by_me(std::mutex& m)
{
    return static_cast<long>(m.native_handle()->__data.__owner) == my_tid();
}

// the events of the model that happen inside a block holding the queue mutex (every access to m_tasks / m_stop)
bool lock_protected(int kind)
{
    return kind == verif::ev_push_one || kind == verif::ev_push_all || kind == verif::ev_worker_pop ||
           kind == verif::ev_worker_exit || kind == verif::ev_stop;
}

// self-test of the two probes (positive and negative control); returns false if a probe cannot be trusted here
bool probe_selftest()
{
    std::mutex m;
    bool       ok = true;
    if (!m.try_lock()) ok = false; // free mutex: try_lock must succeed
    else
    {
        if (m.try_lock()) { ok = false; m.unlock(); } // owned by the caller: must fail (normal pthread mutex)
        g_owner_probe = held_by_me(m);
        bool other_sees_owner = true;
        std::thread([&] { other_sees_owner = held_by_me(m); }).join();
        if (other_sees_owner) g_owner_probe = false; // another thread must not be reported as the owner
        m.unlock();
        if (g_owner_probe && held_by_me(m)) g_owner_probe = false; // released: nobody owns it
    }
    return ok;
}

void on_event(int kind, const void* object, uint64_t a, uint64_t)
{
    // the model's atomicity reduction: these events are emitted inside a block that holds the queue mutex.
    // (1) owner probe: the mutex must be held BY THE EMITTING THREAD (glibc owner field, validated by the self-test);
    // (2) try_lock probe (fallback, and kept as an independent second opinion): try_lock on a mutex owned by the
    //     calling thread reports failure with the pthread mutex used here; if it succeeds the mutex was NOT held:
    //     the shared state is touched outside the lock the proof relies on.
    int64_t qsize = -1;
    int     stop  = -1;
    if (lock_protected(kind))
    {
        const auto* queue = static_cast<const nano::parallel::queue_t*>(object);
        if (queue != nullptr)
        {
            bool held = true;
            if (g_owner_probe && !held_by_me(queue->m_mutex)) held = false;
            if (held && queue->m_mutex.try_lock())
            {
                queue->m_mutex.unlock();
                held = false;
            }
            if (!held)
            {
                g_unlocked_events.fetch_add(1);
                g_unlocked_kind.store(kind);
            }
            else
            {
                // the lock is held by this thread: the protected state can be read and is compared with the model's
                qsize = static_cast<int64_t>(queue->m_tasks.size());
                stop  = queue->m_stop ? 1 : 0;
                g_locked_verified[kind & 15].fetch_add(1, std::memory_order_relaxed);
            }
        }
    }
    else if (g_owner_probe && (kind == verif::ev_notify_one || kind == verif::ev_notify_all || kind == verif::ev_notify_stop ||
                               kind == verif::ev_worker_done || kind == verif::ev_joined || kind == verif::ev_map_inline))
    {
        // events the model treats as lock-free (object = the queue): legal inside the lock too, only counted
        const auto* queue = static_cast<const nano::parallel::queue_t*>(object);
        if (queue != nullptr && held_by_me(queue->m_mutex)) g_lockfree_inside.fetch_add(1, std::memory_order_relaxed);
    }
    const auto i = g_nevents.fetch_add(1, std::memory_order_acq_rel);
    if (i >= max_events) return;
    int actor = tl_sid;
    if (kind == verif::ev_worker_pop || kind == verif::ev_worker_done || kind == verif::ev_worker_exit)
        actor = static_cast<int>(a);
    g_events[i] = event_t{kind, actor, a, qsize, stop};
}

void on_sched(int point)
{
    if (!tl_init)
    {
        tl_rng  = g_sched_seed.fetch_add(0x9E3779B97F4A7C15ULL) ^ (static_cast<uint64_t>(point) << 32);
        tl_init = true;
    }
    vh::rng_t  rng(tl_rng);
    const auto r = rng.next();
    tl_rng       = rng.s;
    const int level = g_delay_level.load(std::memory_order_relaxed);
    if (level == 0) return;
    const auto m = r % 100;
    if (m < 30) std::this_thread::yield();
    else if (m < 30 + 10 * static_cast<unsigned>(level))
        std::this_thread::sleep_for(std::chrono::microseconds(1 + (r >> 8) % (50U * static_cast<unsigned>(level))));
}

enum class ckind { map, chunk, enqueue };

struct call_t
{
    ckind   kind;
    int     id0;       // first task id
    int     count;     // number of tasks
    int64_t elements;
    int64_t chunksize;
    bool    raise;
    // observed
    std::string                                   outcome; // none | exn <id> | other <what>
    std::vector<std::pair<int64_t, int64_t>>      chunks;  // per task: the range seen by the operator
};

struct task_rec_t
{
    std::atomic<int> count{0};
    std::atomic<int> tnum{-1};
    std::atomic<int> done{0};
};

struct scenario_t
{
    size_t                                   nw;
    std::vector<std::vector<call_t>>         progs;
    std::vector<char>                        throws;
    std::vector<task_rec_t>                  recs;
    std::vector<int>                         delay; // per task busy delay (us)
    std::atomic<int>                         fails{0};
    std::atomic<bool>                        destroyed{false};
    std::mutex                               mfail;
    std::vector<std::string>                 failmsg;

    void fail(const std::string& m)
    {
        std::scoped_lock l(mfail);
        if (failmsg.size() < 20) failmsg.push_back(m);
        ++fails;
    }
};

void run_task(scenario_t& sc, int id, size_t tnum, std::vector<std::atomic<int>>* busy)
{
    if (sc.destroyed.load()) sc.fail("task " + std::to_string(id) + " executed after the pool was destroyed");
    auto& r = sc.recs[static_cast<size_t>(id)];
    r.count.fetch_add(1);
    r.tnum.store(static_cast<int>(tnum));
    if (tnum >= sc.nw) sc.fail("task " + std::to_string(id) + " got tnum " + std::to_string(tnum) + " >= pool size");
    if (busy != nullptr && tnum < busy->size())
    {
        if ((*busy)[tnum].fetch_add(1) != 0)
            sc.fail("tnum " + std::to_string(tnum) + " used by two tasks of the same call at the same time (task " + std::to_string(id) + ")");
    }
    if (sc.delay[static_cast<size_t>(id)] > 0)
    {
        const auto until = std::chrono::steady_clock::now() + std::chrono::microseconds(sc.delay[static_cast<size_t>(id)]);
        while (std::chrono::steady_clock::now() < until) std::this_thread::yield();
    }
    if (busy != nullptr && tnum < busy->size()) (*busy)[tnum].fetch_sub(1);
    r.done.store(1);
    if (sc.throws[static_cast<size_t>(id)]) throw std::runtime_error(std::to_string(id));
}

void run_call(scenario_t& sc, pool_t& pool, call_t& c)
{
    std::vector<std::atomic<int>> busy(sc.nw);
    for (auto& b : busy) b.store(0);
    try
    {
        switch (c.kind)
        {
        case ckind::map:
            pool.map(
                c.elements, [&](int64_t index, size_t tnum) { run_task(sc, c.id0 + static_cast<int>(index), tnum, &busy); }, c.raise);
            break;
        case ckind::chunk:
            pool.map(
                c.elements, c.chunksize,
                [&](int64_t begin, int64_t end, size_t tnum)
                {
                    const auto k = begin / c.chunksize;
                    if (k >= 0 && k < static_cast<int64_t>(c.chunks.size())) c.chunks[static_cast<size_t>(k)] = {begin, end};
                    else sc.fail("chunk begin " + std::to_string(begin) + " outside the expected chunks");
                    run_task(sc, c.id0 + static_cast<int>(k), tnum, &busy);
                },
                c.raise);
            break;
        case ckind::enqueue:
            // fire and forget: the future is dropped
            pool.enqueue([&sc, id = c.id0](size_t tnum) { run_task(sc, id, tnum, nullptr); });
            break;
        }
        c.outcome = "none";
    }
    catch (const std::runtime_error& e) { c.outcome = std::string("exn ") + e.what(); }
    catch (const std::exception& e) { c.outcome = std::string("other ") + e.what(); }
    if (c.kind == ckind::chunk && c.outcome == "none")
    {
        // independent oracle: the chunks handed to the operator tile [0, elements) without overlap
        int64_t at = 0;
        bool    ok = true;
        for (const auto& ch : c.chunks)
        {
            ok = ok && ch.first == at && ch.second > ch.first && ch.second - ch.first <= c.chunksize && ch.second <= c.elements;
            at = ch.second;
        }
        ok = ok && at == c.elements;
        if (!ok)
        {
            std::string m = "chunks of map(" + std::to_string(c.elements) + ", " + std::to_string(c.chunksize) + ") do not tile [0, elements):";
            for (const auto& ch : c.chunks) m += " [" + std::to_string(ch.first) + "," + std::to_string(ch.second) + ")";
            sc.fail(m);
        }
    }
    if (c.kind != ckind::enqueue)
    {
        // the pool path swallows task exceptions unless raise was requested
        if (!c.raise && c.outcome != "none" && sc.nw > 1 && c.count > 1)
            sc.fail("map(raise=false) let an exception escape: " + c.outcome);
        // map() has returned: every task of the call must have finished (or, on the fast path, the loop was aborted by a throw)
        bool aborted = false;
        for (int k = 0; k < c.count; ++k)
        {
            const auto& r = sc.recs[static_cast<size_t>(c.id0 + k)];
            if (r.count.load() == 0)
            {
                if (!aborted && c.outcome == "none") sc.fail("map returned normally but task " + std::to_string(c.id0 + k) + " never ran");
                continue;
            }
            if (r.done.load() == 0) sc.fail("map returned before task " + std::to_string(c.id0 + k) + " finished");
            if (sc.throws[static_cast<size_t>(c.id0 + k)]) aborted = true;
        }
    }
}

const char* kind_name(int k)
{
    switch (k)
    {
    case verif::ev_push_one: return "PUSH1";
    case verif::ev_notify_one: return "NOTIFY1";
    case verif::ev_map_inline: return "INLINE";
    case verif::ev_push_all: return "PUSHN";
    case verif::ev_notify_all: return "NOTIFYN";
    case verif::ev_map_end: return "MAPEND";
    case verif::ev_future_visited: return "VISIT";
    case verif::ev_worker_pop: return "POP";
    case verif::ev_worker_done: return "DONE";
    case verif::ev_worker_exit: return "EXIT";
    case verif::ev_stop: return "STOP";
    case verif::ev_notify_stop: return "NOTIFYSTOP";
    case verif::ev_joined: return "JOINED";
    default: return "?";
    }
}

void print_scenario(int k, scenario_t& sc, bool hang)
{
    std::printf("SCENARIO %d nw=%zu subs=%zu%s\n", k, sc.nw, sc.progs.size() + 1, hang ? " HANG" : "");
    for (size_t s = 0; s < sc.progs.size(); ++s)
    {
        std::printf("PROG %zu:", s);
        for (const auto& c : sc.progs[s])
        {
            if (c.kind == ckind::map) std::printf(" MAP,%d,%d,%d,%" PRId64, c.id0, c.count, c.raise ? 1 : 0, c.elements);
            else if (c.kind == ckind::chunk)
                std::printf(" CHUNK,%d,%d,%d,%" PRId64 ",%" PRId64, c.id0, c.count, c.raise ? 1 : 0, c.elements, c.chunksize);
            else std::printf(" ENQ,%d", c.id0);
        }
        std::printf("\n");
    }
    std::printf("PROG %zu: DESTROY\n", sc.progs.size());
    std::printf("THROWS");
    for (size_t i = 0; i < sc.throws.size(); ++i) if (sc.throws[i]) std::printf(" %zu", i);
    std::printf("\n");
    const auto n = std::min(g_nevents.load(), max_events);
    std::printf("EVENTS");
    for (size_t i = 0; i < n; ++i)
    {
        // lock-protected events carry what was read under the lock: KIND:actor:a:queue-size:stop
        if (g_events[i].qsize >= 0)
            std::printf(" %s:%d:%" PRIu64 ":%" PRId64 ":%d", kind_name(g_events[i].kind), g_events[i].actor, g_events[i].a,
                        g_events[i].qsize, g_events[i].stop);
        else std::printf(" %s:%d:%" PRIu64, kind_name(g_events[i].kind), g_events[i].actor, g_events[i].a);
    }
    std::printf("\n");
    std::printf("EXEC");
    for (size_t i = 0; i < sc.recs.size(); ++i) std::printf(" %zu:%d:%d", i, sc.recs[i].count.load(), sc.recs[i].tnum.load());
    std::printf("\n");
    for (size_t s = 0; s < sc.progs.size(); ++s)
        for (size_t ci = 0; ci < sc.progs[s].size(); ++ci)
        {
            const auto& c = sc.progs[s][ci];
            if (c.kind == ckind::enqueue) continue;
            std::printf("RESULT %zu %zu %d = %s\n", s, ci, c.id0, c.outcome.c_str());
            if (c.kind == ckind::chunk)
            {
                std::printf("CHUNKS %" PRId64 " %" PRId64 " =", c.elements, c.chunksize);
                for (const auto& ch : c.chunks) std::printf(" %" PRId64 ",%" PRId64, ch.first, ch.second);
                std::printf("\n");
            }
        }
    for (const auto& m : sc.failmsg) std::printf("FAIL scenario %d: %s\n", k, m.c_str());
    std::printf("END %d\n", k);
}

} // namespace

int main(int argc, char** argv)
{
    const std::string mode  = argc > 1 ? argv[1] : "quick";
    int               count = argc > 2 ? std::atoi(argv[2]) : (mode == "quick" ? 300 : 6000);
    std::setvbuf(stdout, nullptr, _IOLBF, 0);
    vh::rng_t rng(vh::env_seed());
    for (auto& c : g_locked_verified) c.store(0);
    const bool probes_ok = probe_selftest();
    std::printf("PROBE try_lock=%s owner=%s\n", probes_ok ? "ok" : "UNUSABLE", g_owner_probe ? "ok" : "unavailable");
    if (!probes_ok) std::printf("FAIL scenario -1: the try_lock probe of the atomicity check does not behave as assumed on this platform\n");
    verif::g_event_hook.store(&on_event);
    verif::g_sched_hook.store(&on_sched);
    const auto maxw = pool_t::max_size();
    long       total_fail = 0, total_events = 0;

    for (int k = 0; k < count; ++k)
    {
        auto sc = std::make_unique<scenario_t>();
        // pool size: 1..16 requested (clamped by the library to the hardware concurrency)
        const auto want = static_cast<size_t>(rng.range(1, 16));
        const auto nsub = static_cast<size_t>(rng.range(1, 4));
        const int  shape = static_cast<int>(rng.range(0, 9)); // 0: tiny, 1-6: small, 7-8: medium, 9: large
        int        next_id = 0;
        sc->progs.resize(nsub);
        for (size_t s = 0; s < nsub; ++s)
        {
            const auto ncalls = rng.range(1, shape == 9 ? 2 : 4);
            for (int64_t ci = 0; ci < ncalls; ++ci)
            {
                call_t c{};
                const auto pick = rng.range(0, 9);
                const int64_t maxel = shape == 0 ? 3 : shape <= 6 ? 12 : shape <= 8 ? 200 : 5000;
                if (pick <= 3)
                {
                    c.kind     = ckind::map;
                    c.elements = rng.range(0, maxel);
                    c.count    = static_cast<int>(c.elements);
                }
                else if (pick <= 7)
                {
                    c.kind      = ckind::chunk;
                    c.elements  = rng.range(0, maxel);
                    c.chunksize = rng.range(1, std::max<int64_t>(1, c.elements + 1));
                    if (rng.range(0, 3) == 0) c.chunksize = rng.range(1, 3);
                    c.count = static_cast<int>((c.elements + c.chunksize - 1) / c.chunksize);
                    c.chunks.assign(static_cast<size_t>(c.count), {-1, -1});
                }
                else
                {
                    c.kind  = ckind::enqueue;
                    c.count = 1;
                }
                c.raise = rng.range(0, 2) != 0;
                c.id0   = next_id;
                next_id += c.count;
                sc->progs[s].push_back(c);
            }
        }
        // destruction with queued / running tasks: in a third of the scenarios the last thread ends with a burst of slow
        // fire-and-forget tasks, so that ~pool_t() finds the queue populated and workers busy (the property's
        // "idle, busy or has queued tasks"; without it the pool is practically always idle when it is destroyed)
        int burst_from = -1;
        if (rng.range(0, 2) == 0)
        {
            // every thread gets its burst: the one that happens to finish last leaves the queue populated
            burst_from = next_id;
            for (size_t s = 0; s < nsub; ++s)
            {
                const auto nb = rng.range(static_cast<int64_t>(want), 6 * static_cast<int64_t>(want));
                for (int64_t b = 0; b < nb; ++b)
                {
                    call_t c{};
                    c.kind  = ckind::enqueue;
                    c.count = 1;
                    c.id0   = next_id++;
                    sc->progs[s].push_back(c);
                }
            }
        }
        sc->throws.assign(static_cast<size_t>(next_id), 0);
        sc->delay.assign(static_cast<size_t>(next_id), 0);
        sc->recs = std::vector<task_rec_t>(static_cast<size_t>(next_id));
        const auto throw_rate = rng.range(0, 3) == 0 ? rng.range(1, 30) : 0; // percent
        for (int i = 0; i < next_id; ++i)
        {
            sc->throws[static_cast<size_t>(i)] = rng.range(0, 99) < throw_rate;
            sc->delay[static_cast<size_t>(i)]  = rng.range(0, 9) == 0 ? static_cast<int>(rng.range(1, shape == 9 ? 20 : 300)) : 0;
            if (burst_from >= 0 && i >= burst_from) sc->delay[static_cast<size_t>(i)] = static_cast<int>(rng.range(300, 2000));
        }
        g_nevents.store(0);
        g_sched_seed.store(rng.next());
        g_delay_level.store(static_cast<int>(rng.range(0, 3)));

        auto pool = std::make_unique<pool_t>(want);
        sc->nw    = pool->size();
        (void)maxw;

        std::atomic<size_t> finished_subs{0};
        std::vector<std::thread> threads;
        for (size_t s = 0; s < nsub; ++s)
        {
            threads.emplace_back(
                [&, s]
                {
                    tl_sid = static_cast<int>(s);
                    for (auto& c : sc->progs[s]) run_call(*sc, *pool, c);
                    finished_subs.fetch_add(1);
                });
        }
        // watchdog: the scenario must complete
        const auto deadline = std::chrono::steady_clock::now() + std::chrono::seconds(60);
        while (finished_subs.load() < nsub && std::chrono::steady_clock::now() < deadline)
            std::this_thread::sleep_for(std::chrono::microseconds(200));
        if (finished_subs.load() < nsub)
        {
            print_scenario(k, *sc, true);
            std::printf("FAIL scenario %d: hang: %zu of %zu submitting threads did not return within 60 s\n", k, nsub - finished_subs.load(), nsub);
            std::printf("DONE scenarios=%d fails=%ld HANG\n", k + 1, total_fail + 1);
            std::fflush(stdout);
            std::_Exit(3);
        }
        for (auto& t : threads) t.join();
        // destroy the pool (idle, busy or with queued fire-and-forget tasks) from the main thread = last submitter
        tl_sid = static_cast<int>(nsub);
        std::atomic<bool> destroyed{false};
        std::thread       killer(
            [&]
            {
                tl_sid = static_cast<int>(nsub);
                pool.reset();
                destroyed.store(true);
            });
        const auto deadline2 = std::chrono::steady_clock::now() + std::chrono::seconds(60);
        while (!destroyed.load() && std::chrono::steady_clock::now() < deadline2)
            std::this_thread::sleep_for(std::chrono::microseconds(200));
        if (!destroyed.load())
        {
            print_scenario(k, *sc, true);
            std::printf("FAIL scenario %d: hang: the pool destructor did not return within 60 s\n", k);
            std::printf("DONE scenarios=%d fails=%ld HANG\n", k + 1, total_fail + 1);
            std::fflush(stdout);
            std::_Exit(3);
        }
        killer.join();
        sc->destroyed.store(true);
        // independent oracle: exactly once per task unless dropped / aborted
        for (auto& prog : sc->progs)
            for (auto& c : prog)
                for (int i = 0; i < c.count; ++i)
                {
                    const auto n = sc->recs[static_cast<size_t>(c.id0 + i)].count.load();
                    if (n > 1) sc->fail("task " + std::to_string(c.id0 + i) + " executed " + std::to_string(n) + " times");
                }
        if (g_unlocked_events.exchange(0) > 0)
            sc->fail(std::string("event ") + kind_name(g_unlocked_kind.load()) +
                     " was emitted without holding the queue mutex: m_tasks/m_stop are accessed outside the lock (the "
                     "atomicity the protocol proof relies on; lost wake-ups become possible)");
        print_scenario(k, *sc, false);
        total_fail += sc->fails.load();
        total_events += static_cast<long>(g_nevents.load());
    }
    std::printf("LOCKED push1=%ld pushn=%ld pop=%ld exit=%ld stop=%ld lockfree_inside_lock=%ld owner_probe=%d\n",
                g_locked_verified[verif::ev_push_one].load(), g_locked_verified[verif::ev_push_all].load(),
                g_locked_verified[verif::ev_worker_pop].load(), g_locked_verified[verif::ev_worker_exit].load(),
                g_locked_verified[verif::ev_stop].load(), g_lockfree_inside.load(), g_owner_probe ? 1 : 0);
    std::printf("DONE scenarios=%d fails=%ld events=%ld\n", count, total_fail + (probes_ok ? 0 : 1), total_events);
    return 0;
}
