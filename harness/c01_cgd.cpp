// C01 (stage C01CG) harness: the conjugate-gradient direction of libnano recorded through the NANO_VERIF value hook
// ev_cgd_direction (src/solver/cgd.cpp).
//
//   c01_cgd <quick|thorough> [only-run-id]          (every case derives from VERIF_SEED)
//
// Runs the ten cgd solvers
//   (a) on the quadratic class of the property and on registered smooth functions, with several lsearch0 / lsearchk pairs,
//       solver::cgd::orthotest across its domain (0, 1) and solver::cgdN::eta across (0, 1e6);
//   (b) on SCRIPTED oracles: a function_t that returns, on its k-th evaluation, the k-th gradient of a script of small
//       integer vectors (and f = -1024 k, so that the Armijo backtracking search accepts every first trial): the solver
//       then computes its directions from gradients under the generator's control -- all inner products are exact in
//       binary64, so the case splits of the model (restart test at a tie |g.pg| == orthotest * g.g, g.d == 0, the FRPR /
//       DYHS / DYCD / N clamps at their boundaries, negative HS / PR / LS) are hit exactly; orthotest is dyadic there.
// and prints every hook event with all doubles as C hex floats:
//     CRUN <id> solver=<id> orthotest=<hex> eta=<hex|-> kind=<natural|script> func=<name> n=<n> eps=<hex> maxev=<k> ls0=<id> lsk=<id>
//     CD <id> <k> <n> <beta> <restarted> <orthotest> | <previous g> | <previous d> | <g> | <chosen d>
//     CEND <id> status=<int> events=<count> recorded=<count>
//     DONE runs=<n> events=<n> recorded=<n>
// The comparison with the exact model and the property oracles are done by ocaml/c01cg_driver.ml on these very numbers.
#include "common.h"
#include <algorithm>
#include <nano/solver.h>
#include <nano/verif.h>

using namespace nano;

namespace
{
std::string hv(const double* p, const tensor_size_t n)
{
    std::string s;
    for (tensor_size_t i = 0; i < n; ++i)
    {
        if (i) s += ",";
        s += vh::hexf(p[i]);
    }
    return s.empty() ? std::string("-") : s;
}

// 0.5 x'Ax + a'x with A = s * Q diag(spectrum) Q'   (the class of the property; same construction as harness/c01_quasi.cpp)
class quad_function_t final : public function_t
{
public:
    quad_function_t(vh::rng_t& rng, const int n, const double kappa, const double s)
        : function_t("vquad", n), m_A(n, n), m_a(n), m_xstar(n)
    {
        convex(convexity::yes);
        smooth(smoothness::yes);
        matrix_t Q = matrix_t::identity(n, n);
        for (int k = 0; k < n; ++k)
        {
            vector_t v(n);
            double   nv = 0;
            for (int i = 0; i < n; ++i) { v(i) = rng.unit() - 0.5; nv += v(i) * v(i); }
            if (nv < 1e-12) { v(0) = 1.0; nv += 1.0; }
            matrix_t H = matrix_t::identity(n, n);
            for (int i = 0; i < n; ++i)
                for (int j = 0; j < n; ++j) H(i, j) -= 2.0 * v(i) * v(j) / nv;
            matrix_t P(n, n);
            for (int i = 0; i < n; ++i)
                for (int j = 0; j < n; ++j)
                {
                    double acc = 0;
                    for (int l = 0; l < n; ++l) acc += Q(i, l) * H(l, j);
                    P(i, j) = acc;
                }
            Q = P;
        }
        std::vector<double> spec(static_cast<size_t>(n));
        for (int i = 0; i < n; ++i) spec[static_cast<size_t>(i)] = std::exp(std::log(kappa) * rng.unit());
        spec[0] = 1.0;
        if (n > 1) spec[1] = kappa;
        for (int i = 0; i < n; ++i)
            for (int j = 0; j < n; ++j)
            {
                double acc = 0;
                for (int l = 0; l < n; ++l) acc += Q(i, l) * spec[static_cast<size_t>(l)] * Q(j, l);
                m_A(i, j) = s * acc;
            }
        for (int i = 0; i < n; ++i)
            for (int j = i + 1; j < n; ++j) m_A(j, i) = m_A(i, j) = 0.5 * (m_A(i, j) + m_A(j, i));
        for (int i = 0; i < n; ++i) m_xstar(i) = (rng.unit() - 0.5) * 10.0;
        for (int i = 0; i < n; ++i)
        {
            double acc = 0;
            for (int j = 0; j < n; ++j) acc += m_A(i, j) * m_xstar(j);
            m_a(i) = -acc;
        }
        strong_convexity(s);
    }
    rfunction_t clone() const override { return std::make_unique<quad_function_t>(*this); }
    scalar_t    do_vgrad(vector_cmap_t x, vector_map_t gx) const override
    {
        const auto n = size();
        double     f = 0;
        for (tensor_size_t i = 0; i < n; ++i)
        {
            double acc = 0;
            for (tensor_size_t j = 0; j < n; ++j) acc += m_A(i, j) * x(j);
            if (gx.size() == n) gx(i) = acc + m_a(i);
            f += x(i) * (0.5 * acc + m_a(i));
        }
        return f;
    }
    matrix_t m_A;
    vector_t m_a, m_xstar;
};

// the scripted oracle: the k-th evaluation returns the k-th scripted gradient and f = -1024 k (whatever x is); a zero
// gradient once the script is exhausted (the solver then stops with `converged`)
class script_function_t final : public function_t
{
public:
    script_function_t(const int n, std::vector<std::vector<double>> gs)
        : function_t("vscript", n), m_gs(std::move(gs))
    {
        convex(convexity::no);
        smooth(smoothness::yes);
    }
    rfunction_t clone() const override { return std::make_unique<script_function_t>(*this); }
    scalar_t    do_vgrad(vector_cmap_t, vector_map_t gx) const override
    {
        const auto n = size();
        const auto k = m_k;
        if (gx.size() == n)
        {
            ++m_k;
            for (tensor_size_t i = 0; i < n; ++i)
                gx(i) = k < m_gs.size() ? m_gs[k][static_cast<size_t>(i)] : 0.0;
        }
        return -1024.0 * static_cast<double>(k);
    }
    std::vector<std::vector<double>> m_gs;
    mutable size_t                   m_k{0};
};

double log_uniform(vh::rng_t& r, const double lo, const double hi)
{
    return std::exp(std::log(lo) + (std::log(hi) - std::log(lo)) * r.unit());
}

vector_t make_x0(vh::rng_t& r, const tensor_size_t n, const double radius)
{
    vector_t x(n);
    for (tensor_size_t i = 0; i < n; ++i) x(i) = (r.unit() * 2.0 - 1.0) * radius;
    return x;
}

// ---- the hook ------------------------------------------------------------------------------------------------------
long g_id = 0, g_cap = 0, g_events = 0, g_recorded = 0, g_total_events = 0, g_total_recorded = 0;

void on_values(const int kind, const void*, const double* v, const int count)
{
    if (kind != verif::ev_cgd_direction) return;
    const auto k = g_events++;
    const auto n = static_cast<tensor_size_t>(v[0]);
    if (count != 4 + 4 * n) { std::printf("FAIL %ld hook-layout cgd count=%d n=%ld\n", g_id, count, static_cast<long>(n)); return; }
    if (k >= g_cap) return;
    ++g_recorded;
    const double* pg = v + 4;
    const double* pd = pg + n;
    const double* g  = pd + n;
    const double* d  = g + n;
    std::printf("CD %ld %ld %ld %s %d %s | %s | %s | %s | %s\n", g_id, k, static_cast<long>(n), vh::hexf(v[1]).c_str(),
                v[2] != 0.0 ? 1 : 0, vh::hexf(v[3]).c_str(), hv(pg, n).c_str(), hv(pd, n).c_str(), hv(g, n).c_str(), hv(d, n).c_str());
}
} // namespace

int main(int argc, char** argv)
{
    std::setvbuf(stdout, nullptr, _IOLBF, 0);
    const std::string tier     = argc > 1 ? argv[1] : "quick";
    const long        only     = argc > 2 ? std::atol(argv[2]) : -1;
    const bool        thorough = tier == "thorough";
    const auto        seed     = vh::env_seed();

    verif::g_values_hook.store(&on_values);

    std::vector<std::string> smooth_ids;
    for (const auto& id : function_t::all().ids())
    {
        const auto f = function_t::all().get(id)->make(4, 10);
        if (f && f->smooth()) smooth_ids.push_back(id);
    }

    static const char* cgds[] = {"cgd-hs", "cgd-fr", "cgd-pr", "cgd-cd", "cgd-ls", "cgd-dy", "cgd-n", "cgd-dycd", "cgd-dyhs", "cgd-frpr"};
    static const char* l0s[]  = {"cgdescent", "constant", "linear", "quadratic"};
    static const char* lks[]  = {"cgdescent", "morethuente", "fletcher", "lemarechal", "backtrack"};
    static const int   dims[] = {1, 2, 3, 4, 5, 6, 8, 12, 16, 24, 32};
    // dyadic thresholds for the scripted runs (orthotest * g.g is then exact)
    static const double dyadic[] = {0.5, 0.25, 0.75, 0.125, 0.0625, 0.875, 0.375};

    for (const auto* sid : cgds)
        if (!solver_t::all().get(sid)) { std::printf("FAIL 0 missing-solver %s\n", sid); }

    long id = 0, runs = 0;
    const auto finish = [&](const solver_state_t& state)
    {
        std::printf("CEND %ld status=%d events=%ld recorded=%ld\n", id, static_cast<int>(state.status()), g_events, g_recorded);
        g_total_events += g_events;
        g_total_recorded += g_recorded;
        ++runs;
    };

    // (a) natural runs
    const long per = thorough ? 60 : 6;
    for (const auto* sid : cgds)
        for (long k = 0; k < per; ++k, ++id)
        {
            vh::rng_t rng(seed * 1000003ULL + static_cast<uint64_t>(id) * 7919ULL + 31);
            if (only >= 0 && id != only) continue;
            const int   n    = dims[rng.range(0, 10)];
            const bool  quad = smooth_ids.empty() || (k % 3 != 2);
            rfunction_t fn;
            std::string fname;
            if (quad)
            {
                const double kappa = (k % 7 == 0) ? 1e3 : ((k % 7 == 5) ? 1.0 : log_uniform(rng, 1, 1e3));
                const double s     = (k % 5 == 0) ? 1e3 : ((k % 5 == 4) ? 1e-3 : log_uniform(rng, 1e-3, 1e3));
                fn                 = std::make_unique<quad_function_t>(rng, std::min(n, 16), kappa, s);
                fname              = "vquad[k=" + vh::hexf(kappa) + ",s=" + vh::hexf(s) + "]";
            }
            else
            {
                for (int t = 0; t < 20 && !(fn && fn->smooth()); ++t)
                    fn = function_t::all().get(smooth_ids[static_cast<size_t>(rng.range(0, static_cast<int64_t>(smooth_ids.size()) - 1))])->make(n, rng.range(10, 40));
                if (!fn || !fn->smooth()) continue;
                fname = fn->name();
            }
            auto solver = solver_t::all().get(sid);
            // orthotest across its domain (0, 1): the default, tiny (restarts almost always), close to 1 (almost never)
            const double ot = (k % 4 == 0) ? 0.1 : ((k % 4 == 1) ? log_uniform(rng, 1e-6, 1e-1) : ((k % 4 == 2) ? 1.0 - log_uniform(rng, 1e-9, 0.5) : rng.unit() * 0.998 + 0.001));
            const double eta = (k % 3 == 0) ? 0.01 : log_uniform(rng, 1e-6, 1e5);
            const double eps   = (k % 2 == 0) ? 1e-8 : log_uniform(rng, 1e-12, 1e-4);
            const long   maxev = thorough ? 1000 : 300;
            solver->parameter("solver::epsilon")        = eps;
            solver->parameter("solver::max_evals")      = static_cast<int64_t>(maxev);
            solver->parameter("solver::cgd::orthotest") = ot;
            if (std::string(sid) == "cgd-n") solver->parameter("solver::cgdN::eta") = eta;
            if (k % 2 == 1)
            {
                solver->lsearch0(l0s[rng.range(0, 3)]);
                solver->lsearchk(lks[rng.range(0, 4)]);
            }
            const auto x0 = make_x0(rng, fn->size(), (k % 3 == 0) ? 10.0 : log_uniform(rng, 1e-3, 10.0));
            vector_t   g0(fn->size());
            if (!std::isfinite(fn->vgrad(x0, g0))) continue;
            g_id = id;
            g_events = g_recorded = 0;
            g_cap = thorough ? 60 : 30;
            std::printf("CRUN %ld solver=%s orthotest=%s eta=%s kind=natural func=%s n=%ld eps=%s maxev=%ld ls0=%s lsk=%s\n", id, sid,
                        vh::hexf(ot).c_str(), std::string(sid) == "cgd-n" ? vh::hexf(eta).c_str() : "-", fname.c_str(),
                        static_cast<long>(fn->size()), vh::hexf(eps).c_str(), maxev, solver->lsearch0().type_id().c_str(),
                        solver->lsearchk().type_id().c_str());
            finish(solver->minimize(*fn, x0, make_null_logger()));
        }

    // (b) scripted runs: small integer gradients, dyadic orthotest, Armijo backtracking (accepts every first trial)
    const long sper = thorough ? 400 : 40;
    for (const auto* sid : cgds)
        for (long k = 0; k < sper; ++k, ++id)
        {
            vh::rng_t rng(seed * 1000003ULL + static_cast<uint64_t>(id) * 7919ULL + 37);
            if (only >= 0 && id != only) continue;
            const int  n      = static_cast<int>(rng.range(1, 4));
            const int  len    = static_cast<int>(rng.range(4, 14));
            const int  amp    = (k % 3 == 0) ? 2 : ((k % 3 == 1) ? 3 : 6);
            std::vector<std::vector<double>> gs;
            const double ot = dyadic[rng.range(0, 6)];
            for (int t = 0; t < len; ++t)
            {
                std::vector<double> g(static_cast<size_t>(n));
                // half of the gradients: the first of up to 6 draws with |g.pg| <= orthotest * g.g (ties included), so that the
                // orthogonality test passes or sits exactly on its threshold and the descent test / the clamps decide
                const int tries = (t > 0 && rng.range(0, 1) == 0) ? 6 : 1;
                for (int a = 0; a < tries; ++a)
                {
                    bool nz = false;
                    for (auto& x : g) { x = static_cast<double>(rng.range(-amp, amp)); nz = nz || x != 0.0; }
                    if (!nz) g[0] = 1.0;
                    if (t == 0) break;
                    double gpg = 0, gg = 0;
                    for (size_t i = 0; i < g.size(); ++i) { gpg += g[i] * gs.back()[i]; gg += g[i] * g[i]; }
                    if (std::fabs(gpg) <= ot * gg) break;
                }
                // a third of the gradients repeat / negate / double the previous one (ties of the clamps, beta = 1, y = 0)
                if (t > 0 && rng.range(0, 5) == 0) { g = gs.back(); if (rng.range(0, 1)) for (auto& x : g) x = -x; }
                else if (t > 0 && rng.range(0, 7) == 0) { g = gs.back(); for (auto& x : g) x *= 2.0; }
                gs.push_back(g);
            }
            auto       fn     = std::make_unique<script_function_t>(n, gs);
            auto       solver = solver_t::all().get(sid);
            // eta: dyadic; small (min(eta, |pg|) = eta) or large (= |pg|)
            const double eta  = (k % 2 == 0) ? 0.0078125 : 64.0;
            solver->parameter("solver::epsilon")        = 1e-12;
            solver->parameter("solver::max_evals")      = static_cast<int64_t>(1000);
            solver->parameter("solver::cgd::orthotest") = ot;
            if (std::string(sid) == "cgd-n") solver->parameter("solver::cgdN::eta") = eta;
            solver->lsearch0("constant");
            solver->lsearchk("backtrack");
            vector_t x0 = vector_t::zero(n);
            g_id = id;
            g_events = g_recorded = 0;
            g_cap = 64;
            std::printf("CRUN %ld solver=%s orthotest=%s eta=%s kind=script func=vscript n=%d eps=%s maxev=1000 ls0=constant lsk=backtrack\n", id, sid,
                        vh::hexf(ot).c_str(), std::string(sid) == "cgd-n" ? vh::hexf(eta).c_str() : "-", n, vh::hexf(1e-12).c_str());
            finish(solver->minimize(*fn, x0, make_null_logger()));
        }
    std::printf("DONE runs=%ld events=%ld recorded=%ld functions=%zu\n", runs, g_total_events, g_total_recorded, smooth_ids.size());
    return 0;
}
