// C02 extension 2 harness: WHOLE RUNS of the real sgm / cocob / sda / wda solvers (src/solver/sgm.cpp, cocob.cpp, pdsgm.cpp)
// with a recording function_t (every evaluation: point, value, sub-gradient) and the NANO_VERIF solver_t::done entry/exit
// hooks (iter_ok, converged, returned value). The extracted model `body_run` (coq/theories/C02_Bodies_Defs.v) must request
// exactly the recorded sequence of evaluation points, bit for bit, and end in the same state / status / counters
// (ocaml/c02b_driver.ml). The Eigen reductions the bodies read are recomputed here with the library's own expressions
// (g.lpNorm<2>(), g.lpNorm<Infinity>()) on the recorded sub-gradients and handed to the model as oracle inputs, cross-checked
// against a long double recomputation; std::pow as sgm.cpp calls it likewise. The property's own oracle (FAIL lines) is
// applied here, independently of the model.
//
//   c02_bodies <quick|thorough> [only-run-id]            (every case derives from VERIF_SEED and its index)
//
//   BRUN id solver body fname n | eps maxev patience p smooth | x0         body: 0 sgm, 1 cocob, 2 sda, 3 wda
//                                                                          p: sgm power, cocob the L0 in force, pdsgm D
//   BEV  id k f norm2 ninf pow | x | g       norm2 = g.lpNorm<2>(), ninf = g.lpNorm<Infinity>(), pow = std::pow(k + 1, power) (sgm)
//   BDN  id j iter_ok conv ret evals fx valid
//   BRET id status fcalls gcalls fn_fcalls fn_gcalls vtest fx | x | g      vtest = value_test(patience) of the returned state
//   FAIL id clause ...
//   BEND id
//   DONE runs=.. evals=.. fails=..
#include "common.h"
#include <algorithm>
#include <functional>
#include <map>
#include <nano/function.h>
#include <nano/solver.h>
#include <nano/verif.h>

using namespace nano;

namespace
{
std::string hv(const vector_t& v)
{
    std::string s;
    for (tensor_size_t i = 0; i < v.size(); ++i)
    {
        if (i) s += ",";
        s += vh::hexf(v(i));
    }
    return s.empty() ? "-" : s;
}
bool same_bits(const double a, const double b) { return (std::isnan(a) && std::isnan(b)) || std::memcmp(&a, &b, sizeof(a)) == 0; }
bool same_bits(const vector_t& a, const vector_t& b)
{
    if (a.size() != b.size()) return false;
    for (tensor_size_t i = 0; i < a.size(); ++i)
        if (!same_bits(a(i), b(i))) return false;
    return true;
}
bool allfin(const vector_t& v)
{
    for (tensor_size_t i = 0; i < v.size(); ++i)
        if (!std::isfinite(v(i))) return false;
    return true;
}
vector_t copy_of(const vector_cmap_t& v)
{
    vector_t r(v.size());
    r.vector() = v.vector();
    return r;
}

struct eval_rec_t
{
    vector_t x, g;
    double   f{0};
    bool     withg{false};
};

class recorder_t final : public function_t
{
public:
    explicit recorder_t(const function_t& inner)
        : function_t("recorder", inner.size()), m_inner(&inner)
    {
        convex(inner.convex() ? convexity::yes : convexity::no);
        smooth(inner.smooth() ? smoothness::yes : smoothness::no);
        strong_convexity(inner.strong_convexity());
    }
    rfunction_t clone() const override { return std::make_unique<recorder_t>(*this); }
    scalar_t    do_vgrad(vector_cmap_t x, vector_map_t gx) const override
    {
        const auto f = m_inner->vgrad(x, gx);
        eval_rec_t r;
        r.x     = copy_of(x);
        r.f     = f;
        r.withg = gx.size() == x.size();
        if (r.withg) r.g = copy_of(gx);
        m_log.push_back(std::move(r));
        return f;
    }
    const function_t*               m_inner;
    mutable std::vector<eval_rec_t> m_log;
};

double logu(vh::rng_t& rng, const double lo, const double hi) { return std::exp(std::log(lo) + (std::log(hi) - std::log(lo)) * rng.unit()); }
double sym(vh::rng_t& rng) { return 2.0 * rng.unit() - 1.0; }

// ---- objectives --------------------------------------------------------------------------------------------------
class quad_t final : public function_t
{
public:
    quad_t(vh::rng_t& rng, const tensor_size_t n, const double kappa, const double s)
        : function_t("vquad", n), m_A(n, n), m_b(n)
    {
        convex(convexity::yes);
        smooth(smoothness::yes);
        matrix_t B(n, n);
        for (tensor_size_t i = 0; i < n; ++i)
        {
            m_b(i) = (2.0 * rng.unit() - 1.0) * 3.0;
            for (tensor_size_t j = 0; j < n; ++j) B(i, j) = (2.0 * rng.unit() - 1.0);
        }
        for (tensor_size_t i = 0; i < n; ++i)
            for (tensor_size_t j = 0; j < n; ++j)
            {
                double acc = (i == j) ? 1.0 : 0.0;
                for (tensor_size_t l = 0; l < n; ++l) acc += (kappa / static_cast<double>(n)) * B(i, l) * B(j, l);
                m_A(i, j) = s * acc;
            }
    }
    rfunction_t clone() const override { return std::make_unique<quad_t>(*this); }
    scalar_t    do_vgrad(vector_cmap_t x, vector_map_t gx) const override
    {
        const auto n = size();
        double     f = 0;
        for (tensor_size_t i = 0; i < n; ++i)
        {
            double acc = 0;
            for (tensor_size_t j = 0; j < n; ++j) acc += m_A(i, j) * x(j);
            if (gx.size() == n) gx(i) = acc + m_b(i);
            f += x(i) * (0.5 * acc + m_b(i));
        }
        return f;
    }
    matrix_t m_A;
    vector_t m_b;
};

// max of affine pieces (convex, non-smooth), minus an offset
class pwl_t final : public function_t
{
public:
    pwl_t(vh::rng_t& rng, const tensor_size_t n, const int pieces)
        : function_t("vpwl", n), m_W(pieces, n), m_b(pieces)
    {
        convex(convexity::yes);
        smooth(smoothness::no);
        for (int p = 0; p < pieces; ++p)
        {
            for (tensor_size_t i = 0; i < n; ++i) m_W(p, i) = sym(rng) * 2.0;
            m_b(p) = sym(rng);
        }
    }
    rfunction_t clone() const override { return std::make_unique<pwl_t>(*this); }
    scalar_t    do_vgrad(vector_cmap_t x, vector_map_t gx) const override
    {
        double best = -HUGE_VAL;
        tensor_size_t arg = 0;
        for (tensor_size_t p = 0; p < m_W.rows(); ++p)
        {
            double v = m_b(p);
            for (tensor_size_t i = 0; i < size(); ++i) v += m_W(p, i) * x(i);
            if (v > best) { best = v; arg = p; }
        }
        if (gx.size() == size())
            for (tensor_size_t i = 0; i < size(); ++i) gx(i) = m_W(arg, i);
        return best;
    }
    matrix_t m_W;
    vector_t m_b;
};

// scale * |x - c|_1 (sub-gradient sign(x - c), exactly zero at c)
class l1_t final : public function_t
{
public:
    l1_t(vector_t c, const double s)
        : function_t("vl1", c.size()), m_c(std::move(c)), m_s(s)
    {
        convex(convexity::yes);
        smooth(smoothness::no);
    }
    rfunction_t clone() const override { return std::make_unique<l1_t>(*this); }
    scalar_t    do_vgrad(vector_cmap_t x, vector_map_t gx) const override
    {
        double f = 0;
        for (tensor_size_t i = 0; i < size(); ++i)
        {
            const auto d = x(i) - m_c(i);
            f += m_s * std::fabs(d);
            if (gx.size() == size()) gx(i) = d > 0 ? m_s : (d < 0 ? -m_s : 0.0);
        }
        return f;
    }
    vector_t m_c;
    double   m_s{1};
};

class fun1d_t final : public function_t
{
public:
    using op_t = std::function<std::pair<double, double>(double)>;
    fun1d_t(string_t name, op_t op)
        : function_t(std::move(name), 1), m_op(std::move(op))
    {
        smooth(smoothness::no);
        convex(convexity::no);
    }
    rfunction_t clone() const override { return std::make_unique<fun1d_t>(*this); }
    scalar_t    do_vgrad(vector_cmap_t x, vector_map_t gx) const override
    {
        const auto [f, g] = m_op(x(0));
        if (gx.size() == 1) gx(0) = g;
        return f;
    }
    op_t m_op;
};

// inner(x) inside the box |x - c|_inf <= R, non-finite outside
class region_t final : public function_t
{
public:
    region_t(rfunction_t inner, vector_t center, const double radius, const int mode)
        : function_t("region", inner->size()), m_inner(std::move(inner)), m_center(std::move(center)), m_radius(radius), m_mode(mode)
    {
        convex(convexity::no);
        smooth(m_inner->smooth() ? smoothness::yes : smoothness::no);
    }
    region_t(const region_t& o)
        : function_t(o), m_inner(o.m_inner->clone()), m_center(o.m_center), m_radius(o.m_radius), m_mode(o.m_mode)
    {
    }
    rfunction_t clone() const override { return std::make_unique<region_t>(*this); }
    scalar_t    do_vgrad(vector_cmap_t x, vector_map_t gx) const override
    {
        const auto f = m_inner->vgrad(x, gx);
        double     d = 0;
        for (tensor_size_t i = 0; i < size(); ++i) d = std::max(d, std::fabs(x(i) - m_center(i)));
        if (d <= m_radius) return f;
        const bool withg = gx.size() == size();
        switch (m_mode)
        {
        case 0: if (withg) gx(0) = std::nan(""); return std::nan("");
        case 1: return HUGE_VAL;
        case 2: if (withg) gx(size() - 1) = HUGE_VAL; return f;       // finite value, infinite sub-gradient
        default: if (withg) for (tensor_size_t i = 0; i < size(); ++i) gx(i) = 0.0; return -HUGE_VAL;
        }
    }
    rfunction_t m_inner;
    vector_t    m_center;
    double      m_radius{1};
    int         m_mode{0};
};

class scaled_t final : public function_t
{
public:
    scaled_t(rfunction_t inner, const double scale)
        : function_t("scaled", inner->size()), m_inner(std::move(inner)), m_scale(scale)
    {
        convex(convexity::no);
        smooth(m_inner->smooth() ? smoothness::yes : smoothness::no);
    }
    scaled_t(const scaled_t& o) : function_t(o), m_inner(o.m_inner->clone()), m_scale(o.m_scale) {}
    rfunction_t clone() const override { return std::make_unique<scaled_t>(*this); }
    scalar_t    do_vgrad(vector_cmap_t x, vector_map_t gx) const override
    {
        const auto f = m_inner->vgrad(x, gx);
        if (gx.size() == size())
            for (tensor_size_t i = 0; i < size(); ++i) gx(i) *= m_scale;
        return f * m_scale;
    }
    rfunction_t m_inner;
    double      m_scale{1};
};

rfunction_t make_fun1d(vh::rng_t& rng)
{
    switch (rng.range(0, 5))
    {
    case 0: // hard wall: NaN at and beyond it
    {
        const auto wall = sym(rng) * 3, m = sym(rng) * 3;
        return std::make_unique<fun1d_t>("wall", [=](double x) { return x < wall ? std::make_pair((x - m) * (x - m), 2 * (x - m)) : std::make_pair(std::nan(""), std::nan("")); });
    }
    case 1: // oscillating
    {
        const auto w = logu(rng, 1e-1, 1e2), q = logu(rng, 1e-3, 1e0);
        return std::make_unique<fun1d_t>("osc", [=](double x) { return std::make_pair(std::sin(w * x) + q * x * x, w * std::cos(w * x) + 2 * q * x); });
    }
    case 2: // exponential (overflows)
    {
        const auto k = logu(rng, 1e-1, 1e2);
        return std::make_unique<fun1d_t>("exp", [=](double x) { return std::make_pair(std::exp(k * x) - x, k * std::exp(k * x) - 1.0); });
    }
    case 3: // steep kink next to the start: no improvement for many passes (value_test = 0 -> `converged` far from the minimum)
    {
        const auto s = logu(rng, 1e1, 1e4), c = sym(rng) * 0.2;
        return std::make_unique<fun1d_t>("kink", [=](double x) { return std::make_pair(s * std::fabs(x - c), x > c ? s : (x < c ? -s : 0.0)); });
    }
    case 4: // plateau: exactly zero sub-gradient on an interval
    {
        const auto a = sym(rng) * 2;
        return std::make_unique<fun1d_t>("plateau", [=](double x) { const auto d = std::fabs(x - a) - 1.0; return d > 0 ? std::make_pair(d * d, 2 * d * (x > a ? 1.0 : -1.0)) : std::make_pair(0.0, 0.0); });
    }
    default: // log barrier
    {
        const auto wall = sym(rng) * 3, c = logu(rng, 1e-3, 1e1);
        return std::make_unique<fun1d_t>("barrier", [=](double x) { return std::make_pair(-std::log(wall - x) + 0.5 * c * x * x, 1.0 / (wall - x) + c * x); });
    }
    }
}

// ---- done() events ---------------------------------------------------------------------------------------------------
struct dn_rec_t
{
    bool   iter_ok{false}, conv{false}, ret{false}, valid{false};
    size_t evals{0};
    double fx{0};
};
std::vector<dn_rec_t> g_dns;
const recorder_t*     g_rec = nullptr;

void on_event(const int kind, const void* object, const std::uint64_t a, const std::uint64_t b)
{
    const auto* st = static_cast<const solver_state_t*>(object);
    if (kind == verif::ev_solver_done)
    {
        dn_rec_t e;
        e.iter_ok = a != 0;
        e.conv    = b != 0;
        e.evals   = g_rec ? g_rec->m_log.size() : 0;
        e.fx      = st->fx();
        e.valid   = st->valid();
        g_dns.push_back(e);
    }
    else if (kind == verif::ev_solver_exit && !g_dns.empty()) { g_dns.back().ret = a != 0; }
}

long g_fails = 0;
void fail(const long id, const std::string& what)
{
    ++g_fails;
    std::printf("FAIL %ld %s\n", id, what.c_str());
}

const char* const SOLVERS[] = {"sgm", "cocob", "sda", "wda"};
long                       g_evals = 0;
std::map<std::string, long> g_hist;

long double norm2l(const vector_t& v)
{
    long double s = 0;
    for (tensor_size_t i = 0; i < v.size(); ++i) s += static_cast<long double>(v(i)) * static_cast<long double>(v(i));
    return sqrtl(s);
}
double maxabs(const vector_t& v)
{
    double m = 0;
    for (tensor_size_t i = 0; i < v.size(); ++i) m = std::max(m, std::fabs(v(i)));
    return m;
}
double dist2(const vector_t& a, const vector_t& b)
{
    long double s = 0;
    for (tensor_size_t i = 0; i < a.size(); ++i) { const long double d = static_cast<long double>(a(i)) - b(i); s += d * d; }
    return static_cast<double>(sqrtl(s));
}

void run_case(const uint64_t seed, const long id, const std::vector<std::string>& fids, const bool thorough)
{
    vh::rng_t rng(seed * 1000003ULL + static_cast<uint64_t>(id) * 7919ULL + 0xC02B);
    rng.next();
    const int body = static_cast<int>(id % 4);

    // ---- objective ---------------------------------------------------------------------------------------------------
    static const tensor_size_t DIMS[] = {1, 2, 2, 3, 4, 4, 8, 16};
    auto                       n      = DIMS[rng.range(0, thorough ? 7 : 6)];
    rfunction_t                fn;
    std::string                fname;
    const auto                 fk = rng.range(0, 13);
    if (fk <= 5)
    {
        const auto& fid = fids[static_cast<size_t>(rng.range(0, static_cast<int64_t>(fids.size()) - 1))];
        fn              = function_t::all().get(fid)->make(n, rng.range(10, 20));
    }
    else if (fk <= 7) { fn = std::make_unique<quad_t>(rng, n, logu(rng, 1, 1e3), logu(rng, 1e-2, 1e2)); }
    else if (fk <= 9) { fn = std::make_unique<pwl_t>(rng, n, static_cast<int>(rng.range(2, 9))); }
    else if (fk == 10)
    {
        vector_t c(n);
        for (tensor_size_t i = 0; i < n; ++i) c(i) = std::ldexp(static_cast<double>(rng.range(-8, 8)), -2);
        // a quarter of them with |g_i| = DBL_EPSILON exactly: the boundary of the zero-sub-gradient test (`<`, not `<=`)
        fn = std::make_unique<l1_t>(c, rng.range(0, 3) == 0 ? std::numeric_limits<double>::epsilon() : logu(rng, 1e-2, 1e3));
    }
    else { fn = make_fun1d(rng); }
    if (!fn) return;
    n     = fn->size();
    fname = fn->type_id();

    const auto radius = logu(rng, 1e-3, 10.0);
    vector_t   x0(n);
    for (tensor_size_t i = 0; i < n; ++i) x0(i) = sym(rng) * radius;
    const auto xk = rng.range(0, 11);
    if (xk == 0)
        for (tensor_size_t i = 0; i < n; ++i) x0(i) = 0.0; // often the exact minimiser: zero sub-gradient at the start
    if (xk == 1)
        for (tensor_size_t i = 0; i < n; ++i) x0(i) = std::ldexp(static_cast<double>(rng.range(-8, 8)), -2); // kinks of vl1
    if (xk == 2)
        for (tensor_size_t i = 0; i < n; ++i) x0(i) = 1.0; // minimiser of several registered functions

    const auto wrapk = rng.range(0, 13);
    if (wrapk <= 2)
    {
        fn    = std::make_unique<region_t>(std::move(fn), x0, logu(rng, 1e-3, 3.0) * (1.0 + radius), static_cast<int>(rng.range(0, 3)));
        fname = "region[" + fname + "]";
    }
    else if (wrapk == 3)
    {
        fn    = std::make_unique<scaled_t>(std::move(fn), logu(rng, 1e-220, 1e-150));
        fname = "tiny[" + fname + "]";
    }
    else if (wrapk == 4)
    {
        fn    = std::make_unique<scaled_t>(std::move(fn), logu(rng, 1e100, 1e300));
        fname = "huge[" + fname + "]";
    }
    vector_t g0(n);
    const auto f0 = fn->vgrad(x0, g0);
    if (!std::isfinite(f0)) return; // outside the property's domain

    // ---- configuration (parameters at the ends of their registered domains too) --------------------------------------------
    double eps = 1e-8;
    switch (rng.range(0, 7))
    {
    case 0: eps = 1e-1; break;
    case 1: eps = logu(rng, 1e-3, 1e-1); break;
    case 2: eps = logu(rng, 1e-300, 1e-100); break;
    default: eps = logu(rng, 1e-10, 1e-3); break;
    }
    long maxev = 100;
    switch (rng.range(0, 7))
    {
    case 0: maxev = rng.range(10, 14); break;
    case 1: maxev = rng.range(10, 40); break;
    case 2: case 3: maxev = rng.range(40, 120); break;
    default: maxev = static_cast<long>(logu(rng, 20, thorough ? 2000 : 400)); break;
    }
    long patience = 10;
    switch (rng.range(0, 3))
    {
    case 0: patience = 10; break;
    case 1: patience = rng.range(10, 12); break;
    case 2: patience = rng.range(10, 40); break;
    default: patience = rng.range(0, 1) ? 1000 : 1000000; break;
    }
    auto solver = solver_t::all().get(SOLVERS[body]);
    if (!solver) return;
    solver->parameter("solver::epsilon")   = eps;
    solver->parameter("solver::max_evals") = maxev;
    solver->parameter(std::string("solver::") + (body >= 2 ? "pdsgm" : SOLVERS[body]) + "::patience") = static_cast<int64_t>(patience);
    double p = 0;
    const auto pk = rng.range(0, 5);
    if (body == 0)
    {
        p = pk == 0 ? 0.5 : (pk == 1 ? 1.0 : (pk == 2 ? 0.75 : 0.5 + 0.5 * rng.unit()));
        solver->parameter("solver::sgm::power") = p;
    }
    else if (body == 1)
    {
        const auto name = std::string("solver::cocob::") + (fn->smooth() ? "L0-smooth" : "L0-nonsmooth");
        p = pk == 0 ? std::numeric_limits<double>::max() : (pk == 1 ? 1e-300 : (pk == 2 ? solver->parameter(name).value<scalar_t>() : logu(rng, 1e-20, 1e6)));
        solver->parameter(name) = p;
        // the OTHER L0 gets a value that would show if the body picked it
        solver->parameter(std::string("solver::cocob::") + (fn->smooth() ? "L0-nonsmooth" : "L0-smooth")) = p * 0.5 + 1.0;
    }
    else
    {
        p = pk == 0 ? std::numeric_limits<double>::max() : (pk == 1 ? 1e-300 : (pk == 2 ? 1.0 : logu(rng, 1e-6, 1e6)));
        solver->parameter("solver::pdsgm::D") = p;
    }

    // ---- run the real thing -------------------------------------------------------------------------------------------
    const auto rec = recorder_t{*fn};
    g_rec          = &rec;
    g_dns.clear();
    const auto state = solver->minimize(rec, x0, make_null_logger());
    g_rec            = nullptr;
    const auto& log  = rec.m_log;
    g_evals += static_cast<long>(log.size());

    // ---- print ----------------------------------------------------------------------------------------------------------
    std::printf("BRUN %ld %s %d %s %ld | %s %ld %ld %s %d | %s\n", id, SOLVERS[body], body, fname.c_str(), static_cast<long>(n), vh::hexf(eps).c_str(),
                maxev, patience, vh::hexf(p).c_str(), fn->smooth() ? 1 : 0, hv(x0).c_str());
    for (size_t k = 0; k < log.size(); ++k)
    {
        const auto& e = log[k];
        vector_t    g = e.withg ? e.g : vector_t{};
        const auto  n2 = e.withg ? g.lpNorm<2>() : std::nan("");                 // the library's own expression
        const auto  ni = e.withg ? g.lpNorm<Eigen::Infinity>() : std::nan("");
        const auto  pw = body == 0 ? std::pow(static_cast<int>(k) + 1, p) : std::nan("");  // as sgm.cpp: std::pow(iteration + 1, power)
        std::printf("BEV %ld %zu %s %s %s %s | %s | %s\n", id, k, vh::hexf(e.f).c_str(), vh::hexf(n2).c_str(), vh::hexf(ni).c_str(), vh::hexf(pw).c_str(),
                    hv(e.x).c_str(), e.withg ? hv(e.g).c_str() : "-");
        // cross-checks of the oracle inputs against an independent recomputation, within rounding
        if (e.withg && allfin(g))
        {
            const auto ref = static_cast<double>(norm2l(g));
            if (std::isfinite(ref) && ref > 1e-150 && ref < 1e150 && !(std::fabs(n2 - ref) <= 1e-13 * ref))
                fail(id, "oracle-input-norm2-differs-from-long-double evaluation=" + std::to_string(k) + " norm2=" + vh::hexf(n2) + " reference=" + vh::hexf(ref));
            if (!same_bits(ni, maxabs(g))) fail(id, "oracle-input-norm-inf-differs-from-max-abs evaluation=" + std::to_string(k));
            if (std::isfinite(ref) && ref > 1e-150 && ref < 1e150 && !(maxabs(g) <= n2)) fail(id, "norm2-below-norm-inf evaluation=" + std::to_string(k));
        }
        if (body == 0)
        {
            const auto ref = static_cast<double>(powl(static_cast<long double>(k + 1), static_cast<long double>(p)));
            if (!(std::fabs(pw - ref) <= 4e-16 * ref)) fail(id, "oracle-input-pow-differs-from-long-double evaluation=" + std::to_string(k));
        }
    }
    for (size_t j = 0; j < g_dns.size(); ++j)
    {
        const auto& e = g_dns[j];
        std::printf("BDN %ld %zu %d %d %d %zu %s %d\n", id, j, e.iter_ok ? 1 : 0, e.conv ? 1 : 0, e.ret ? 1 : 0, e.evals, vh::hexf(e.fx).c_str(), e.valid ? 1 : 0);
    }
    const auto vtest = state.value_test(static_cast<tensor_size_t>(patience));
    std::printf("BRET %ld %d %ld %ld %ld %ld %s %s | %s | %s\n", id, static_cast<int>(state.status()), static_cast<long>(state.fcalls()),
                static_cast<long>(state.gcalls()), static_cast<long>(rec.fcalls()), static_cast<long>(rec.gcalls()), vh::hexf(vtest).c_str(),
                vh::hexf(state.fx()).c_str(), hv(state.x()).c_str(), hv(state.gx()).c_str());

    // ---- the property's own oracle (independent of the model) ----------------------------------------------------------
    const auto status = static_cast<int>(state.status()); // 0 max_iters, 1 converged, 2 failed
    long       nf = 0, ng = 0;
    for (const auto& e : log) { nf += 1; ng += e.withg ? 1 : 0; }
    const auto ne        = static_cast<long>(log.size());
    const bool zero_exit = !g_dns.empty() && g_dns.back().evals == (g_dns.size() >= 2 ? g_dns[g_dns.size() - 2].evals : 1);
    // (1) termination within the budget: one evaluation (value + sub-gradient) per pass, evaluations <= max(2, max_evals + 1)
    if (nf != ng) fail(id, "evaluation-without-gradient");
    if (nf + ng > std::max<long>(2, maxev + 1)) fail(id, "budget-overshoot evaluations=" + std::to_string(nf + ng) + " max_evals=" + std::to_string(maxev));
    if (nf + ng > maxev + 1100 + 8 * static_cast<long>(n)) fail(id, "budget-overshoot-property-constant evaluations=" + std::to_string(nf + ng));
    if (static_cast<long>(g_dns.size()) != ne - 1 + (zero_exit ? 1 : 0)) fail(id, "done-calls-differ-from-passes done=" + std::to_string(g_dns.size()) + " evaluations=" + std::to_string(ne));
    for (size_t j = 0; j < g_dns.size(); ++j)
    {
        const auto expect = std::min<size_t>(j + 2, log.size());
        if (g_dns[j].evals != expect) fail(id, "not-exactly-one-evaluation-per-pass done=" + std::to_string(j) + " evaluations=" + std::to_string(g_dns[j].evals));
        if (j + 1 < g_dns.size() && g_dns[j].ret) fail(id, "loop-continues-after-done-returned-true");
    }
    if (!g_dns.empty() && !g_dns.back().ret && nf + ng < maxev) fail(id, "loop-left-below-the-budget-without-done");
    if (state.fcalls() > nf || state.gcalls() > ng) fail(id, "reported-calls-exceed-actual");
    if (rec.fcalls() != nf || rec.gcalls() != ng) fail(id, "function-counters-differ-from-actual");
    // (2) the returned triple is a recorded evaluation; it is the best finite one (first of the strictly smallest values)
    {
        long hit = -1, best = 0;
        for (long k = 0; k < ne; ++k)
        {
            if (hit < 0 && same_bits(log[k].x, state.x()) && same_bits(log[k].f, state.fx()) && same_bits(log[k].g, state.gx())) hit = k;
            if (std::isfinite(log[k].f) && log[k].f < log[best].f) best = k;
        }
        if (hit < 0) fail(id, "returned-triple-not-evaluated");
        if (!(state.fx() <= f0)) fail(id, "worse-than-start f=" + vh::hexf(state.fx()) + " f0=" + vh::hexf(f0));
        if (!same_bits(state.fx(), log[best].f) || !same_bits(state.x(), log[best].x))
            fail(id, "returned-state-is-not-the-best-evaluation f=" + vh::hexf(state.fx()) + " best=" + vh::hexf(log[best].f) + " at evaluation " + std::to_string(best));
        if (status != 2 && !(std::isfinite(state.fx()) && allfin(state.x()))) fail(id, "non-finite-result-without-failed-status");
        if (status != 2 && !g_dns.empty() && !state.valid()) fail(id, "invalid-state-without-failed-status");
    }
    // (3) status facts
    {
        if (status < 0 || status > 2) fail(id, "status-not-in-{max_iters,converged,failed}");
        const auto* last = g_dns.empty() ? nullptr : &g_dns.back();
        if (status == 1)
        {
            if (!last || !last->ret || !last->iter_ok || !last->conv) fail(id, "converged-without-a-done-call-with-both-flags");
            // converged means: value_test(patience) < epsilon on the returned state, or the exact zero-sub-gradient exit
            const bool by_value = vtest < eps;
            const bool by_zero  = zero_exit && maxabs(log.back().g) < std::numeric_limits<double>::epsilon();
            if (zero_exit ? !by_zero : !by_value)
                fail(id, "converged-without-criterion value_test=" + vh::hexf(vtest) + " eps=" + vh::hexf(eps) + " zero_exit=" + std::to_string(zero_exit));
            if (body == 1 && zero_exit) fail(id, "cocob-has-no-zero-gradient-exit");
        }
        if (status == 2 && last && last->iter_ok && last->valid) fail(id, "failed-without-cause");
        if (status == 2 && !last) fail(id, "failed-without-done-call");
        if (status == 0 && last && last->ret) fail(id, "max-iters-after-done-returned-true");
        if (last && !zero_exit)
        {
            // the flags of the last done(): iter_ok = isfinite(f of the last evaluation); converged = value_test < epsilon
            if (last->iter_ok != std::isfinite(log.back().f)) fail(id, "iter-ok-differs-from-isfinite");
            if (last->conv != (vtest < eps)) fail(id, "converged-flag-differs-from-value-test value_test=" + vh::hexf(vtest) + " eps=" + vh::hexf(eps));
        }
        // the zero-sub-gradient exit is taken exactly when max |g| < DBL_EPSILON (sgm, sda, wda), on NaN-free sub-gradients
        if (body != 1)
        {
            for (long k = 0; k < ne; ++k)
            {
                if (!allfin(log[k].g)) continue;
                const bool small = maxabs(log[k].g) < std::numeric_limits<double>::epsilon();
                const bool entered = nf + ng >= 0 && (2 * (k + 1) < maxev); // the loop condition held with k + 1 evaluations made
                const bool is_last = k + 1 == ne;
                if (small && entered && !(is_last && zero_exit) && !(is_last && last && last->ret && !zero_exit))
                    fail(id, "zero-sub-gradient-exit-not-taken evaluation=" + std::to_string(k));
                if (!small && is_last && zero_exit) fail(id, "zero-sub-gradient-exit-taken-with-max-abs-g=" + vh::hexf(maxabs(log[k].g)));
            }
        }
    }
    // (4) what the per-body invariants imply for the recorded points
    if (body == 0)
    {
        // sgm: |x_{k+1} - x_k|_2 = lambda_k = (k + 1)^-power: positive, at most 1, decreasing in k
        for (long k = 0; k + 1 < ne; ++k)
        {
            if (!allfin(log[k].g) || !allfin(log[k].x) || !allfin(log[k + 1].x)) continue;
            const auto gn = static_cast<double>(norm2l(log[k].g));
            if (!(gn > 1e-140 && gn < 1e140)) continue;
            const auto step   = dist2(log[k + 1].x, log[k].x);
            const auto lambda = 1.0 / std::pow(static_cast<double>(k + 1), p);
            const auto xs     = std::max(maxabs(log[k].x), maxabs(log[k + 1].x));
            if (!(std::fabs(step - lambda) <= 1e-9 * lambda + 8e-16 * xs * std::sqrt(static_cast<double>(n))))
                fail(id, "sgm-step-length-differs-from-(k+1)^-power pass=" + std::to_string(k) + " step=" + vh::hexf(step) + " lambda=" + vh::hexf(lambda));
        }
    }
    if (body == 1 && ne >= 2 && allfin(log[0].g) && allfin(log[1].x))
    {
        // cocob: |x_1 - x0|_i = |tanh(g_i / (|g_i| + L_i))| < 1, and 0 where g_i = 0
        for (tensor_size_t i = 0; i < n; ++i)
        {
            const auto d = std::fabs(log[1].x(i) - x0(i));
            if (!(d <= 1.0 + 1e-9 * std::fabs(x0(i)))) fail(id, "cocob-first-bet-larger-than-one coordinate=" + std::to_string(i));
            if (log[0].g(i) == 0.0 && d != 0.0) fail(id, "cocob-moves-without-gradient coordinate=" + std::to_string(i));
        }
    }
    if (body >= 2 && ne >= 2 && allfin(log[0].g) && allfin(log[1].x))
    {
        // sda / wda: the first step has length sqrt(2 D) (sk1 = lambda g0, betah = |g0| / sqrt(2D) resp. 1 / sqrt(2D))
        const auto gn = static_cast<double>(norm2l(log[0].g));
        const auto want = std::sqrt(2.0 * p);
        const auto xs   = std::max(maxabs(x0), maxabs(log[1].x));
        if (gn > 1e-140 && gn < 1e140 && std::isfinite(want) && want < 1e150 && want > 1e-150)
        {
            const auto step = dist2(log[1].x, x0);
            if (!(std::fabs(step - want) <= 1e-9 * want + 8e-16 * xs * std::sqrt(static_cast<double>(n))))
                fail(id, "pdsgm-first-step-differs-from-sqrt(2D) step=" + vh::hexf(step) + " sqrt2D=" + vh::hexf(want));
        }
    }
    // `converged` far from the optimum (not a violation: C02 does not promise optimality; counted for the evidence)
    if (status == 1 && !zero_exit && state.valid() && maxabs(state.gx()) > 1e-2 * std::max(1.0, std::fabs(state.fx())))
        g_hist["converged_by_value_test_with_large_gradient"] += 1;
    g_hist[std::string("status=") + std::to_string(status)] += 1;
    g_hist[std::string("body=") + SOLVERS[body]] += 1;
    if (zero_exit) g_hist["zero_gradient_exit"] += 1;
    if (zero_exit && ne == 1) g_hist["zero_gradient_at_the_start"] += 1;
    if (!g_dns.empty() && !g_dns.back().iter_ok) g_hist["last_value_not_finite"] += 1;
    if (!g_dns.empty() && !g_dns.back().ret) g_hist["budget_exit"] += 1;
    if (g_dns.empty()) g_hist["no_pass"] += 1;
    std::printf("BEND %ld\n", id);
}
} // namespace

int main(int argc, char** argv)
{
    std::setvbuf(stdout, nullptr, _IOLBF, 0);
    const std::string tier     = argc > 1 ? argv[1] : "quick";
    const long        only     = argc > 2 ? std::atol(argv[2]) : -1;
    const bool        thorough = tier == "thorough";
    const auto        seed     = vh::env_seed();
    verif::g_event_hook.store(&on_event);

    std::vector<std::string> fids;
    for (const auto& fid : function_t::all().ids())
    {
        const auto f = function_t::all().get(fid)->make(2, 10);
        if (f) fids.push_back(fid);
    }
    const long cases = thorough ? 16000 : 800;
    long       runs  = 0;
    for (long id = 0; id < cases; ++id)
    {
        if (only >= 0 && id != only) continue;
        run_case(seed, id, fids, thorough);
        ++runs;
    }
    std::string h;
    for (const auto& kv : g_hist) h += " " + kv.first + "=" + std::to_string(kv.second);
    std::printf("BHIST%s\n", h.c_str());
    std::printf("DONE runs=%ld evals=%ld fails=%ld functions=%zu\n", runs, g_evals, g_fails, fids.size());
    return 0;
}
