// C12 harness: runs the real k-fold / random splitters, the index samplers (sample_with(out)_replacement,
// weighted), gboost::sampler_t and sample_from_ball of the library built from the working tree.
//
// For every call it prints one line with the inputs, the *oracle answers* of the C++ standard library
// (the position permutation that the same std::shuffle produces on arange(n) with the same generator state,
// resp. the positions drawn by the same uniform_int/discrete distribution) and what the implementation
// returned; the extracted Coq model recomputes the result from inputs + oracle answers (ocaml/c12_driver.ml).
// Independently of the model, the property itself is checked here on what the implementation returned
// (FAIL lines carry the complete failing case).
//
// Usage: c12_split quick|thorough        (everything derives from VERIF_SEED)
//        c12_split replay < lines         (re-runs `KFOLD a | samples`, `RANDOM a | samples`, `SWOR/SWR/SWRW ...`, `BALLX n,radius,state | x0` lines)
#include "common.h"
#include <nano/core/numeric.h>
#include <nano/core/random.h>
#include <nano/core/sampling.h>
#include <nano/gboost/sampler.h>
#include <nano/splitter.h>
#include <algorithm>
#include <atomic>
#include <iostream>
#include <mutex>
#include <numeric>
#include <thread>
#include <csignal>
#include <unistd.h>

using namespace nano;
using ivec = std::vector<tensor_size_t>;

static std::mutex        g_out;
static std::atomic<long> g_fail{0}, g_lines{0}, g_grid{0}, g_pairs{0};

// the case being executed by this thread, for the crash handler (a complete replayable line unless very long)
static thread_local char g_current[8192] = "";
static void set_current(const std::string& head)
{
    std::snprintf(g_current, sizeof(g_current), "%s", head.c_str());
}
static void on_crash(int sig)
{
    char      buf[8400];
    const int len = std::snprintf(buf, sizeof(buf), "\nFAIL crash (signal %d) inside the library call :: %s\n", sig, g_current);
    if (len > 0) { const auto r = ::write(1, buf, static_cast<size_t>(std::min<int>(len, static_cast<int>(sizeof(buf)) - 1))); (void)r; }
    ::_exit(70);
}

static void emit(const std::string& s)
{
    const std::lock_guard<std::mutex> lock(g_out);
    std::fputs(s.c_str(), stdout);
    std::fputc('\n', stdout);
}

static void fail(const std::string& what, const std::string& line)
{
    ++g_fail;
    emit("FAIL " + what + " :: " + line);
}

template <class tvec>
static std::string js(const tvec& v)
{
    return vh::join(std::begin(v), std::end(v));
}

static indices_t to_indices(const ivec& v)
{
    indices_t t(static_cast<tensor_size_t>(v.size()));
    std::copy(v.begin(), v.end(), std::begin(t));
    return t;
}

static ivec to_vec(const indices_t& t)
{
    return ivec(std::begin(t), std::end(t));
}

// ---- oracle answers of the standard library ---------------------------------------------------------------
// the position permutation std::shuffle applies for this generator state: result[i] = input[perm[i]]
static ivec shuffle_perm(const tensor_size_t n, rng_t& rng)
{
    ivec p(static_cast<size_t>(n));
    std::iota(p.begin(), p.end(), tensor_size_t{0});
    std::shuffle(p.begin(), p.end(), rng);
    return p;
}

// ---- input generator: duplicate-free index sets ---------------------------------------------------------------
static ivec gen_samples(vh::rng_t& g, const tensor_size_t n, const int kind)
{
    ivec v(static_cast<size_t>(n));
    switch (kind)
    {
    case 0: // 0..n-1
        std::iota(v.begin(), v.end(), tensor_size_t{0});
        break;
    case 1: // contiguous block somewhere
        std::iota(v.begin(), v.end(), static_cast<tensor_size_t>(g.range(1, 100000)));
        break;
    case 2: // increasing with small random gaps
    {
        tensor_size_t cur = g.range(0, 50);
        for (auto& x : v) { x = cur; cur += g.range(1, 9); }
        break;
    }
    case 3: // sparse, huge values, arbitrary order
    {
        tensor_size_t cur = g.range(0, 1000);
        for (auto& x : v) { x = cur; cur += g.range(1, (int64_t{1} << 40) / std::max<tensor_size_t>(n, 1)); }
        for (size_t i = v.size(); i > 1; --i) std::swap(v[i - 1], v[static_cast<size_t>(g.range(0, static_cast<int64_t>(i) - 1))]);
        break;
    }
    default: // small gaps, arbitrary order (e.g. the training part of an earlier split, permuted)
    {
        tensor_size_t cur = g.range(0, 5);
        for (auto& x : v) { x = cur; cur += g.range(1, 3); }
        for (size_t i = v.size(); i > 1; --i) std::swap(v[i - 1], v[static_cast<size_t>(g.range(0, static_cast<int64_t>(i) - 1))]);
        break;
    }
    }
    return v;
}

// ---- the property on one (train, valid) pair, coded independently of the model ----------------------------------
static const char* check_pair(const ivec& sorted_input, const ivec& tr, const ivec& va)
{
    if (!std::is_sorted(tr.begin(), tr.end())) return "training part not sorted";
    if (!std::is_sorted(va.begin(), va.end())) return "validation part not sorted";
    ivec common;
    std::set_intersection(tr.begin(), tr.end(), va.begin(), va.end(), std::back_inserter(common));
    if (!common.empty()) return "training and validation parts overlap";
    ivec all;
    std::merge(tr.begin(), tr.end(), va.begin(), va.end(), std::back_inserter(all));
    if (all.size() != sorted_input.size()) return "training+validation size differs from the input size";
    if (all != sorted_input) return "training+validation is not exactly the input set";
    return nullptr;
}

static std::string splits_str(const splitter_t::splits_t& splits)
{
    std::string s;
    for (size_t i = 0; i < splits.size(); ++i)
    {
        if (i) s += " / ";
        s += js(splits[i].first) + " ; " + js(splits[i].second);
    }
    return s;
}

struct splitters_t
{
    rsplitter_t kfold  = splitter_t::all().get("k-fold");
    rsplitter_t random = splitter_t::all().get("random");
};

static bool same_splits(const splitter_t::splits_t& a, const splitter_t::splits_t& b)
{
    if (a.size() != b.size()) return false;
    for (size_t i = 0; i < a.size(); ++i)
        if (to_vec(a[i].first) != to_vec(b[i].first) || to_vec(a[i].second) != to_vec(b[i].second)) return false;
    return true;
}

// one k-fold call: oracle answer, implementation, direct property checks, optional line for the model
// determinism: 0 = not checked, 1 = second call on the same object, 2 = also a fresh object and a clone
static void run_kfold(splitters_t& sp, const ivec& samples, const tensor_size_t folds, const uint64_t seed, const bool print,
                      const int determinism)
{
    const auto n = static_cast<tensor_size_t>(samples.size());
    auto&      s = *sp.kfold;
    s.parameter("splitter::seed")  = seed;
    s.parameter("splitter::folds") = folds;

    auto       rng  = make_rng(seed);
    const auto perm = shuffle_perm(n, rng);

    std::string head = "KFOLD " + std::to_string(seed) + "," + std::to_string(folds) + " | " + js(samples);
    set_current(head);
    const auto splits = s.split(to_indices(samples));
    std::string line = head + " | " + js(perm) + " = " + splits_str(splits);
    if (print) { emit(line); ++g_lines; }
    ++g_grid;

    ivec sorted_input = samples;
    std::sort(sorted_input.begin(), sorted_input.end());

    if (static_cast<tensor_size_t>(splits.size()) != folds) { fail("k-fold: number of splits != folds", line); return; }
    ivec all_valid;
    tensor_size_t vmin = n, vmax = 0;
    for (tensor_size_t f = 0; f < folds; ++f)
    {
        const auto tr = to_vec(splits[static_cast<size_t>(f)].first);
        const auto va = to_vec(splits[static_cast<size_t>(f)].second);
        ++g_pairs;
        if (const auto* msg = check_pair(sorted_input, tr, va)) { fail(std::string("k-fold fold ") + std::to_string(f) + ": " + msg, line); return; }
        const auto vs = static_cast<tensor_size_t>(va.size());
        vmin = std::min(vmin, vs);
        vmax = std::max(vmax, vs);
        all_valid.insert(all_valid.end(), va.begin(), va.end());
    }
    if (vmax - vmin >= folds) { fail("k-fold: validation fold sizes differ by >= folds", line); return; }
    std::sort(all_valid.begin(), all_valid.end());
    if (all_valid != sorted_input) { fail("k-fold: the validation folds do not partition the input", line); return; }

    if (determinism >= 1)
    {
        if (!same_splits(splits, s.split(to_indices(samples)))) { fail("k-fold: second call with equal seed differs", line); return; }
    }
    if (determinism >= 2)
    {
        auto fresh = splitter_t::all().get("k-fold");
        fresh->parameter("splitter::folds") = folds;
        fresh->parameter("splitter::seed")  = seed;
        if (!same_splits(splits, fresh->split(to_indices(samples)))) { fail("k-fold: fresh splitter with equal seed differs", line); return; }
        if (!same_splits(splits, s.clone()->split(to_indices(samples)))) { fail("k-fold: clone with equal seed differs", line); return; }
    }
}

static void run_random(splitters_t& sp, const ivec& samples, const tensor_size_t folds, const uint64_t seed, const tensor_size_t perc,
                       const bool print, const int determinism)
{
    const auto n = static_cast<tensor_size_t>(samples.size());
    auto&      s = *sp.random;
    s.parameter("splitter::seed")               = seed;
    s.parameter("splitter::folds")              = folds;
    s.parameter("splitter::random::train_per") = perc;

    std::string head = "RANDOM " + std::to_string(seed) + "," + std::to_string(folds) + "," + std::to_string(perc) + " | " + js(samples);
    set_current(head);
    const auto splits = s.split(to_indices(samples));
    std::string line = head;
    if (print)
    {
        auto rng = make_rng(seed);
        line += " | ";
        for (tensor_size_t f = 0; f < folds; ++f) line += (f ? " / " : "") + js(shuffle_perm(n, rng));
        line += " = " + splits_str(splits);
        emit(line);
        ++g_lines;
    }
    ++g_grid;

    ivec sorted_input = samples;
    std::sort(sorted_input.begin(), sorted_input.end());

    if (static_cast<tensor_size_t>(splits.size()) != folds) { fail("random: number of splits != folds", line); return; }
    // round(perc * n / 100), coded independently of idiv
    const auto expected_train = static_cast<tensor_size_t>(std::llround(static_cast<double>(perc * n) / 100.0));
    for (tensor_size_t f = 0; f < folds; ++f)
    {
        const auto tr = to_vec(splits[static_cast<size_t>(f)].first);
        const auto va = to_vec(splits[static_cast<size_t>(f)].second);
        ++g_pairs;
        if (const auto* msg = check_pair(sorted_input, tr, va)) { fail(std::string("random fold ") + std::to_string(f) + ": " + msg, line); return; }
        if (static_cast<tensor_size_t>(tr.size()) != expected_train)
        {
            fail("random fold " + std::to_string(f) + ": training size " + std::to_string(tr.size()) + " != round(perc*n/100) = " + std::to_string(expected_train), line);
            return;
        }
    }
    if (determinism >= 1)
    {
        if (!same_splits(splits, s.split(to_indices(samples)))) { fail("random: second call with equal seed differs", line); return; }
    }
    if (determinism >= 2)
    {
        auto fresh = splitter_t::all().get("random");
        fresh->parameter("splitter::random::train_per") = perc;
        fresh->parameter("splitter::folds")              = folds;
        fresh->parameter("splitter::seed")               = seed;
        if (!same_splits(splits, fresh->split(to_indices(samples)))) { fail("random: fresh splitter with equal seed differs", line); return; }
        if (!same_splits(splits, s.clone()->split(to_indices(samples)))) { fail("random: clone with equal seed differs", line); return; }
    }
}

// ---- samplers ---------------------------------------------------------------------------------------------------
static std::string rng_str(const rng_t& rng)
{
    std::ostringstream o;
    o << rng;
    return o.str();
}

static rng_t rng_from(const std::string& s)
{
    rng_t              rng;
    std::istringstream i(s);
    i >> rng;
    return rng;
}

static bool member(const ivec& sorted_input, const tensor_size_t x)
{
    return std::binary_search(sorted_input.begin(), sorted_input.end(), x);
}

// sample_without_replacement(samples, count, rng); `rng` is advanced exactly like the implementation's generator
static void run_swor(const ivec& samples, const tensor_size_t count, rng_t& rng, const int via, const indices_t* given = nullptr,
                     std::string* oracle_out = nullptr)
{
    const auto n     = static_cast<tensor_size_t>(samples.size());
    const auto state = rng_str(rng);
    auto       copy  = rng;
    const auto perm  = shuffle_perm(n, copy);
    if (oracle_out != nullptr) *oracle_out = js(perm);
    indices_t  res;
    if (given != nullptr) { res = *given; rng = copy; }
    else
    {
        const auto input = to_indices(samples);
        set_current("SWOR " + std::to_string(count) + ",0," + state + " | " + js(samples));
        res = sample_without_replacement(input, count, rng);
    }
    const auto line = "SWOR " + std::to_string(count) + "," + std::to_string(via) + "," + state + " | " + js(samples) + " | " + js(perm) + " = " + js(res);
    emit(line);
    ++g_lines;
    if (!(rng == copy)) fail("without replacement: generator state after the call differs from one std::shuffle of n elements", line);
    ivec sorted_input = samples;
    std::sort(sorted_input.begin(), sorted_input.end());
    const auto r = to_vec(res);
    if (static_cast<tensor_size_t>(r.size()) != count) { fail("without replacement: size != count", line); return; }
    for (size_t i = 0; i < r.size(); ++i)
    {
        if (i > 0 && r[i - 1] >= r[i]) { fail("without replacement: not strictly increasing (unsorted or repeated index)", line); return; }
        if (!member(sorted_input, r[i])) { fail("without replacement: returned index is not a member of the input", line); return; }
    }
}

static void run_swr(const ivec& samples, const tensor_size_t count, rng_t& rng, const int via, const indices_t* given = nullptr,
                    std::string* oracle_out = nullptr)
{
    const auto n     = static_cast<tensor_size_t>(samples.size());
    const auto state = rng_str(rng);
    auto       copy  = rng;
    auto       udist = make_udist<tensor_size_t>(0, n - 1);
    ivec       picks(static_cast<size_t>(count));
    for (auto& p : picks) p = udist(copy);
    if (oracle_out != nullptr) *oracle_out = js(picks);
    indices_t res;
    if (given != nullptr) { res = *given; rng = copy; }
    else
    {
        const auto input = to_indices(samples);
        set_current("SWR " + std::to_string(count) + ",0," + state + " | " + js(samples));
        res = sample_with_replacement(input, count, rng);
    }
    const auto line = "SWR " + std::to_string(count) + "," + std::to_string(via) + "," + state + " | " + js(samples) + " | " + js(picks) + " = " + js(res);
    emit(line);
    ++g_lines;
    if (!(rng == copy)) fail("with replacement: generator state after the call differs from `count` uniform draws", line);
    ivec sorted_input = samples;
    std::sort(sorted_input.begin(), sorted_input.end());
    const auto r = to_vec(res);
    if (static_cast<tensor_size_t>(r.size()) != count) { fail("with replacement: size != count", line); return; }
    if (!std::is_sorted(r.begin(), r.end())) { fail("with replacement: not sorted", line); return; }
    for (const auto x : r)
        if (!member(sorted_input, x)) { fail("with replacement: returned index is not a member of the input", line); return; }
}

static void run_swrw(const ivec& samples, const std::vector<double>& weights, const tensor_size_t count, rng_t& rng, const int via,
                     const indices_t* given = nullptr, std::string* oracle_out = nullptr)
{
    const auto n     = static_cast<tensor_size_t>(samples.size());
    const auto state = rng_str(rng);
    auto       copy  = rng;
    tensor1d_t w(n);
    for (tensor_size_t i = 0; i < n; ++i) w(i) = weights[static_cast<size_t>(i)];
    auto wdist = std::discrete_distribution<tensor_size_t>(std::begin(w), std::end(w));
    ivec picks(static_cast<size_t>(count));
    for (auto& p : picks) p = wdist(copy);
    if (oracle_out != nullptr) *oracle_out = js(picks);
    indices_t res;
    if (given != nullptr) { res = *given; rng = copy; }
    else
    {
        std::string ws0;
        for (size_t i = 0; i < weights.size(); ++i) ws0 += (i ? "," : "") + vh::hexf(weights[i]);
        const auto input = to_indices(samples);
        set_current("SWRW " + std::to_string(count) + ",0," + state + " | " + js(samples) + " | " + ws0);
        res = sample_with_replacement(input, w, count, rng);
    }
    std::string ws;
    for (size_t i = 0; i < weights.size(); ++i) ws += (i ? "," : "") + vh::hexf(weights[i]);
    const auto line = "SWRW " + std::to_string(count) + "," + std::to_string(via) + "," + state + " | " + js(samples) + " | " + ws + " | " + js(picks) + " = " + js(res);
    emit(line);
    ++g_lines;
    if (!(rng == copy)) fail("weighted: generator state after the call differs from `count` discrete draws", line);
    // index value -> weight
    std::vector<std::pair<tensor_size_t, double>> byval;
    for (size_t i = 0; i < samples.size(); ++i) byval.emplace_back(samples[i], weights[i]);
    std::sort(byval.begin(), byval.end());
    const auto r = to_vec(res);
    if (static_cast<tensor_size_t>(r.size()) != count) { fail("weighted: size != count", line); return; }
    if (!std::is_sorted(r.begin(), r.end())) { fail("weighted: not sorted", line); return; }
    for (const auto x : r)
    {
        const auto it = std::lower_bound(byval.begin(), byval.end(), std::make_pair(x, -1.0));
        if (it == byval.end() || it->first != x) { fail("weighted: returned index is not a member of the input", line); return; }
        if (!(it->second > 0.0)) { fail("weighted: returned index " + std::to_string(x) + " has zero weight", line); return; }
    }
}

// weights with zeros; never all zero (precondition of std::discrete_distribution: positive sum)
static std::vector<double> gen_weights(vh::rng_t& g, const tensor_size_t n)
{
    std::vector<double> w(static_cast<size_t>(n), 0.0);
    const auto          kind = g.range(0, 6);
    // kind 6: weights are unnormalised by contract (gboost passes raw gradient norms / losses): a vector whose positive
    // entries are all of one tiny magnitude 2^-60 .. 2^-1000 (sum far below machine epsilon, down to denormals) is legal
    const auto          tiny = std::ldexp(1.0, -static_cast<int>(g.range(60, 1000)));
    for (auto& x : w)
    {
        switch (kind)
        {
        case 0: x = g.unit() < 0.5 ? 0.0 : g.unit(); break;                      // half zeros
        case 1: x = g.unit() < 0.9 ? 0.0 : static_cast<double>(g.range(1, 5)); break; // mostly zeros
        case 2: x = g.unit() < 0.1 ? 0.0 : std::ldexp(1.0, static_cast<int>(g.range(-40, 20))); break; // wide dynamic range
        case 3: x = 0.0; break;                                                      // a single positive weight (set below)
        case 4: x = g.unit() < 0.3 ? 0.0 : 1.0; break;                               // equal weights
        case 5: x = g.unit() < 0.5 ? 0.0 : 1e-9 * g.unit(); break;                   // small weights
        default: x = g.unit() < 0.5 ? 0.0 : tiny * (0.5 + g.unit()); break;          // tiny weights (sum << epsilon)
        }
    }
    if (kind == 3 || std::all_of(w.begin(), w.end(), [](double x) { return x <= 0.0; }))
        w[static_cast<size_t>(g.range(0, n - 1))] = (kind == 6 ? tiny : 1.0) * (0.5 + g.unit());
    // zeros at both ends are the interesting boundary of the cumulative table
    if (n >= 3 && g.unit() < 0.5) { w.front() = 0.0; w.back() = 0.0; if (std::all_of(w.begin(), w.end(), [](double x) { return x <= 0.0; })) w[1] = kind == 6 ? tiny : 1.0; }
    return w;
}

static std::string hexs(const double* p, const tensor_size_t n)
{
    std::string s;
    for (tensor_size_t i = 0; i < n; ++i) s += (i ? "," : "") + vh::hexf(p[i]);
    return s;
}

// one call of sample_from_ball(x0, radius, rng).
// Extension: before the call the harness re-derives, on a copy of the generator, what the library draws (the same three
// libstdc++ distributions constructed and called in the same order): the deviates u, the uniform value, z = pow(unif, 1/n)
// (libm) and the norm |u|_2 (the same Eigen reduction on the same kind of map). These are the oracle inputs of the binary64
// twin (BALLX line: the element-wise part is recomputed bit for bit by the extracted model). The direct oracle is the PROVED
// bound of C12_fl_ball: |x - x0|_2 <= radius (1 + gamma_{n+5}) + 2^-53 |x0|_2, gamma_k = k u / (1 - k u), evaluated in long
// double (relative slack 2^-60 for the evaluation itself).
static void run_ball_case(const vector_t& x0, const double radius, rng_t& rng)
{
    const auto n     = x0.size();
    const auto state = rng_str(rng);
    // ---- oracle inputs -------------------------------------------------------------------------------------------------------
    auto     copy = rng;
    vector_t dev{n};
    double   unif = 0.0, z = 0.0, nrm = 0.0;
    {
        auto sign_dist    = std::discrete_distribution({1, 1});
        auto epsilon_dist = std::normal_distribution<scalar_t>{0.5, 2.0};
        auto scale_dist   = std::uniform_real_distribution<scalar_t>(0.0, 1.0);
        vector_map_t xm   = dev.tensor();
        for (tensor_size_t k = 0; k < n; ++k) xm(k) = epsilon_dist(copy) * (sign_dist(copy) == 0 ? -1.0 : +1.0);
        unif = scale_dist(copy);
        z    = std::pow(unif, 1.0 / static_cast<scalar_t>(n));
        nrm  = xm.lpNorm<2>();
    }
    const auto head = "BALLX " + std::to_string(n) + "," + vh::hexf(radius) + "," + state + " | " + hexs(x0.data(), n);
    set_current(head);
    // ---- the library ---------------------------------------------------------------------------------------------------------------
    const auto x = sample_from_ball(x0, radius, rng);
    long double d2 = 0.0L, n0 = 0.0L, su = 0.0L;
    bool        finite = x.size() == n;
    for (tensor_size_t i = 0; finite && i < n; ++i)
    {
        const long double d = static_cast<long double>(x(i)) - static_cast<long double>(x0(i));
        d2 += d * d;
        n0 += static_cast<long double>(x0(i)) * static_cast<long double>(x0(i));
        su += static_cast<long double>(dev(i)) * static_cast<long double>(dev(i));
        finite = finite && std::isfinite(x(i));
    }
    const long double dist  = std::sqrt(d2);
    const long double u53   = std::ldexp(1.0L, -53);
    const long double k     = static_cast<long double>(n + 5);
    const long double gam   = k * u53 / (1.0L - k * u53);
    const long double slack = 1.0L + std::ldexp(1.0L, -60);
    const long double bound = (static_cast<long double>(radius) * (1.0L + gam) + u53 * std::sqrt(n0)) * slack;
    const auto line = "BALL " + std::to_string(n) + "," + vh::hexf(radius) + "," + state + " | " + hexs(x0.data(), n) + " = " +
                      vh::hexf(static_cast<double>(dist / static_cast<long double>(radius)));
    emit(line);
    ++g_lines;
    const auto xline = head + " | " + hexs(dev.data(), n) + " | " + vh::hexf(z) + "," + vh::hexf(nrm) + "," + vh::hexf(unif) + " = " +
                       (finite ? hexs(x.data(), n) : std::string("nonfinite"));
    emit(xline);
    ++g_lines;
    if (!finite) fail("ball: non-finite or wrongly sized point", xline);
    else if (dist > bound) fail("ball: point outside the proved ball radius (1 + gamma_{n+5}) + 2^-53 |x0|", xline);
    if (!(rng == copy)) fail("ball: generator state after the call differs from n (normal, sign) draws + one uniform draw", xline);
    // hypotheses of the theorem, on the observed values: libm's pow stays in [0, 1]; the norm is within the any-order bound
    if (!(unif >= 0.0 && unif < 1.0)) fail("ball: uniform_real_distribution(0, 1) left [0, 1)", xline);
    if (!(z >= 0.0 && z <= 1.0)) fail("ball: z = pow(unif, 1/n) outside [0, 1] (hypothesis of C12_fl_ball)", xline);
    {
        const long double gn    = std::pow(1.0L + u53, static_cast<long double>(n)) - 1.0L;
        const long double lower = std::sqrt(su) * (1.0L - u53) * std::sqrt(1.0L - gn) / slack;
        if (!(static_cast<long double>(nrm) >= lower) || !(nrm > 0.0))
            fail("ball: lpNorm<2>() below the any-reduction-order bound sqrt(S) (1 - u) sqrt(1 - g_n) (hypothesis norm_lower)", xline);
    }
}

static void run_ball(vh::rng_t& g, const tensor_size_t n, const double radius, const int x0kind, rng_t& rng)
{
    vector_t x0(n);
    for (tensor_size_t i = 0; i < n; ++i)
    {
        switch (x0kind)
        {
        case 0: x0(i) = 0.0; break;
        case 1: x0(i) = (g.unit() - 0.5) * 2.0; break;
        case 2: x0(i) = (g.unit() - 0.5) * 2.0 * radius; break;
        case 3: x0(i) = (g.unit() - 0.5) * 2000.0; break;
        case 4: x0(i) = (g.unit() - 0.5) * 2e12 * radius; break;                                   // the 2^-53 |x0| term dominates
        default: x0(i) = std::ldexp(g.unit() < 0.5 ? -1.0 : 1.0, static_cast<int>(g.range(-30, 30))); break; // mixed magnitudes
        }
    }
    run_ball_case(x0, radius, rng);
}

// ---- gboost::sampler_t ---------------------------------------------------------------------------------------------
static void run_gboost(vh::rng_t& g, const tensor_size_t n, const gboost_subsample type, const uint64_t seed, const double ratio,
                       const int rounds)
{
    // samples: a duplicate-free subset of [0, total)
    const auto total = n + g.range(0, n);
    ivec       pool(static_cast<size_t>(total));
    std::iota(pool.begin(), pool.end(), tensor_size_t{0});
    for (size_t i = pool.size(); i > 1; --i) std::swap(pool[i - 1], pool[static_cast<size_t>(g.range(0, static_cast<int64_t>(i) - 1))]);
    ivec samples(pool.begin(), pool.begin() + n);
    if (g.unit() < 0.7) std::sort(samples.begin(), samples.end());
    const auto isamples = to_indices(samples);

    gboost::sampler_t sampler(isamples, type, seed, ratio);
    auto              rng   = make_rng(seed);
    // coded independently of the library's expression: floor of the binary64 product
    const auto        count = static_cast<tensor_size_t>(std::floor(ratio * static_cast<double>(n)));

    for (int round = 0; round < rounds; ++round)
    {
        tensor2d_t errors_losses(2, total);
        tensor4d_t gradients(total, 2, 1, 1);
        std::vector<double> wl(static_cast<size_t>(total)), wg(static_cast<size_t>(total));
        for (tensor_size_t i = 0; i < total; ++i)
        {
            const auto zero_l = g.unit() < 0.4, zero_g = g.unit() < 0.4;
            const auto k      = static_cast<double>(g.range(1, 64));
            errors_losses(0, i) = g.unit();
            errors_losses(1, i) = zero_l ? 0.0 : std::ldexp(static_cast<double>(g.range(1, 1000)), -6);
            gradients(i, 0, 0, 0) = zero_g ? 0.0 : 3.0 * k * (g.unit() < 0.5 ? -1.0 : 1.0);
            gradients(i, 1, 0, 0) = zero_g ? 0.0 : 4.0 * k; // |g| = 5k exactly
            wl[static_cast<size_t>(i)] = errors_losses(1, i);
            wg[static_cast<size_t>(i)] = zero_g ? 0.0 : 5.0 * k;
        }
        // keep the precondition of discrete_distribution: some selected sample has a positive weight
        {
            const auto s0 = samples[static_cast<size_t>(g.range(0, n - 1))];
            if (wl[static_cast<size_t>(s0)] <= 0.0) { errors_losses(1, s0) = 1.5; wl[static_cast<size_t>(s0)] = 1.5; }
            if (wg[static_cast<size_t>(s0)] <= 0.0) { gradients(s0, 0, 0, 0) = 3.0; gradients(s0, 1, 0, 0) = 4.0; wg[static_cast<size_t>(s0)] = 5.0; }
        }
        set_current("GBOOST mode=" + std::to_string(static_cast<int>(type)) + " seed=" + std::to_string(seed) + " ratio=" + vh::hexf(ratio) + " round=" + std::to_string(round) + " | " + js(samples));
        const auto res = sampler.sample(errors_losses, gradients);
        std::string oracle;
        switch (type)
        {
        case gboost_subsample::subsample: run_swor(samples, count, rng, 1, &res, &oracle); break;
        case gboost_subsample::bootstrap: run_swr(samples, count, rng, 1, &res, &oracle); break;
        case gboost_subsample::wei_loss_bootstrap:
        {
            std::vector<double> w;
            for (const auto s : samples) w.push_back(wl[static_cast<size_t>(s)]);
            run_swrw(samples, w, count, rng, 1, &res, &oracle);
            break;
        }
        case gboost_subsample::wei_grad_bootstrap:
        {
            std::vector<double> w;
            for (const auto s : samples) w.push_back(wg[static_cast<size_t>(s)]);
            run_swrw(samples, w, count, rng, 1, &res, &oracle);
            break;
        }
        default:
        {
            const auto line = "OFF " + std::to_string(n) + " | " + js(samples) + " = " + js(res);
            emit(line);
            ++g_lines;
            if (to_vec(res) != samples) fail("gboost sampler off: result differs from the training samples", line);
            break;
        }
        }
        // the whole call for the model of gboost::sampler_t (dispatch, count, weights): GBS kind,seed,ratio,round | samples |
        // losses (row 1 of errors_losses, by sample index) | gradient magnitudes (by sample index) | oracle answer = result
        {
            const auto gline = "GBS " + std::to_string(static_cast<int>(type)) + "," + std::to_string(seed) + "," + vh::hexf(ratio) + "," +
                               std::to_string(round) + " | " + js(samples) + " | " + hexs(wl.data(), total) + " | " + hexs(wg.data(), total) +
                               " | " + oracle + " = " + js(res);
            emit(gline);
            ++g_lines;
            if (type != gboost_subsample::off && static_cast<tensor_size_t>(res.size()) != count)
                fail("gboost sampler: number of returned samples != floor(ratio * n)", gline);
        }
    }
}

// ---- replay -----------------------------------------------------------------------------------------------------------
static ivec parse_ints(const std::string& s)
{
    ivec v;
    for (const auto& t : vh::split(s, ','))
    {
        const auto b = t.find_first_not_of(' ');
        if (b == std::string::npos) continue;
        v.push_back(static_cast<tensor_size_t>(std::strtoll(t.c_str() + b, nullptr, 10)));
    }
    return v;
}

static std::vector<std::string> fields(const std::string& s)
{
    // "OP a,b,c | f1 | f2 ... [= result]"
    auto lhs = s.substr(0, s.find(" = "));
    std::vector<std::string> out;
    size_t pos = 0;
    for (;;)
    {
        const auto bar = lhs.find(" | ", pos);
        out.push_back(lhs.substr(pos, bar == std::string::npos ? std::string::npos : bar - pos));
        if (bar == std::string::npos) break;
        pos = bar + 3;
    }
    return out;
}

static int replay()
{
    splitters_t sp;
    std::string line;
    while (std::getline(std::cin, line))
    {
        const auto sep = line.find(" :: ");
        if (line.rfind("FAIL ", 0) == 0 && sep != std::string::npos) line = line.substr(sep + 4);
        const auto f = fields(line);
        if (f.size() < 2) continue;
        const auto sp1  = f[0].find(' ');
        const auto op   = f[0].substr(0, sp1);
        const auto args = vh::split(sp1 == std::string::npos ? std::string() : f[0].substr(sp1 + 1), ',');
        if (op == "KFOLD" && args.size() >= 2)
            run_kfold(sp, parse_ints(f[1]), std::stoll(args[1]), std::stoull(args[0]), true, 2);
        else if (op == "RANDOM" && args.size() >= 3)
            run_random(sp, parse_ints(f[1]), std::stoll(args[1]), std::stoull(args[0]), std::stoll(args[2]), true, 2);
        else if ((op == "SWOR" || op == "SWR") && args.size() >= 3)
        {
            auto rng = rng_from(args[2]);
            if (op == "SWOR") run_swor(parse_ints(f[1]), std::stoll(args[0]), rng, 0);
            else run_swr(parse_ints(f[1]), std::stoll(args[0]), rng, 0);
        }
        else if ((op == "BALL" || op == "BALLX") && args.size() >= 3)
        {
            auto     rng = rng_from(args[2]);
            std::vector<double> c;
            for (const auto& t : vh::split(f[1], ',')) c.push_back(vh::parsef(t.substr(t.find_first_not_of(' '))));
            vector_t x0(static_cast<tensor_size_t>(c.size()));
            for (size_t i = 0; i < c.size(); ++i) x0(static_cast<tensor_size_t>(i)) = c[i];
            run_ball_case(x0, vh::parsef(args[1]), rng);
        }
        else if (op == "SWRW" && args.size() >= 3 && f.size() >= 3)
        {
            auto                rng = rng_from(args[2]);
            std::vector<double> w;
            for (const auto& t : vh::split(f[2], ',')) w.push_back(vh::parsef(t.substr(t.find_first_not_of(' '))));
            run_swrw(parse_ints(f[1]), w, std::stoll(args[0]), rng, 0);
        }
    }
    std::printf("DONE lines=%ld grid=%ld pairs=%ld fail=%ld\n", g_lines.load(), g_grid.load(), g_pairs.load(), g_fail.load());
    return 0;
}

int main(int argc, char** argv)
{
    std::setvbuf(stdout, nullptr, _IOLBF, 0);
    const std::string mode = argc > 1 ? argv[1] : "quick";
    for (const int sig : {SIGSEGV, SIGABRT, SIGBUS, SIGFPE, SIGILL}) std::signal(sig, on_crash);
    if (mode == "replay") return replay();
    const bool   thorough = mode == "thorough";
    const auto   seed0    = vh::env_seed();
    vh::rng_t    g(seed0);
    splitters_t  sp;

    // the seeds of the parameter domain [0, 1024]: boundary values + values drawn from VERIF_SEED
    std::vector<uint64_t> seeds = {0, 1, 42, 1023, 1024};
    while (seeds.size() < (thorough ? 24U : 10U)) seeds.push_back(static_cast<uint64_t>(g.range(0, 1024)));
    std::vector<tensor_size_t> percs = {10, 50, 80, 90};
    while (percs.size() < (thorough ? 12U : 7U)) percs.push_back(g.range(10, 90));

    // ---- A. exhaustive small domain, printed for the model: n in 1..40 x folds in 2..min(n,12) (+ one folds > n) ----------
    for (tensor_size_t n = 1; n <= 40; ++n)
    {
        for (tensor_size_t folds = 2; folds <= std::max<tensor_size_t>(2, std::min<tensor_size_t>(n, 12)) + 1; ++folds)
        {
            const bool beyond = folds > std::min<tensor_size_t>(n, 12);
            for (size_t is = 0; is < seeds.size(); ++is)
            {
                if (beyond && is >= 2) break;
                const auto kind    = static_cast<int>(g.range(0, 4));
                const auto samples = gen_samples(g, n, kind);
                run_kfold(sp, samples, beyond && n < 12 ? n + g.range(1, 5) : folds, seeds[is], true, 2);
                if (is < (thorough ? 8U : 4U))
                    for (size_t ip = 0; ip < percs.size(); ++ip)
                    {
                        if (beyond && ip >= 1) break;
                        run_random(sp, samples, folds, seeds[is], percs[ip], true, ip < 2 ? 2 : 1);
                    }
            }
        }
    }

    // ---- B. the grid of the property, direct checks only (threads; nothing printed unless a check fails) -----------------
    //        quick: every (n, folds) x 96 seeds x 9 percentages; thorough: all 1025 seeds x all 81 percentages
    {
        std::vector<uint64_t> gseeds;
        if (thorough) for (uint64_t s = 0; s <= 1024; ++s) gseeds.push_back(s);
        else { gseeds = seeds; while (gseeds.size() < 96U) gseeds.push_back(static_cast<uint64_t>(g.range(0, 1024))); }
        std::vector<tensor_size_t> gpercs;
        if (thorough) for (tensor_size_t p = 10; p <= 90; ++p) gpercs.push_back(p);
        else { gpercs = {10, 25, 45, 50, 55, 75, 80, 85, 90}; }
        const uint64_t           base = g.next();
        std::atomic<tensor_size_t> next_n{2};
        const auto               worker = [&]()
        {
            splitters_t mine;
            for (;;)
            {
                const auto n = next_n.fetch_add(1);
                if (n > 40) break;
                vh::rng_t lg(base ^ (static_cast<uint64_t>(n) * 0x9E3779B97F4A7C15ULL));
                for (tensor_size_t folds = 2; folds <= std::min<tensor_size_t>(n, 12); ++folds)
                {
                    for (const auto seed : gseeds)
                    {
                        const auto samples = gen_samples(lg, n, static_cast<int>(lg.range(0, 4)));
                        run_kfold(mine, samples, folds, seed, false, 1);
                        for (size_t ip = 0; ip < gpercs.size(); ++ip) run_random(mine, samples, folds, seed, gpercs[ip], false, (ip % 9 == 0) ? 1 : 0);
                    }
                }
            }
        };
        std::vector<std::thread> pool;
        const auto               nthreads = std::max(1U, std::min(16U, std::thread::hardware_concurrency()));
        for (unsigned t = 0; t < nthreads; ++t) pool.emplace_back(worker);
        for (auto& t : pool) t.join();
    }

    // ---- C. random larger inputs with arbitrary (non-contiguous, unsorted) index values ----------------------------------------
    {
        const int cases = thorough ? 400 : 40;
        for (int c = 0; c < cases; ++c)
        {
            tensor_size_t n;
            const auto    u = g.unit();
            if (u < 0.6) n = g.range(41, 300);
            else if (u < 0.92) n = g.range(301, 1500);
            else n = g.range(1501, 5000);
            // folds: small, around divisors of n, n itself, up to the parameter maximum 100
            tensor_size_t folds;
            const auto    v = g.unit();
            if (v < 0.4) folds = g.range(2, 12);
            else if (v < 0.7) folds = g.range(13, 100);
            else { folds = g.range(2, 100); n = folds * g.range(1, std::max<tensor_size_t>(1, 5000 / folds)) + (g.unit() < 0.5 ? 0 : g.range(0, folds - 1)); }
            // keep the printed volume (folds * n numbers per line) bounded
            const auto budget = thorough ? tensor_size_t{150000} : tensor_size_t{50000};
            if (folds * n > budget) folds = std::max<tensor_size_t>(2, budget / n);
            const auto seed    = c < 3 ? seeds[static_cast<size_t>(c)] : static_cast<uint64_t>(g.range(0, 1024));
            const auto samples = gen_samples(g, n, static_cast<int>(g.range(0, 4)));
            run_kfold(sp, samples, folds, seed, true, 2);
            run_random(sp, samples, std::max<tensor_size_t>(2, std::min<tensor_size_t>(folds, 12000 / n)), seed, g.range(10, 90), true, 2);
        }
    }

    // ---- D. samplers ---------------------------------------------------------------------------------------------------------------
    {
        // exhaustive small: n in 1..12, every count 0..n, a few generator states each
        for (tensor_size_t n = 1; n <= (thorough ? 16 : 12); ++n)
            for (tensor_size_t count = 0; count <= n; ++count)
                for (int rep = 0; rep < (thorough ? 6 : 2); ++rep)
                {
                    auto rng = make_rng(static_cast<uint64_t>(g.range(0, 1 << 30)));
                    rng.discard(static_cast<unsigned long long>(g.range(0, 7)));
                    const auto samples = gen_samples(g, n, static_cast<int>(g.range(0, 4)));
                    // one generator, several calls in a row (as gboost does)
                    run_swor(samples, count, rng, 0);
                    run_swr(samples, count, rng, 0);
                    run_swr(samples, n + count, rng, 0); // more draws than samples
                    run_swrw(samples, gen_weights(g, n), count, rng, 0);
                    run_swrw(samples, gen_weights(g, n), 2 * n + 1, rng, 0);
                    run_swor(samples, n - count, rng, 0);
                }
        const int cases = thorough ? 300 : 40;
        for (int c = 0; c < cases; ++c)
        {
            const auto n       = g.unit() < 0.85 ? g.range(13, 400) : (g.unit() < 0.7 ? g.range(401, 1500) : g.range(1501, 5000));
            const auto samples = gen_samples(g, n, static_cast<int>(g.range(0, 4)));
            auto       rng     = make_rng(static_cast<uint64_t>(g.range(0, 1 << 30)));
            const auto count   = g.unit() < 0.2 ? (g.unit() < 0.5 ? 0 : n) : g.range(0, n);
            run_swor(samples, count, rng, 0);
            run_swr(samples, g.range(0, 2 * n), rng, 0);
            run_swrw(samples, gen_weights(g, n), g.range(0, 2 * n), rng, 0);
            run_swor(samples, g.range(0, n), rng, 0);
        }
        // gboost::sampler_t: every mode, ratios over (0, 1], several rounds on the same generator
        const gboost_subsample types[] = {gboost_subsample::off, gboost_subsample::subsample, gboost_subsample::bootstrap,
                                          gboost_subsample::wei_loss_bootstrap, gboost_subsample::wei_grad_bootstrap};
        // dyadic ratios (count proved = k n / 2^j), decimal ones (the count follows the rounded binary64 product: 0.29 * 100 -> 28,
        // 0.7 * 10 -> 7, 0.57 * 100 -> 56), the ends of the parameter range (0, 1]
        const double ratios[] = {0.05, 0.1, 0.25, 0.3, 0.5, 0.7, 0.9, 0.99, 1.0, 0.29, 0.57, 0.58, 0.125, 0.75, 0.0625, 1e-3,
                                 1.0 - std::ldexp(1.0, -53), std::ldexp(1.0, -40), 0.35, 0.15};
        const int    nratios  = static_cast<int>(sizeof(ratios) / sizeof(ratios[0]));
        const int    gcases   = thorough ? 600 : 120;
        emit("GBKINDS " + std::to_string(static_cast<int>(gboost_subsample::off)) + "," + std::to_string(static_cast<int>(gboost_subsample::subsample)) + "," +
             std::to_string(static_cast<int>(gboost_subsample::bootstrap)) + "," + std::to_string(static_cast<int>(gboost_subsample::wei_loss_bootstrap)) + "," +
             std::to_string(static_cast<int>(gboost_subsample::wei_grad_bootstrap)) + " = 5");
        for (int c = 0; c < gcases; ++c)
        {
            // sizes where ratio * n sits next to an integer (multiples of 10 / 100 / powers of two), small and larger ones
            const auto v = g.unit();
            const auto n = v < 0.25 ? 10 * g.range(1, 60) : v < 0.35 ? (tensor_size_t{1} << g.range(0, 9)) : v < 0.8 ? g.range(1, 40) : g.range(41, 600);
            run_gboost(g, n, types[c % 5], static_cast<uint64_t>(g.range(0, 1024)), ratios[static_cast<size_t>(g.range(0, nratios - 1))], 3);
        }
    }

    // ---- E. sample_from_ball: dimensions 1..50, radii 1e-6..1e6 ------------------------------------------------------------------------
    {
        auto      rng   = make_rng(seed0 & 0x3fffffffULL);
        const int cases = thorough ? 20000 : 2500;
        for (int c = 0; c < cases; ++c)
        {
            const auto n      = c < 50 ? static_cast<tensor_size_t>(c + 1) : g.range(1, 50);
            const auto radius = (c % 7 == 0) ? (c % 14 == 0 ? 1e-6 : 1e6) : std::pow(10.0, -6.0 + 12.0 * g.unit());
            run_ball(g, n, radius, static_cast<int>(g.range(0, 5)), rng);
        }
    }

    std::printf("DONE lines=%ld grid=%ld pairs=%ld fail=%ld\n", g_lines.load(), g_grid.load(), g_pairs.load(), g_fail.load());
    return 0;
}
