// shared helpers of the /verif harnesses
#pragma once
#include <cinttypes>
#include <cmath>
#include <cstdint>
#include <cstdio>
#include <cstdlib>
#include <cstring>
#include <sstream>
#include <string>
#include <vector>

namespace vh
{
// splitmix64: every random choice of a harness derives from one state seeded by VERIF_SEED
struct rng_t
{
    uint64_t s;
    explicit rng_t(uint64_t seed) : s(seed) {}
    uint64_t next()
    {
        uint64_t z = (s += 0x9E3779B97F4A7C15ULL);
        z          = (z ^ (z >> 30)) * 0xBF58476D1CE4E5B9ULL;
        z          = (z ^ (z >> 27)) * 0x94D049BB133111EBULL;
        return z ^ (z >> 31);
    }
    // uniform in [lo, hi]
    int64_t range(int64_t lo, int64_t hi) { return lo + static_cast<int64_t>(next() % static_cast<uint64_t>(hi - lo + 1)); }
    double  unit() { return static_cast<double>(next() >> 11) * (1.0 / 9007199254740992.0); }
};

inline uint64_t env_seed()
{
    const char* s = std::getenv("VERIF_SEED");
    return s ? std::strtoull(s, nullptr, 10) : 20260926ULL;
}

inline std::string hexf(double v)
{
    char buf[64];
    if (std::isnan(v)) return "nan";
    if (std::isinf(v)) return v > 0 ? "inf" : "-inf";
    std::snprintf(buf, sizeof(buf), "%a", v);
    return buf;
}

inline double parsef(const std::string& s)
{
    if (s == "nan") return std::nan("");
    if (s == "inf") return HUGE_VAL;
    if (s == "-inf") return -HUGE_VAL;
    return std::strtod(s.c_str(), nullptr);
}

template <class tit>
std::string join(tit b, tit e, const char* sep = ",")
{
    std::ostringstream o;
    for (auto it = b; it != e; ++it)
    {
        if (it != b) o << sep;
        o << +*it;
    }
    return o.str();
}

inline std::vector<std::string> split(const std::string& s, char sep)
{
    std::vector<std::string> out;
    std::string              cur;
    for (char c : s)
    {
        if (c == sep) { out.push_back(cur); cur.clear(); }
        else cur.push_back(c);
    }
    out.push_back(cur);
    return out;
}
} // namespace vh
